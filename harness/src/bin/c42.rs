//! C42 — immutable-DB reads return exactly the requested chain suffix.
//!
//! Oracle: list model. The blocks of the three shipped chunk files are split with the own CBOR
//! walker, slot / header hash are computed by own code (cross-checked against pallas-traverse at
//! start-up), databases are written with own `.primary` / `.secondary` encoders (pinned byte for
//! byte against the shipped index files). Model of a database whose chunk files are f0..fm-1
//! (name order): immutable blocks = blocks of f0..fm-2 (the newest chunk file is the one the node
//! is still writing and is not immutable — property text: "every block of its immutable chunks").
//!   read_blocks            == immutable blocks, in order
//!   get_tip                == last immutable block (None when there is none)
//!   from_point exact (s,h) == suffix starting at the block with that slot and hash, error when absent
//!   from_point fuzzy (s,[])== suffix starting at the first block with slot >= s
//! Not judged (edge cases the property text does not pin down; counted only): fuzzy slot before the
//! first block (the quantifier speaks of slots "in and between blocks") and fuzzy slot after the tip
//! (empty suffix or error are both accepted; a non-empty answer is not).
use pallas_hardano::storage::immutable::{get_tip, read_blocks, read_blocks_from_point, Error, Point};
use pv::immdb::{self, Blk};
use pv::*;
use std::path::{Path, PathBuf};

#[derive(Clone, Debug)]
struct FileSpec {
    name: String,
    /// global block index range [lo, hi)
    lo: usize,
    hi: usize,
    base: u64,
    finalised: bool,
}

#[derive(Clone, Debug)]
struct Layout {
    label: String,
    /// class used in signatures / counters: "subset", "subset+empty", "split"
    kind: &'static str,
    files: Vec<FileSpec>,
}

impl Layout {
    fn to_json(&self) -> serde_json::Value {
        json!({"label": self.label, "kind": self.kind, "files": self.files.iter().map(|f| json!({"name": f.name, "lo": f.lo, "hi": f.hi, "base": f.base, "finalised": f.finalised})).collect::<Vec<_>>()})
    }
    fn from_json(v: &serde_json::Value) -> Layout {
        let kind = match v["kind"].as_str().unwrap_or("") {
            "subset" => "subset",
            "subset+empty" => "subset+empty",
            _ => "split",
        };
        Layout {
            label: v["label"].as_str().unwrap_or("").to_string(),
            kind,
            files: v["files"]
                .as_array()
                .unwrap()
                .iter()
                .map(|f| FileSpec {
                    name: f["name"].as_str().unwrap().to_string(),
                    lo: f["lo"].as_u64().unwrap() as usize,
                    hi: f["hi"].as_u64().unwrap() as usize,
                    base: f["base"].as_u64().unwrap(),
                    finalised: f["finalised"].as_bool().unwrap(),
                })
                .collect(),
        }
    }
    /// number of immutable blocks and the global index of the first one
    fn immutable(&self) -> (usize, usize) {
        if self.files.len() < 2 {
            return (0, 0);
        }
        let lo = self.files[0].lo;
        let hi = self.files[self.files.len() - 2].hi;
        (lo, hi)
    }
}

struct World {
    g: Vec<Blk>,
    /// [lo,hi) of the shipped chunk files A, B, C in `g`
    bounds: [(usize, usize); 3],
}

fn build_db(w: &World, l: &Layout, dir: &Path) -> std::io::Result<()> {
    let _ = std::fs::remove_dir_all(dir);
    std::fs::create_dir_all(dir)?;
    for f in &l.files {
        let refs: Vec<&Blk> = w.g[f.lo..f.hi].iter().collect();
        let base = if refs.is_empty() { 0 } else { f.base };
        let files = immdb::chunk_files(&refs, base, f.finalised);
        immdb::write_chunk(dir, &f.name, &files)?;
    }
    Ok(())
}

fn layouts(w: &World, seed: u64, quick: bool, scale: f64) -> Vec<Layout> {
    let mut out = vec![];
    let names = immdb::CHUNK_NAMES;
    let real_base = |i: usize| names[i].parse::<u64>().unwrap() * immdb::CHUNK_SLOTS;
    // every contiguous subset of the three shipped chunk files, with the shipped names ...
    for lo in 0..3 {
        for hi in lo..3 {
            let files: Vec<FileSpec> =
                (lo..=hi).map(|i| FileSpec { name: names[i].to_string(), lo: w.bounds[i].0, hi: w.bounds[i].1, base: real_base(i), finalised: i < 2 }).collect();
            let lab: String = (lo..=hi).map(|i| ["A", "B", "C"][i]).collect();
            out.push(Layout { label: lab.clone(), kind: "subset", files: files.clone() });
            // ... and renumbered from 00000 with an empty newest chunk (so that every file is immutable)
            let mut f2: Vec<FileSpec> = files.iter().enumerate().map(|(k, f)| FileSpec { name: format!("{:05}", k), ..f.clone() }).collect();
            let end = f2.last().unwrap().hi;
            f2.push(FileSpec { name: format!("{:05}", f2.len()), lo: end, hi: end, base: 0, finalised: false });
            out.push(Layout { label: format!("{lab}+e"), kind: "subset+empty", files: f2.clone() });
            // ... and additionally with an empty chunk in the middle (a chunk number whose slot range holds no block)
            if f2.len() >= 3 {
                let mut f3: Vec<FileSpec> = vec![];
                for (k, f) in f2.iter().enumerate() {
                    if k == 1 {
                        f3.push(FileSpec { name: String::new(), lo: f.lo, hi: f.lo, base: 0, finalised: true });
                    }
                    f3.push(f.clone());
                }
                for (k, f) in f3.iter_mut().enumerate() {
                    f.name = format!("{:05}", k);
                }
                out.push(Layout { label: format!("{lab}+mid-e+e"), kind: "subset+empty-middle", files: f3 });
            }
        }
    }
    // copy-splits: every shipped chunk cut into more files, indexes regenerated; a contiguous run
    // of the resulting files, renumbered from a random base
    let n_split = if quick { 5 } else { ((12.0 * scale).ceil() as usize).max(2) };
    let mut rng = Rng::derive(seed, "C42-layouts", 0);
    for si in 0..n_split {
        let mut files: Vec<(usize, usize)> = vec![];
        for (ci, (lo, hi)) in w.bounds.iter().enumerate() {
            let n = hi - lo;
            let maxk = if ci == 2 { 3 } else { 7 };
            let k = 1 + rng.usize_below(maxk);
            let mut cuts: Vec<usize> = (0..k - 1).map(|_| lo + 1 + rng.usize_below(n - 1)).collect();
            // sometimes a one-block file
            if k > 1 && rng.chance(1, 3) {
                let c = cuts[0];
                if c + 1 < *hi {
                    cuts.push(c + 1);
                }
            }
            cuts.push(*lo);
            cuts.push(*hi);
            cuts.sort();
            cuts.dedup();
            for p in cuts.windows(2) {
                files.push((p[0], p[1]));
            }
        }
        // contiguous run of files
        let (a, b) = if si == 0 || rng.chance(1, 2) {
            (0, files.len())
        } else {
            let a = rng.usize_below(files.len() - 1);
            let b = a + 2 + rng.usize_below(files.len() - a - 1);
            (a, b.min(files.len()))
        };
        let first_no = rng.below(90000) as usize;
        let mut specs: Vec<FileSpec> = files[a..b]
            .iter()
            .enumerate()
            .map(|(k, (lo, hi))| {
                let first_slot = w.g[*lo].slot;
                // relative slot of the first block: 1 + small gap (so some files start with empty slots)
                let gap = rng.below(40);
                FileSpec { name: format!("{:05}", first_no + k), lo: *lo, hi: *hi, base: first_slot.saturating_sub(gap), finalised: rng.chance(1, 4) }
            })
            .collect();
        let with_empty = rng.chance(1, 2);
        if with_empty {
            let end = specs.last().unwrap().hi;
            specs.push(FileSpec { name: format!("{:05}", first_no + specs.len()), lo: end, hi: end, base: 0, finalised: false });
        }
        out.push(Layout { label: format!("split{si}:{}files{}", specs.len(), if with_empty { "+e" } else { "" }), kind: "split", files: specs });
    }
    out
}

#[derive(Clone, Debug)]
enum Query {
    ReadAll,
    Tip,
    /// (slot, hash, class)
    Point(u64, Vec<u8>, String),
}

/// outcome of comparing an iterator with the model suffix
fn compare_suffix(iter: impl Iterator<Item = Result<Vec<u8>, pallas_hardano::storage::immutable::chunk::Error>>, model: &[Blk]) -> Result<usize, (String, String)> {
    let mut k = 0usize;
    for item in iter {
        match item {
            Err(e) => return Err(("item-error".into(), format!("item {k} is an error: {e}"))),
            Ok(b) => {
                if k >= model.len() {
                    return Err(("too-long".into(), format!("yields more than the {} expected blocks", model.len())));
                }
                if b != model[k].bytes {
                    let kind = if k == 0 { "wrong-start" } else { "wrong-block" };
                    // where does the returned block sit in the model?
                    return Err((kind.into(), format!("item {k}: expected block at slot {} ({} bytes), got {} bytes starting {}", model[k].slot, model[k].bytes.len(), b.len(), hex_short(&b[..b.len().min(16)]))));
                }
                k += 1;
            }
        }
        if k > model.len() + 4 {
            break;
        }
    }
    if k < model.len() {
        return Err(("too-short".into(), format!("yields {k} blocks, expected {}", model.len())));
    }
    Ok(k)
}

fn err_variant(e: &Error) -> &'static str {
    match e {
        Error::CannotFindBlock(_) => "CannotFindBlock",
        Error::OriginMissing => "OriginMissing",
        Error::CannotReadDir(_) => "CannotReadDir",
        Error::CannotDecodeBlock(_) => "CannotDecodeBlock",
        Error::ChunkReadError(_) => "ChunkReadError",
    }
}

fn run_query(ctx: &mut Ctx, w: &World, l: &Layout, dir: &Path, q: &Query) {
    let (ilo, ihi) = l.immutable();
    let model = &w.g[ilo..ihi];
    let rp = |q: &Query| -> serde_json::Value {
        match q {
            Query::ReadAll => json!({"layout": l.to_json(), "op": "read_blocks"}),
            Query::Tip => json!({"layout": l.to_json(), "op": "get_tip"}),
            Query::Point(s, h, c) => json!({"layout": l.to_json(), "op": "from_point", "slot": s, "hash": hexs(h), "class": c}),
        }
    };
    ctx.eval();
    match q {
        Query::ReadAll => {
            ctx.count("read_blocks_calls");
            let r = pv::panics::catch(|| read_blocks(dir).map(|it| compare_suffix(it, model)));
            match r {
                Err(p) => ctx.violation(&format!("panic:read_blocks:{}", p.site()), &format!("read_blocks panicked on layout {}: {}", l.label, p.msg), rp(q)),
                Ok(Err(e)) => ctx.violation(&format!("C42:read_blocks:{}:error:{}", l.kind, err_variant(&e)), &format!("read_blocks failed on an intact database ({}): {e}", l.label), rp(q)),
                Ok(Ok(Err((kind, what)))) => ctx.violation(&format!("C42:read_blocks:{}:{kind}", l.kind), &format!("read_blocks on layout {} ({} immutable blocks): {what}", l.label, model.len()), rp(q)),
                Ok(Ok(Ok(n))) => {
                    ctx.add("blocks_compared", n as u64);
                    if l.files.len() > 2 && n > 0 {
                        ctx.nontrivial(fp_mix(fp(l.label.as_bytes()), 1));
                    }
                }
            }
        }
        Query::Tip => {
            ctx.count("get_tip_calls");
            let expect = model.last().map(|b| Point::Specific(b.slot, b.hash.to_vec()));
            match pv::panics::catch(|| get_tip(dir)) {
                Err(p) => ctx.violation(&format!("panic:get_tip:{}", p.site()), &format!("get_tip panicked on layout {}: {}", l.label, p.msg), rp(q)),
                Ok(Err(e)) => ctx.violation(&format!("C42:get_tip:{}:error:{}", l.kind, err_variant(&e)), &format!("get_tip failed on an intact database ({}): {e}", l.label), rp(q)),
                Ok(Ok(t)) => {
                    if t != expect {
                        let cls = match (&t, &expect) {
                            (None, Some(_)) => "none-but-blocks-exist",
                            (Some(_), None) => "some-but-no-immutable-block",
                            _ => "wrong-block",
                        };
                        ctx.violation(&format!("C42:get_tip:{}:{cls}", l.kind), &format!("get_tip on layout {} = {t:?}, last immutable block is {expect:?}", l.label), rp(q));
                    } else if expect.is_some() {
                        ctx.count("tip_matches");
                        if l.files.len() > 2 {
                            ctx.nontrivial(fp_mix(fp(l.label.as_bytes()), 2));
                        }
                    } else {
                        ctx.count("tip_none_matches");
                    }
                }
            }
        }
        Query::Point(slot, hash, class) => {
            ctx.count("from_point_calls");
            let fuzzy = hash.is_empty();
            // model answer
            let start: Option<usize> = if fuzzy { model.iter().position(|b| b.slot >= *slot) } else { model.iter().position(|b| b.slot == *slot && b.hash[..] == hash[..]) };
            let before_first = model.first().map(|b| *slot < b.slot).unwrap_or(false);
            let r = pv::panics::catch(|| match read_blocks_from_point(dir, Point::Specific(*slot, hash.clone())) {
                Err(e) => Err(e),
                Ok(it) => Ok(compare_suffix(it, start.map(|s| &model[s..]).unwrap_or(&[]))),
            });
            let sigbase = format!("C42:from_point:{class}");
            match r {
                Err(p) => ctx.violation(&format!("panic:read_blocks_from_point:{}", p.site()), &format!("read_blocks_from_point({slot},{}) panicked on layout {}: {}", hexs(hash), l.label, p.msg), rp(q)),
                Ok(Err(e)) => {
                    // the call failed
                    let ev = err_variant(&e);
                    ctx.count(&format!("outcome_error_{ev}"));
                    if fuzzy {
                        if model.is_empty() || start.is_none() {
                            ctx.count("fuzzy_no_block_at_or_after:error");
                        } else if before_first {
                            ctx.count("fuzzy_before_first_block:error(not judged)");
                        } else {
                            ctx.violation(&format!("{sigbase}:expect=suffix:got=error:{ev}"), &format!("fuzzy point slot {slot} on layout {}: a block at or after that slot exists (slot {}), but the call failed: {e}", l.label, model[start.unwrap()].slot), rp(q));
                        }
                    } else if start.is_some() {
                        ctx.violation(&format!("{sigbase}:expect=suffix:got=error:{ev}"), &format!("exact point ({slot},{}) exists on layout {} but the call failed: {e}", hexs(hash), l.label), rp(q));
                    } else {
                        ctx.count("absent_exact_rejected");
                        ctx.nontrivial(fp_mix(fp(l.label.as_bytes()), fp_mix(*slot, fp(hash))));
                    }
                }
                Ok(Ok(cmp)) => {
                    if fuzzy {
                        match (start, cmp) {
                            (Some(s), Ok(n)) => {
                                ctx.add("blocks_compared", n as u64);
                                if before_first {
                                    ctx.count("fuzzy_before_first_block:whole-chain(not judged)");
                                } else {
                                    ctx.count("fuzzy_suffix_matches");
                                    let between = model[s].slot != *slot;
                                    if between {
                                        ctx.count("fuzzy_between_blocks_matches");
                                    }
                                    if between || s >= l.files[0].hi - ilo {
                                        ctx.nontrivial(fp_mix(fp(l.label.as_bytes()), *slot));
                                    }
                                }
                            }
                            (None, Ok(_)) => ctx.count("fuzzy_no_block_at_or_after:empty"),
                            (_, Err((kind, what))) => {
                                if before_first && start.is_some() {
                                    // an answer was given: it must then be the whole chain
                                    ctx.violation(&format!("{sigbase}:got={kind}"), &format!("fuzzy point slot {slot} (before the first block) on layout {}: {what}", l.label), rp(q));
                                } else {
                                    ctx.violation(&format!("{sigbase}:got={kind}"), &format!("fuzzy point slot {slot} on layout {}: expected the suffix from {:?}: {what}", l.label, start.map(|s| model[s].slot)), rp(q));
                                }
                            }
                        }
                    } else {
                        match (start, cmp) {
                            (Some(s), Ok(n)) => {
                                ctx.add("blocks_compared", n as u64);
                                ctx.count("exact_suffix_matches");
                                if s >= l.files[0].hi - ilo {
                                    ctx.count("exact_in_later_file_matches");
                                    ctx.nontrivial(fp_mix(fp(l.label.as_bytes()), *slot));
                                }
                            }
                            (Some(_), Err((kind, what))) => ctx.violation(&format!("{sigbase}:got={kind}"), &format!("exact point ({slot},{}) on layout {}: {what}", hexs(hash), l.label), rp(q)),
                            (None, Ok(_)) => ctx.violation(&format!("{sigbase}:expect=error:got=ok-empty"), &format!("exact point ({slot},{}) is absent from the immutable blocks of layout {} (tip slot {:?}) but read_blocks_from_point returned Ok with an empty iterator instead of an error", hexs(hash), l.label, model.last().map(|b| b.slot)), rp(q)),
                            (None, Err((kind, what))) => ctx.violation(&format!("{sigbase}:expect=error:got=blocks:{kind}"), &format!("exact point ({slot},{}) is absent from layout {} but blocks were returned: {what}", hexs(hash), l.label), rp(q)),
                        }
                    }
                }
            }
        }
    }
}

/// classify an exact point against the model
fn exact_class(model: &[Blk], slot: u64, present: bool, wrong_hash: Option<&str>) -> String {
    if let Some(k) = wrong_hash {
        return format!("exact-wrong-hash-{k}");
    }
    if present {
        return "exact-present".into();
    }
    match (model.first(), model.last()) {
        (Some(f), _) if slot < f.slot => "exact-absent-before-first".into(),
        (_, Some(l)) if slot > l.slot => "exact-absent-after-tip".into(),
        (None, None) => "exact-absent-no-immutable-block".into(),
        _ => "exact-absent-inside".into(),
    }
}

fn queries(w: &World, l: &Layout, rng: &mut Rng, quick: bool, every_slot: bool, scale: f64) -> Vec<Query> {
    let (ilo, ihi) = l.immutable();
    let model = &w.g[ilo..ihi];
    let mut qs = vec![Query::ReadAll, Query::Tip];
    let in_model = |g: usize| g >= ilo && g < ihi;
    // ---- exact points: blocks of the whole corpus (present in the DB or not)
    let mut picks: Vec<usize> = vec![];
    if quick {
        // all blocks next to a file boundary, plus a sample
        for f in &l.files {
            for d in 0..2usize {
                if f.lo + d < f.hi {
                    picks.push(f.lo + d);
                    picks.push(f.hi - 1 - d);
                }
            }
        }
        let n = if l.kind == "split" { 300 } else { 200 };
        for _ in 0..n {
            // 3/4 inside the db files, 1/4 anywhere in the corpus
            if rng.chance(3, 4) && !l.files.is_empty() {
                let lo = l.files[0].lo;
                let hi = l.files.last().unwrap().hi;
                if hi > lo {
                    picks.push(lo + rng.usize_below(hi - lo));
                    continue;
                }
            }
            picks.push(rng.usize_below(w.g.len()));
        }
        // a few blocks outside the immutable range (absent points)
        for (lo, hi) in w.bounds {
            picks.push(lo);
            picks.push(hi - 1);
        }
        picks.sort();
        picks.dedup();
    } else {
        picks = (0..w.g.len()).collect();
        if scale < 1.0 {
            let keep = ((picks.len() as f64) * scale) as usize;
            rng.shuffle(&mut picks);
            picks.truncate(keep.max(50));
            // boundaries always
            for f in &l.files {
                if f.lo < f.hi {
                    picks.push(f.lo);
                    picks.push(f.hi - 1);
                }
            }
            picks.sort();
            picks.dedup();
        }
    }
    for g in &picks {
        let b = &w.g[*g];
        qs.push(Query::Point(b.slot, b.hash.to_vec(), exact_class(model, b.slot, in_model(*g), None)));
    }
    // ---- wrong-hash / absent-slot exact points
    let n_wrong = if quick { 24 } else { ((400.0 * scale) as usize).max(24) };
    for i in 0..n_wrong {
        if model.is_empty() {
            break;
        }
        let k = rng.usize_below(model.len());
        let b = &model[k];
        match i % 6 {
            0 => qs.push(Query::Point(b.slot, rng.bytes(32), exact_class(model, b.slot, false, Some("random")))),
            1 => {
                let o = &model[(k + 1) % model.len()];
                if o.hash != b.hash {
                    qs.push(Query::Point(b.slot, o.hash.to_vec(), exact_class(model, b.slot, false, Some("of-neighbour"))));
                }
            }
            2 => qs.push(Query::Point(b.slot, b.hash[..31].to_vec(), exact_class(model, b.slot, false, Some("truncated")))),
            3 => {
                let mut h = b.hash.to_vec();
                h.push(0);
                qs.push(Query::Point(b.slot, h, exact_class(model, b.slot, false, Some("extended"))));
            }
            4 => {
                let mut h = b.hash.to_vec();
                let bit = rng.usize_below(256);
                h[bit / 8] ^= 1 << (bit % 8);
                qs.push(Query::Point(b.slot, h, exact_class(model, b.slot, false, Some("bitflip"))));
            }
            _ => {
                // right hash, slot off by one (absent unless a block sits there)
                let s = if rng.bool() { b.slot + 1 } else { b.slot.saturating_sub(1) };
                if !model.iter().any(|x| x.slot == s) {
                    let c = exact_class(model, s, false, None);
                    let c = if c == "exact-absent-inside" { "exact-right-hash-wrong-slot".to_string() } else { c };
                    qs.push(Query::Point(s, b.hash.to_vec(), c));
                }
            }
        }
    }
    // ---- fuzzy points
    let fuzzy_class = |s: u64| -> String {
        match (model.first(), model.last()) {
            (None, _) => "fuzzy-no-immutable-block".into(),
            (Some(f), _) if s < f.slot => "fuzzy-before-first".into(),
            (_, Some(t)) if s > t.slot => "fuzzy-after-tip".into(),
            _ => {
                if model.iter().any(|b| b.slot == s) {
                    "fuzzy-on-block".into()
                } else {
                    // between blocks of one file or between two files?
                    let nxt = model.iter().position(|b| b.slot >= s).unwrap() + ilo;
                    if l.files.iter().any(|f| f.lo == nxt && f.hi > f.lo) {
                        "fuzzy-between-files".into()
                    } else {
                        "fuzzy-between-blocks".into()
                    }
                }
            }
        }
    };
    let mut slots: Vec<u64> = vec![];
    // around every file boundary and the ends: first-2 .. first+2, last-2 .. last+2
    for f in &l.files {
        if f.lo < f.hi {
            let a = w.g[f.lo].slot;
            let b = w.g[f.hi - 1].slot;
            for d in 0..=4u64 {
                slots.push((a + d).saturating_sub(2));
                slots.push((b + d).saturating_sub(2));
            }
        }
    }
    slots.push(0);
    slots.push(u64::MAX);
    if every_slot {
        for f in &l.files {
            if f.lo < f.hi {
                for s in w.g[f.lo].slot..=w.g[f.hi - 1].slot {
                    slots.push(s);
                }
            }
        }
    } else {
        let n = if quick { 300 } else { ((3000.0 * scale) as usize).max(100) };
        let nonempty: Vec<&FileSpec> = l.files.iter().filter(|f| f.lo < f.hi).collect();
        for _ in 0..n {
            if nonempty.is_empty() {
                break;
            }
            match rng.below(8) {
                0 => {
                    // in a gap between two files (or before / after everything)
                    let lo = w.g[nonempty[0].lo].slot.saturating_sub(1000);
                    let hi = w.g[nonempty.last().unwrap().hi - 1].slot + 1000;
                    slots.push(rng.range(lo, hi));
                }
                1 | 2 => {
                    // exactly a block's slot, or right next to it
                    let f = nonempty[rng.usize_below(nonempty.len())];
                    let b = &w.g[f.lo + rng.usize_below(f.hi - f.lo)];
                    slots.push((b.slot + rng.below(3)).saturating_sub(1));
                }
                _ => {
                    let f = nonempty[rng.usize_below(nonempty.len())];
                    slots.push(rng.range(w.g[f.lo].slot, w.g[f.hi - 1].slot));
                }
            }
        }
    }
    slots.sort();
    slots.dedup();
    for s in slots {
        qs.push(Query::Point(s, vec![], fuzzy_class(s)));
    }
    qs
}

fn db_dir(ctx: &Ctx, tag: &str) -> PathBuf {
    ctx.out.join(format!("c42-db-{}-{}", ctx.shard, tag))
}

fn main() {
    let mut ctx = Ctx::from_args("C42");
    // ---- corpus + model
    let chunks = match immdb::load_chunks() {
        Ok(c) => c,
        Err(e) => {
            ctx.inconclusive(&format!("cannot split the shipped chunk files with the own walker: {e}"));
            ctx.finish();
        }
    };
    if let Err(e) = immdb::selftest(&chunks) {
        ctx.inconclusive(&format!("own index encoder is not pinned: {e}"));
        ctx.finish();
    }
    let mut bounds = [(0usize, 0usize); 3];
    let mut g = vec![];
    for (i, c) in chunks.iter().enumerate() {
        bounds[i] = (g.len(), g.len() + c.len());
        g.extend(c.iter().cloned());
    }
    // model sanity: slots strictly increasing; own slot/hash agree with pallas-traverse (trusted base)
    for k in 1..g.len() {
        if g[k - 1].slot >= g[k].slot {
            ctx.inconclusive("corpus blocks are not in strictly increasing slot order");
            ctx.finish();
        }
    }
    for b in g.iter() {
        match pallas_traverse::MultiEraBlock::decode(&b.bytes) {
            Ok(mb) if mb.slot() == b.slot && mb.hash().as_ref() == b.hash => {}
            _ => {
                ctx.inconclusive("own slot/hash of a corpus block disagrees with pallas-traverse");
                ctx.finish();
            }
        }
    }
    let w = World { g, bounds };
    ctx.note("corpus_blocks", json!(w.g.len()));

    // ---- replay
    if let Some(p) = ctx.replay.clone() {
        let v: serde_json::Value = serde_json::from_slice(&std::fs::read(p).unwrap()).unwrap();
        let r = &v["replay"];
        let l = Layout::from_json(&r["layout"]);
        let dir = db_dir(&ctx, "replay");
        build_db(&w, &l, &dir).expect("build db");
        let q = match r["op"].as_str().unwrap() {
            "read_blocks" => Query::ReadAll,
            "get_tip" => Query::Tip,
            _ => Query::Point(r["slot"].as_u64().unwrap(), hex::decode(r["hash"].as_str().unwrap()).unwrap(), r["class"].as_str().unwrap().to_string()),
        };
        run_query(&mut ctx, &w, &l, &dir, &q);
        println!("replayed {q:?} on layout {}: violations={}", l.label, ctx.n_violations());
        let _ = std::fs::remove_dir_all(&dir);
        ctx.finish();
    }

    let quick = ctx.quick();
    let ls = layouts(&w, ctx.seed, quick, ctx.scale);
    ctx.note("layouts", json!(ls.iter().map(|l| l.label.clone()).collect::<Vec<_>>()));
    let mut gq = 0u64; // global query index (same in every shard)
    for (li, l) in ls.iter().enumerate() {
        // the query list is the same in every shard (derived from seed + layout only)
        let mut qrng = Rng::derive(ctx.seed, "C42-queries", li as u64);
        let every_slot = !quick && ctx.scale >= 1.0 && (l.label == "ABC" || l.label == "ABC+e");
        let qs = queries(&w, l, &mut qrng, quick, every_slot, ctx.scale);
        let mine: Vec<&Query> = qs
            .iter()
            .filter(|_| {
                gq += 1;
                ctx.owns(gq)
            })
            .collect();
        if mine.is_empty() {
            continue;
        }
        let dir = db_dir(&ctx, &format!("{li}"));
        if let Err(e) = build_db(&w, l, &dir) {
            ctx.inconclusive(&format!("cannot build scratch database: {e}"));
            continue;
        }
        ctx.set_insert("layouts_run", &l.label);
        ctx.max("files_in_layout", l.files.len() as u64);
        for q in mine {
            run_query(&mut ctx, &w, l, &dir, q);
            if ctx.want_sample() {
                if let Query::Point(s, h, c) = q {
                    if !h.is_empty() && c == "exact-present" {
                        ctx.sample(json!({"layout": l.label, "files": l.files.len(), "point": [s, hexs(h)], "class": c}));
                    }
                }
            }
        }
        let _ = std::fs::remove_dir_all(&dir);
        if every_slot {
            ctx.note(&format!("every_slot_{}", l.label), json!(true));
        }
    }
    ctx.finish();
}
