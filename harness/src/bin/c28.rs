//! C28 — the P2P initiator never violates a protocol it speaks.
//!
//! Online trace checker at the `BehaviorOutput` boundary: one spec automaton (p2pspec, written
//! from the Ouroboros specification) per (peer, protocol), advanced by every message the
//! initiator EMITS to the peer (not by the `Sent` confirmation) and by every message the
//! simulated conformant responder delivers. An emitted message the automaton does not allow
//! the client to send is a violation.
//!
//! The harness plays the `Interface`: emitted sends go to a per-peer FIFO ("wire"); schedulable
//! actions are the initiator commands, delivery of the oldest pending `Sent` of p (at which
//! point the message reaches the responder), a reply of the responder to its oldest unanswered
//! request of p, and Connected / Disconnected / Error when the emitted Connect / Disconnect
//! commands make them possible. Per-peer FIFO order for `Sent` and for replies.
use pallas_network2::behavior::{AnyMessage, Config as HandshakeConfig, HandshakeBehavior, InitiatorBehavior, InitiatorCommand, InitiatorState, PromotionBehavior, PromotionConfig};
use pallas_network2::protocol as proto;
use pallas_network2::protocol::Point;
use pallas_network2::{Behavior, BehaviorOutput, InterfaceCommand, InterfaceError, InterfaceEvent, PeerId};
use pv::p2pdrive::{self, Explorer};
use pv::p2pgen;
use pv::p2pspec::{self, Agency, ConnSpec, Proto, Verdict};
use pv::*;
use serde_json::Value;
use std::collections::VecDeque;

#[derive(Clone, Debug, PartialEq)]
enum Act {
    Include(usize),
    Ban(usize),
    Demote(usize),
    Hk,
    Idle,
    StartSync,
    ContinueSync(usize),
    RequestBlocks,
    FetchEb(usize),
    FetchEbTxs(usize),
    /// confirm the oldest emitted, unconfirmed Send of p; the message reaches the responder
    DeliverSent(usize),
    /// the responder answers its oldest unanswered request of p with its k-th legal reply
    Reply(usize, u8),
    Connected(usize),
    Disconnected(usize),
    Error(usize),
}

impl Act {
    fn code(&self) -> u64 {
        let (a, p, x): (u64, usize, u64) = match self {
            Act::Include(p) => (1, *p, 0),
            Act::Ban(p) => (2, *p, 0),
            Act::Demote(p) => (3, *p, 0),
            Act::Hk => (4, 0, 0),
            Act::Idle => (5, 0, 0),
            Act::StartSync => (6, 0, 0),
            Act::ContinueSync(p) => (7, *p, 0),
            Act::RequestBlocks => (8, 0, 0),
            Act::FetchEb(p) => (9, *p, 0),
            Act::FetchEbTxs(p) => (10, *p, 0),
            Act::DeliverSent(p) => (11, *p, 0),
            Act::Reply(p, k) => (12, *p, *k as u64),
            Act::Connected(p) => (13, *p, 0),
            Act::Disconnected(p) => (14, *p, 0),
            Act::Error(p) => (15, *p, 0),
        };
        fp_mix(a * 1000 + p as u64, x)
    }
    fn kind(&self) -> &'static str {
        match self {
            Act::Include(_) => "IncludePeer",
            Act::Ban(_) => "BanPeer",
            Act::Demote(_) => "DemotePeer",
            Act::Hk => "Housekeeping",
            Act::Idle => "Idle",
            Act::StartSync => "StartSync",
            Act::ContinueSync(_) => "ContinueSync",
            Act::RequestBlocks => "RequestBlocks",
            Act::FetchEb(_) => "FetchEb",
            Act::FetchEbTxs(_) => "FetchEbTxs",
            Act::DeliverSent(_) => "Sent",
            Act::Reply(..) => "Recv(reply)",
            Act::Connected(_) => "Connected",
            Act::Disconnected(_) => "Disconnected",
            Act::Error(_) => "Error",
        }
    }
    fn to_json(&self) -> Value {
        match self {
            Act::Include(p) => json!(["Include", p]),
            Act::Ban(p) => json!(["Ban", p]),
            Act::Demote(p) => json!(["Demote", p]),
            Act::Hk => json!(["Hk"]),
            Act::Idle => json!(["Idle"]),
            Act::StartSync => json!(["StartSync"]),
            Act::ContinueSync(p) => json!(["ContinueSync", p]),
            Act::RequestBlocks => json!(["RequestBlocks"]),
            Act::FetchEb(p) => json!(["FetchEb", p]),
            Act::FetchEbTxs(p) => json!(["FetchEbTxs", p]),
            Act::DeliverSent(p) => json!(["DeliverSent", p]),
            Act::Reply(p, k) => json!(["Reply", p, k]),
            Act::Connected(p) => json!(["Connected", p]),
            Act::Disconnected(p) => json!(["Disconnected", p]),
            Act::Error(p) => json!(["Error", p]),
        }
    }
    fn from_json(v: &Value) -> Act {
        let name = v[0].as_str().unwrap();
        let p = v.get(1).and_then(|x| x.as_u64()).unwrap_or(0) as usize;
        let k = v.get(2).and_then(|x| x.as_u64()).unwrap_or(0) as u8;
        match name {
            "Include" => Act::Include(p),
            "Ban" => Act::Ban(p),
            "Demote" => Act::Demote(p),
            "Hk" => Act::Hk,
            "Idle" => Act::Idle,
            "StartSync" => Act::StartSync,
            "ContinueSync" => Act::ContinueSync(p),
            "RequestBlocks" => Act::RequestBlocks,
            "FetchEb" => Act::FetchEb(p),
            "FetchEbTxs" => Act::FetchEbTxs(p),
            "DeliverSent" => Act::DeliverSent(p),
            "Reply" => Act::Reply(p, k),
            "Connected" => Act::Connected(p),
            "Disconnected" => Act::Disconnected(p),
            "Error" => Act::Error(p),
            other => panic!("unknown action {other}"),
        }
    }
}

struct Finding {
    sig: String,
    what: String,
}

/// the harness' view of one peer connection
#[derive(Clone, Default)]
struct PeerWorld {
    connected: bool,
    connect_out: u32,
    disconnect_out: u32,
    /// emitted, not yet confirmed
    wire: VecDeque<AnyMessage>,
    /// oracle: advanced at emission and at reply delivery
    spec: ConnSpec,
    /// the responder's own view: advanced at arrival (= Sent delivery) and at reply
    resp: ConnSpec,
    /// protocols in which the responder owes an answer, in arrival order
    todo: VecDeque<Proto>,
    /// unconfirmed emissions per protocol
    unconfirmed: [u32; 8],
    /// step number of the latest emission per protocol (to tell "again in a later pass" from "twice in one pass")
    last_emit_step: [u64; 8],
    /// after an illegal emission the automaton of that protocol is out of step until reconnect
    desync: [bool; 8],
    /// version the responder will accept
    version: u64,
    /// the responder accepts with peer_sharing = 0 (peer sharing negotiated off): the initiator must not
    /// speak the peer-sharing protocol on this connection
    sharing_off: bool,
}

struct Sys {
    b: InitiatorBehavior,
    ids: Vec<PeerId>,
    table_capacity: usize,
    w: Vec<PeerWorld>,
    // model of the private queues (for the state key only)
    bf_queued: u32,
    lf_queued: Vec<u32>,
    started: bool,
    /// a peer-sharing answer naming peers was delivered: the private discovery set is involved
    tainted: bool,
    hist: u64,
    dead: bool,
    // observations
    steps: u64,
    hk_with_pending: u64,
    max_pending_at_hk: u64,
    max_lag: u64,
    emitted_total: u64,
    emitted_by_proto: [u64; 8],
    replies: u64,
    send_while_disconnected: u64,
    after_desync: u64,
    harness_problem: Option<String>,
}

fn mk_state() -> InitiatorState {
    InitiatorState::new()
}

type Table = (std::collections::HashMap<PeerId, InitiatorState>, Vec<PeerId>, usize);
thread_local! {
    static POOL: std::cell::RefCell<Vec<Table>> = const { std::cell::RefCell::new(Vec::new()) };
}

impl Drop for Sys {
    fn drop(&mut self) {
        let mut m = std::mem::take(&mut self.b.peers);
        m.clear();
        let ids = std::mem::take(&mut self.ids);
        if m.capacity() == self.table_capacity {
            POOL.with(|p| p.borrow_mut().push((m, ids, self.table_capacity)));
        }
    }
}

fn std_range() -> (Point, Point) {
    (Point::Origin, Point::new(100, vec![0xAA; 32]))
}

fn std_eb() -> Point {
    Point::new(7, vec![0xAB; 32])
}

#[derive(Clone, Debug)]
struct Setup {
    peers: usize,
    /// versions the initiator proposes
    offer: Vec<u64>,
    /// version each peer's responder accepts
    accept: Vec<u64>,
    max_hot: usize,
    max_warm: usize,
}

impl Setup {
    fn to_json(&self) -> Value {
        json!({"peers": self.peers, "offer": self.offer, "accept": self.accept, "max_hot": self.max_hot, "max_warm": self.max_warm})
    }
    fn from_json(v: &Value) -> Setup {
        let arr = |k: &str| v[k].as_array().unwrap().iter().map(|x| x.as_u64().unwrap()).collect::<Vec<u64>>();
        Setup { peers: v["peers"].as_u64().unwrap() as usize, offer: arr("offer"), accept: arr("accept"), max_hot: v["max_hot"].as_u64().unwrap() as usize, max_warm: v["max_warm"].as_u64().unwrap() as usize }
    }
}

impl Sys {
    fn new(su: &Setup, r: &mut Rng) -> Sys {
        let n = su.peers;
        let pooled = POOL.with(|p| {
            let mut p = p.borrow_mut();
            let i = p.iter().position(|t| t.1.len() == n);
            i.map(|i| p.swap_remove(i))
        });
        let (peers, ids, table_capacity) = match pooled {
            Some(t) => t,
            None => {
                let (m, ids) = p2pdrive::ordered_peers(n, &mk_state, r);
                let c = m.capacity();
                (m, ids, c)
            }
        };
        let b = InitiatorBehavior {
            promotion: PromotionBehavior::new(PromotionConfig { max_peers: 100, max_warm_peers: su.max_warm, max_hot_peers: su.max_hot, max_error_count: 1 }),
            handshake: HandshakeBehavior::new(HandshakeConfig { supported_version: p2pdrive::version_table(&su.offer) }),
            peers,
            ..Default::default()
        };
        // an accept entry >= 1000 encodes "version (entry - 1000), peer sharing negotiated off"
        let w = (0..n).map(|i| PeerWorld { version: su.accept[i] % 1000, sharing_off: su.accept[i] >= 1000, ..Default::default() }).collect();
        Sys {
            b,
            ids,
            table_capacity,
            w,
            bf_queued: 0,
            lf_queued: vec![0; n],
            started: false,
            tainted: false,
            hist: p2pdrive::HASH_INIT,
            dead: false,
            steps: 0,
            hk_with_pending: 0,
            max_pending_at_hk: 0,
            max_lag: 0,
            emitted_total: 0,
            emitted_by_proto: [0; 8],
            replies: 0,
            send_while_disconnected: 0,
            after_desync: 0,
            harness_problem: None,
        }
    }

    fn idx(&self, pid: &PeerId) -> Option<usize> {
        self.ids.iter().position(|p| p == pid)
    }

    /// the legal replies of the responder of p to its oldest unanswered request
    fn reply_options(&self, p: usize) -> Vec<(Proto, p2pspec::Kind)> {
        let w = &self.w[p];
        let Some(pr) = w.todo.front().copied() else { return vec![] };
        let st = w.resp.state(pr);
        let mut v: Vec<(Proto, p2pspec::Kind)> = p2pspec::allowed(pr, st).iter().map(|(k, _)| (pr, *k)).collect();
        // a query reply is only legal for a proposal that carries the query flag (never set here)
        v.retain(|(pr, k)| !(*pr == Proto::Handshake && *k == "QueryReply"));
        v
    }

    fn make_reply(&self, p: usize, pr: Proto, kind: p2pspec::Kind, r: &mut Rng, share_others: bool) -> AnyMessage {
        use proto::{blockfetch as bf, chainsync as cs, handshake as hs, keepalive as ka, leiosfetch as lf, leiosnotify as ln, peersharing as ps};
        let tip = cs::Tip(Point::new(1000, vec![0xCC; 32]), 1000);
        match (pr, kind) {
            (Proto::Handshake, "Accept") => AnyMessage::Handshake(hs::Message::Accept(
                self.w[p].version,
                if self.w[p].sharing_off { hs::n2n::VersionData::new(proto::MAINNET_MAGIC, false, Some(0), Some(false)) } else { p2pdrive::std_version_data() },
            )),
            (Proto::Handshake, "Refuse") => AnyMessage::Handshake(hs::Message::Refuse(hs::RefuseReason::VersionMismatch(vec![7, 8]))),
            (Proto::KeepAlive, "ResponseKeepAlive") => AnyMessage::KeepAlive(ka::Message::ResponseKeepAlive(u16::MAX)),
            (Proto::ChainSync, "AwaitReply") => AnyMessage::ChainSync(cs::Message::AwaitReply),
            (Proto::ChainSync, "RollForward") => AnyMessage::ChainSync(cs::Message::RollForward(cs::HeaderContent { variant: 6, byron_prefix: None, cbor: vec![0xBE; 40] }, tip)),
            (Proto::ChainSync, "RollBackward") => AnyMessage::ChainSync(cs::Message::RollBackward(Point::Origin, tip)),
            (Proto::ChainSync, "IntersectFound") => AnyMessage::ChainSync(cs::Message::IntersectFound(Point::Origin, tip)),
            (Proto::ChainSync, "IntersectNotFound") => AnyMessage::ChainSync(cs::Message::IntersectNotFound(tip)),
            (Proto::BlockFetch, "StartBatch") => AnyMessage::BlockFetch(bf::Message::StartBatch),
            (Proto::BlockFetch, "NoBlocks") => AnyMessage::BlockFetch(bf::Message::NoBlocks),
            (Proto::BlockFetch, "Block") => AnyMessage::BlockFetch(bf::Message::Block(vec![0x82, 0x01, 0x02])),
            (Proto::BlockFetch, "BatchDone") => AnyMessage::BlockFetch(bf::Message::BatchDone),
            (Proto::PeerSharing, "SharePeers") => {
                let addrs = if share_others { self.ids.iter().enumerate().filter(|(i, _)| *i != p && r.bool()).map(|(_, q)| p2pdrive::pid_address(q)).collect() } else { vec![] };
                AnyMessage::PeerSharing(ps::Message::SharePeers(addrs))
            }
            (Proto::LeiosNotify, "BlockAnnouncement") => AnyMessage::LeiosNotify(ln::Message::BlockAnnouncement(proto::AnyCbor::from_raw_bytes(vec![0x80]))),
            (Proto::LeiosNotify, "BlockOffer") => AnyMessage::LeiosNotify(ln::Message::BlockOffer(std_eb(), 99)),
            (Proto::LeiosNotify, "BlockTxsOffer") => AnyMessage::LeiosNotify(ln::Message::BlockTxsOffer(std_eb())),
            (Proto::LeiosNotify, "Votes") => AnyMessage::LeiosNotify(ln::Message::Votes(vec![proto::AnyCbor::from_raw_bytes(vec![0x01])])),
            (Proto::LeiosFetch, "Block") => AnyMessage::LeiosFetch(lf::Message::Block(proto::AnyCbor::from_raw_bytes(vec![0x83, 1, 2, 3]))),
            (Proto::LeiosFetch, "BlockTxs") => AnyMessage::LeiosFetch(lf::Message::BlockTxs { point: std_eb(), bitmaps: lf::Bitmaps::all(3), txs: vec![proto::AnyCbor::from_raw_bytes(vec![0x01]); 3] }),
            (pr, k) => p2pgen::message(pr, k, r),
        }
    }

    fn enabled(&self, with_tags: bool) -> Vec<Act> {
        if self.dead {
            return vec![];
        }
        let mut v = vec![Act::Hk];
        if !self.started {
            v.push(Act::StartSync);
        }
        if self.bf_queued < 2 {
            v.push(Act::RequestBlocks);
        }
        for p in 0..self.ids.len() {
            let w = &self.w[p];
            v.push(Act::ContinueSync(p));
            if w.version >= 15 && self.lf_queued[p] < 2 {
                v.push(Act::FetchEb(p));
                v.push(Act::FetchEbTxs(p));
            }
            if !w.wire.is_empty() && w.connected {
                v.push(Act::DeliverSent(p));
            }
            if w.connected {
                for k in 0..self.reply_options(p).len() {
                    v.push(Act::Reply(p, k as u8));
                }
            }
            if w.connect_out > 0 {
                v.push(Act::Connected(p));
            }
            if w.disconnect_out > 0 {
                v.push(Act::Disconnected(p));
            }
            if w.connected || w.connect_out > 0 {
                v.push(Act::Error(p));
            }
            v.push(Act::Include(p));
            if with_tags {
                v.push(Act::Ban(p));
                v.push(Act::Demote(p));
            }
        }
        v
    }

    fn step(&mut self, act: &Act, out: &mut Vec<Finding>, r: &mut Rng, share_others: bool) {
        if self.dead {
            return;
        }
        self.steps += 1;
        self.hist = fp_mix(self.hist, act.code());
        let pid = |s: &Sys, p: usize| s.ids[p].clone();
        enum In {
            Cmd(InitiatorCommand),
            Io(InterfaceEvent<AnyMessage>),
        }
        let input = match act {
            Act::Include(p) => In::Cmd(InitiatorCommand::IncludePeer(pid(self, *p))),
            Act::Ban(p) => In::Cmd(InitiatorCommand::BanPeer(pid(self, *p))),
            Act::Demote(p) => In::Cmd(InitiatorCommand::DemotePeer(pid(self, *p))),
            Act::Hk | Act::Idle => {
                let pending: u64 = self.w.iter().filter(|w| w.connected).map(|w| w.wire.len() as u64).sum();
                if pending > 0 {
                    self.hk_with_pending += 1;
                }
                self.max_pending_at_hk = self.max_pending_at_hk.max(pending);
                if matches!(act, Act::Hk) {
                    In::Cmd(InitiatorCommand::Housekeeping)
                } else {
                    In::Io(InterfaceEvent::Idle)
                }
            }
            Act::StartSync => {
                self.started = true;
                In::Cmd(InitiatorCommand::StartSync(vec![Point::Origin]))
            }
            Act::ContinueSync(p) => In::Cmd(InitiatorCommand::ContinueSync(pid(self, *p))),
            Act::RequestBlocks => {
                self.bf_queued += 1;
                In::Cmd(InitiatorCommand::RequestBlocks(std_range()))
            }
            Act::FetchEb(p) => {
                self.lf_queued[*p] += 1;
                In::Cmd(InitiatorCommand::FetchEb(pid(self, *p), std_eb()))
            }
            Act::FetchEbTxs(p) => {
                self.lf_queued[*p] += 1;
                In::Cmd(InitiatorCommand::FetchEbTxs(pid(self, *p), std_eb(), proto::leiosfetch::Bitmaps::all(3)))
            }
            Act::DeliverSent(p) => {
                let Some(m) = self.w[*p].wire.pop_front() else { return };
                // the message is on the wire: it reaches the responder now
                let (pr, kind) = p2pspec::kind_of(&m);
                let w = &mut self.w[*p];
                w.unconfirmed[pr.index()] = w.unconfirmed[pr.index()].saturating_sub(1);
                if !w.desync[pr.index()] {
                    match w.resp.advance(pr, Agency::Client, kind) {
                        Verdict::Ok(n) => {
                            if p2pspec::agency(pr, n) == Agency::Server {
                                w.todo.push_back(pr);
                            }
                        }
                        _ => {
                            // cannot happen while the oracle is in step: every legal emission is legal on arrival
                            self.harness_problem = Some(format!("responder saw {}:{kind} in {} although the emission was judged legal", pr.name(), w.resp.state(pr)));
                            w.desync[pr.index()] = true;
                        }
                    }
                }
                In::Io(InterfaceEvent::Sent(pid(self, *p), m))
            }
            Act::Reply(p, k) => {
                let opts = self.reply_options(*p);
                let Some((pr, kind)) = opts.get(*k as usize).copied() else { return };
                let m = self.make_reply(*p, pr, kind, r, share_others);
                if let AnyMessage::PeerSharing(proto::peersharing::Message::SharePeers(a)) = &m {
                    if !a.is_empty() {
                        self.tainted = true;
                    }
                }
                let w = &mut self.w[*p];
                let v1 = w.resp.advance(pr, Agency::Server, kind);
                let v2 = w.spec.advance(pr, Agency::Server, kind);
                match (v1, v2) {
                    (Verdict::Ok(n), Verdict::Ok(_)) => {
                        w.todo.pop_front();
                        if p2pspec::agency(pr, n) == Agency::Server {
                            w.todo.push_front(pr); // still owes (AwaitReply, streaming)
                        }
                    }
                    _ => {
                        self.harness_problem = Some(format!("reply {}:{kind} not legal in oracle state {} / responder state {}", pr.name(), w.spec.state(pr), w.resp.state(pr)));
                        return;
                    }
                }
                self.replies += 1;
                In::Io(InterfaceEvent::Recv(pid(self, *p), vec![m]))
            }
            Act::Connected(p) => {
                let version = self.w[*p].version;
                let left = self.w[*p].connect_out.saturating_sub(1);
                let dis = self.w[*p].disconnect_out;
                let sharing_off = self.w[*p].sharing_off;
                self.w[*p] = PeerWorld { connected: true, connect_out: left, disconnect_out: dis, version, sharing_off, ..Default::default() };
                In::Io(InterfaceEvent::Connected(pid(self, *p)))
            }
            Act::Disconnected(p) => {
                let w = &mut self.w[*p];
                w.disconnect_out = w.disconnect_out.saturating_sub(1);
                w.connected = false;
                w.wire.clear();
                w.todo.clear();
                w.unconfirmed = [0; 8];
                self.lf_queued[*p] = 0; // LeiosFetchBehavior purges the peer's queue
                In::Io(InterfaceEvent::Disconnected(pid(self, *p)))
            }
            Act::Error(p) => {
                let w = &mut self.w[*p];
                if !w.connected {
                    w.connect_out = w.connect_out.saturating_sub(1); // the connection attempt failed
                }
                self.lf_queued[*p] = 0;
                In::Io(InterfaceEvent::Error(pid(self, *p), InterfaceError::Other("io error".into())))
            }
        };

        let is_cmd = matches!(input, In::Cmd(_));
        let entry = || if is_cmd { format!("execute({})", act.kind()) } else { format!("handle_io({})", act.kind()) };
        let b = &mut self.b;
        let res = pv::panics::catch(move || match input {
            In::Cmd(c) => b.execute(c),
            In::Io(e) => b.handle_io(e),
        });
        if let Err(p) = res {
            out.push(Finding { sig: format!("panic:{}:{}", entry(), p.site()), what: format!("{} panicked: {}", entry(), p.msg) });
            self.dead = true;
            return;
        }
        let b = &mut self.b;
        let outputs = match pv::panics::catch(move || p2pdrive::drain(b)) {
            Ok(o) => o,
            Err(p) => {
                out.push(Finding { sig: format!("panic:poll_next after {}:{}", entry(), p.site()), what: format!("polling the output stream panicked: {}", p.msg) });
                self.dead = true;
                return;
            }
        };

        // ---- the trace checker ----
        for o in outputs {
            match o {
                BehaviorOutput::InterfaceCommand(InterfaceCommand::Connect(q)) => {
                    if let Some(qi) = self.idx(&q) {
                        self.w[qi].connect_out = (self.w[qi].connect_out + 1).min(3);
                    }
                }
                BehaviorOutput::InterfaceCommand(InterfaceCommand::Disconnect(q)) => {
                    if let Some(qi) = self.idx(&q) {
                        self.w[qi].disconnect_out = (self.w[qi].disconnect_out + 1).min(2);
                    }
                }
                BehaviorOutput::InterfaceCommand(InterfaceCommand::Send(q, m)) => {
                    let Some(qi) = self.idx(&q) else { continue };
                    let (pr, kind) = p2pspec::kind_of(&m);
                    self.emitted_total += 1;
                    self.emitted_by_proto[pr.index()] += 1;
                    match pr {
                        Proto::BlockFetch => self.bf_queued = self.bf_queued.saturating_sub(1),
                        Proto::LeiosFetch => self.lf_queued[qi] = self.lf_queued[qi].saturating_sub(1),
                        _ => {}
                    }
                    let w = &mut self.w[qi];
                    if !w.connected {
                        // no connection, no protocol instance: the interface drops the message
                        self.send_while_disconnected += 1;
                        continue;
                    }
                    if w.desync[pr.index()] {
                        self.after_desync += 1;
                        w.wire.push_back(m);
                        continue;
                    }
                    if std::env::var("PV_DEBUG").is_ok() && pr == Proto::PeerSharing {
                        eprintln!("DBG peersharing emit to peer {qi} sharing_off={} connected={}", w.sharing_off, w.connected);
                    }
                    if pr == Proto::PeerSharing && w.sharing_off {
                        out.push(Finding {
                            sig: format!("C28:peersharing:emit={kind}:peer-sharing-negotiated-off"),
                            what: format!("{} made the initiator emit peersharing:{kind} to peer {qi} although the handshake of that connection was accepted with peer_sharing = 0", act.kind()),
                        });
                    }
                    let prior = w.unconfirmed[pr.index()];
                    let same_step = prior > 0 && w.last_emit_step[pr.index()] == self.steps;
                    w.last_emit_step[pr.index()] = self.steps;
                    match w.spec.advance(pr, Agency::Client, kind) {
                        Verdict::Ok(_) => {
                            w.unconfirmed[pr.index()] += 1;
                            w.wire.push_back(m);
                            self.max_lag = self.max_lag.max(w.wire.len() as u64);
                        }
                        bad => {
                            let st = w.spec.state(pr);
                            let why = if bad == Verdict::NoAgency { "the responder has agency in that state" } else { "the message is not allowed in that state" };
                            out.push(Finding {
                                sig: format!("C28:{}:emit={kind}:spec_state={st}:unconfirmed_prior={}{}", pr.name(), if prior > 0 { "yes" } else { "no" }, if same_step { ":twice-within-one-step" } else { "" }),
                                what: format!(
                                    "{} made the initiator emit {}:{kind} to peer {qi} while the {} automaton of that connection (advanced by everything emitted so far and every reply delivered) is in state {st}: {why}; {} earlier {} message(s) to this peer were still waiting for their Sent confirmation",
                                    act.kind(),
                                    pr.name(),
                                    pr.name(),
                                    prior,
                                    pr.name()
                                ),
                            });
                            w.desync[pr.index()] = true;
                            w.wire.push_back(m);
                        }
                    }
                }
                _ => {}
            }
        }
    }

    fn key(&self) -> u64 {
        if self.dead {
            return 0xdead;
        }
        let mut s = String::with_capacity(2048);
        use std::fmt::Write;
        let pr = &self.b.promotion;
        for (i, p) in self.ids.iter().enumerate() {
            match self.b.peers.get(p) {
                Some(st) => write!(s, "{:?}", st).unwrap(),
                None => s.push('-'),
            }
            let w = &self.w[i];
            write!(
                s,
                "|{}{}{}{}|{}{}{}|{:?}|{:?}|{:?}|{:?}|{:?}|{}|",
                pr.cold_peers.contains(p) as u8,
                pr.warm_peers.contains(p) as u8,
                pr.hot_peers.contains(p) as u8,
                pr.banned_peers.contains(p) as u8,
                w.connected as u8,
                w.connect_out,
                w.disconnect_out,
                w.spec.st,
                w.resp.st,
                w.todo,
                w.unconfirmed,
                w.desync,
                self.lf_queued[i],
            )
            .unwrap();
            for m in &w.wire {
                write!(s, "{},", p2pgen::describe(m)).unwrap();
            }
            s.push(';');
        }
        write!(s, "{}|{}", self.bf_queued, self.started as u8).unwrap();
        // the behaviour only compares error_count with max_error_count (1 here)
        let mut outb = String::with_capacity(s.len());
        let mut rest = s.as_str();
        while let Some(i) = rest.find("error_count: ") {
            let j = i + "error_count: ".len();
            outb.push_str(&rest[..j]);
            let digits: String = rest[j..].chars().take_while(|c| c.is_ascii_digit()).collect();
            let v: u64 = digits.parse().unwrap_or(0);
            write!(outb, "{}", v.min(2)).unwrap();
            rest = &rest[j + digits.len()..];
        }
        outb.push_str(rest);
        let mut s = outb;
        for (i, p) in self.ids.iter().enumerate() {
            let name = format!("{}, {}", p.host, p.port);
            if s.contains(&name) {
                s = s.replace(&name, &format!("P{i}"));
            }
        }
        let s = p2pdrive::canon_version_tables(&s);
        let mut k = fp(s.as_bytes());
        if self.tainted {
            k = fp_mix(k, self.hist);
        }
        k
    }
}

fn replay_json(mode: &str, su: &Setup, seq: &[Act], rseed: u64) -> Value {
    json!({"mode": mode, "setup": su.to_json(), "reply_seed": rseed.to_string(), "actions": seq.iter().map(|a| a.to_json()).collect::<Vec<_>>()})
}

fn report(ctx: &mut Ctx, fs: Vec<Finding>, mode: &str, su: &Setup, seq: &[Act], rseed: u64) {
    for f in fs {
        let what = format!("[{mode}, {} peer(s), offer {:?}, accepted {:?}] after {} steps: {}", su.peers, su.offer, su.accept, seq.len(), f.what);
        ctx.violation(&f.sig, &what, replay_json(mode, su, seq, rseed));
    }
}

/// root_prefix + StartSync, Housekeeping, then every Sent confirmed and every request answered with
/// the responder's first legal reply (all of which return the protocol to its idle state)
fn quiescent_root(su: &Setup) -> Vec<Act> {
    let mut r = Rng::new(1);
    let mut sys = Sys::new(su, &mut r);
    let mut seq = root_prefix();
    let mut fs = vec![];
    let mut rr = Rng::new(7);
    for a in &seq {
        sys.step(a, &mut fs, &mut rr, false);
    }
    let mut settle = |sys: &mut Sys, seq: &mut Vec<Act>| {
        for _ in 0..40 {
            let a = if !sys.w[0].wire.is_empty() {
                Act::DeliverSent(0)
            } else if !sys.reply_options(0).is_empty() {
                Act::Reply(0, 0)
            } else {
                break;
            };
            sys.step(&a, &mut fs, &mut rr, false);
            seq.push(a);
        }
    };
    settle(&mut sys, &mut seq);
    for a in [Act::StartSync, Act::Hk] {
        let mut fs2 = vec![];
        let mut r2 = Rng::new(7);
        sys.step(&a, &mut fs2, &mut r2, false);
        seq.push(a);
    }
    settle(&mut sys, &mut seq);
    seq
}

/// Include, Hk, Connected, Sent(Propose), Accept, Hk  ->  one initialised hot peer
fn root_prefix() -> Vec<Act> {
    vec![Act::Include(0), Act::Hk, Act::Connected(0), Act::DeliverSent(0), Act::Reply(0, 0), Act::Hk]
}

fn main() {
    let mut ctx = Ctx::from_args("C28");
    for b in p2pspec::self_check() {
        ctx.inconclusive(&format!("protocol tables inconsistent: {b}"));
    }
    if let Some(p) = ctx.replay.clone() {
        let v: Value = serde_json::from_slice(&std::fs::read(p).unwrap()).unwrap();
        let rp = &v["replay"];
        let su = Setup::from_json(&rp["setup"]);
        let rseed: u64 = rp["reply_seed"].as_str().unwrap().parse().unwrap();
        let seq: Vec<Act> = rp["actions"].as_array().unwrap().iter().map(Act::from_json).collect();
        let mut r0 = Rng::new(1);
        let mut sys = Sys::new(&su, &mut r0);
        let mut rr = Rng::new(rseed);
        let share = rp["mode"] == "random";
        for (i, a) in seq.iter().enumerate() {
            let mut fs = vec![];
            sys.step(a, &mut fs, &mut rr, share);
            let w: Vec<String> = sys.w.iter().map(|w| format!("conn={} wire={:?} owes={:?}", w.connected, w.wire.iter().map(p2pgen::describe).collect::<Vec<_>>(), w.todo)).collect();
            println!("step {i}: {:?} -> {}", a, w.join(" | "));
            for f in fs {
                println!("   VIOLATION {} :: {}", f.sig, f.what);
                ctx.violation(&f.sig, &f.what, json!(null));
            }
        }
        println!("replayed: violations={}", ctx.n_violations());
        ctx.finish();
    }

    // ---------------- part 1: bounded-exhaustive schedules, one initialised hot peer ----------------
    // the property's bound is 9; the thorough tier goes one step further
    let extra = std::env::var("C28_DEPTH").ok().and_then(|s| s.parse().ok()).unwrap_or(if ctx.quick() { 9usize } else { 10 });
    let su13 = Setup { peers: 1, offer: vec![13], accept: vec![13], max_hot: 10, max_warm: 50 };
    let su15 = Setup { peers: 1, offer: vec![13, 15], accept: vec![15], max_hot: 10, max_warm: 50 };
    // root A: one initialised hot peer, its first requests emitted but unconfirmed;
    // root B: the same peer later — chain-sync started, everything confirmed and answered (quiescent)
    let setups: Vec<(Setup, Vec<Act>)> = vec![
        (su13.clone(), root_prefix()),
        (su15.clone(), root_prefix()),
        (su13.clone(), quiescent_root(&su13)),
        (su15.clone(), quiescent_root(&su15)),
    ];
    ctx.note("exhaustive_roots", json!(setups.iter().map(|(su, r)| json!({"setup": su.to_json(), "root": r.iter().map(|a| format!("{:?}", a)).collect::<Vec<_>>()})).collect::<Vec<_>>()));
    let mut complete = true;
    let cap = if ctx.quick() { 4_000_000 } else { 30_000_000 };
    let nshards = ctx.nshards as u64;
    let shard = ctx.shard as u64;
    for (si, (su, root)) in setups.iter().enumerate() {
        let mut mk_rng = ctx.sub_rng("c28-exh", si as u64);
        let nontriv = std::cell::RefCell::new(Vec::<u64>::new());
        let live_steps = std::cell::Cell::new(0u64);
        let agg = std::cell::RefCell::new((0u64, 0u64, 0u64, [0u64; 8], 0u64, 0u64, None::<String>)); // max_pending_at_hk, max_lag, replies, by proto, disconnected sends, after desync, problem
        let root_ok = std::cell::Cell::new(true);
        let split_depth = root.len() + 2;
        let stats = {
            let ctx_cell = std::cell::RefCell::new(&mut ctx);
            let mut fresh = || Sys::new(su, &mut mk_rng);
            let enabled = |s: &Sys| s.enabled(true);
            let mut apply = |s: &mut Sys, a: &Act, live: bool, prefix: &[Act]| {
                let mut fs = vec![];
                let mut rr = Rng::new(7);
                let before = (s.emitted_by_proto, s.replies, s.send_while_disconnected, s.after_desync);
                s.step(a, &mut fs, &mut rr, false);
                if live {
                    live_steps.set(live_steps.get() + 1);
                    let mut g = agg.borrow_mut();
                    g.0 = g.0.max(s.max_pending_at_hk);
                    g.1 = g.1.max(s.max_lag);
                    g.2 += s.replies - before.1;
                    for i in 0..8 {
                        g.3[i] += s.emitted_by_proto[i] - before.0[i];
                    }
                    g.4 += s.send_while_disconnected - before.2;
                    g.5 += s.after_desync - before.3;
                    if g.6.is_none() {
                        g.6 = s.harness_problem.clone();
                    }
                    if prefix.len() + 1 == root_prefix().len() {
                        // the root must really be one initialised hot peer
                        let ok = s.b.promotion.hot_peers.len() == 1 && s.b.peers.values().all(|p| p.is_initialized());
                        if !ok {
                            root_ok.set(false);
                        }
                    }
                    if !fs.is_empty() {
                        let mut seq = prefix.to_vec();
                        seq.push(a.clone());
                        report(&mut ctx_cell.borrow_mut(), fs, "exhaustive", su, &seq, 7);
                    }
                    if matches!(a, Act::Hk) && s.hk_with_pending > 0 && prefix.len() >= root.len() {
                        let mut v = nontriv.borrow_mut();
                        if v.len() < 6000 {
                            v.push(fp_mix(s.hist, si as u64));
                        }
                    }
                }
            };
            let key = |s: &Sys| s.key();
            let owns = |seq: &[Act]| {
                let mut h = 0u64;
                for a in seq {
                    h = fp_mix(h, a.code());
                }
                h % nshards == shard
            };
            let mut ex = Explorer { fresh: &mut fresh, enabled: &enabled, apply: &mut apply, key: &key };
            let (st, div) = ex.run_split(vec![root.clone()], root.len() + extra, cap, split_depth, &owns);
            for d in div {
                eprintln!("DIVERGED: {:?}", d);
            }
            st
        };
        ctx.evals(live_steps.get());
        for f in nontriv.borrow().iter() {
            ctx.nontrivial(*f);
        }
        let g = agg.borrow();
        ctx.max("max_pending_sent_at_housekeeping", g.0);
        ctx.max("max_pending_sent", g.1);
        ctx.add("exh_replies_delivered", g.2);
        for pr in p2pspec::ALL_PROTOS {
            ctx.add(&format!("exh_emitted_{}", pr.name()), g.3[pr.index()]);
        }
        ctx.add("exh_sends_without_connection", g.4);
        ctx.add("exh_sends_after_desync_not_judged", g.5);
        if let Some(p) = &g.6 {
            ctx.inconclusive(&format!("harness self-check failed: {p}"));
        }
        if !root_ok.get() {
            ctx.inconclusive("the root prefix did not produce one initialised hot peer");
        }
        ctx.add("exh_distinct_schedules", stats.sequences_executed);
        ctx.add("exh_steps_executed_incl_replays", stats.steps_executed);
        ctx.add("exh_pruned_by_state_equivalence", stats.pruned);
        ctx.add("exh_replay_divergences", stats.replay_divergences);
        for (d, c) in stats.new_states_per_depth.iter().enumerate() {
            if d >= root.len() {
                ctx.add(&format!("exh_setup{si}_new_states_depth{}", d - root.len()), *c);
            }
        }
        if stats.truncated || stats.max_depth_reached < root.len() + extra {
            complete = false;
            ctx.inconclusive(&format!("exhaustive part truncated by the state cap in setup {si}"));
        }
        if stats.replay_divergences > 0 {
            complete = false;
        }
    }
    ctx.note("exhaustive", json!(complete));
    ctx.note(
        "exhaustive_bound",
        json!(format!(
            "all schedules of <= {extra} enabled actions after the root (IncludePeer, Housekeeping, Connected, Sent(Propose), Accept, Housekeeping = one initialised hot peer with its first requests unconfirmed), one peer, for a version-13 connection and a version-15 connection (Leios protocols active), and additionally from the later quiescent state of the same peer (chain-sync started, all requests confirmed and answered); actions: Housekeeping, StartSync (once), ContinueSync, RequestBlocks (<= 2 queued), FetchEb / FetchEbTxs (<= 2 queued), deliver oldest Sent, each legal reply of the responder to its oldest request, Connected / Disconnected / Error when possible, IncludePeer, BanPeer, DemotePeer; a schedule is not extended when it reaches a monitor state already expanded at the same or a smaller depth"
        )),
    );

    // ---------------- part 2: random schedules ----------------
    let cases = ctx.budget(2_000, 200_000);
    for case in 0..cases {
        let mut r = ctx.sub_rng("c28-rand", case);
        let n = 1 + r.usize_below(4);
        let leios = r.bool();
        let su = Setup {
            peers: n,
            offer: if leios { vec![13, 15] } else { vec![13] },
            accept: (0..n).map(|_| (if leios && r.chance(2, 3) { 15 } else { 13 }) + if r.chance(1, 4) { 1000 } else { 0 }).collect(),
            max_hot: 1 + r.usize_below(4),
            max_warm: 1 + r.usize_below(6),
        };
        let len = 20 + r.usize_below(381);
        // per-schedule weights: how eager the interface is to confirm, the responder to answer, the application to command
        let w_hk = 2 + r.below(10);
        let w_sent = r.below(12);
        let w_reply = r.below(12);
        let w_cmd = 1 + r.below(6);
        let w_conn = 2 + r.below(6);
        let w_err = r.below(3);
        let w_tag = r.below(3);
        let rseed = r.next_u64();
        let mut rr = Rng::new(rseed);
        let mut sys = Sys::new(&su, &mut r);
        let mut seq: Vec<Act> = Vec::with_capacity(len);
        let mut fs = vec![];
        for _ in 0..len {
            let en = sys.enabled(true);
            let weight = |a: &Act| -> u64 {
                match a {
                    Act::Hk => w_hk,
                    Act::Idle => 1,
                    Act::DeliverSent(_) => w_sent * 2,
                    Act::Reply(..) => w_reply,
                    Act::StartSync | Act::ContinueSync(_) | Act::RequestBlocks | Act::FetchEb(_) | Act::FetchEbTxs(_) => w_cmd,
                    Act::Connected(_) => w_conn * 3,
                    Act::Disconnected(_) => w_conn,
                    Act::Error(_) => w_err,
                    Act::Include(p) => {
                        if sys.b.peers.contains_key(&sys.ids[*p]) {
                            w_tag.min(1)
                        } else {
                            6
                        }
                    }
                    Act::Ban(_) | Act::Demote(_) => w_tag.min(1),
                }
            };
            let total: u64 = en.iter().map(weight).sum::<u64>() + 1;
            let mut x = r.below(total);
            let mut chosen = Act::Idle;
            for a in &en {
                let wt = weight(a);
                if x < wt {
                    chosen = a.clone();
                    break;
                }
                x -= wt;
            }
            sys.step(&chosen, &mut fs, &mut rr, true);
            seq.push(chosen);
            ctx.eval();
            if !fs.is_empty() {
                report(&mut ctx, std::mem::take(&mut fs), "random", &su, &seq, rseed);
            }
            if sys.dead {
                break;
            }
        }
        ctx.count("random_schedules");
        ctx.add("random_steps", sys.steps);
        ctx.add("random_replies_delivered", sys.replies);
        ctx.add("random_messages_emitted", sys.emitted_total);
        for pr in p2pspec::ALL_PROTOS {
            ctx.add(&format!("random_emitted_{}", pr.name()), sys.emitted_by_proto[pr.index()]);
        }
        ctx.add("random_housekeeping_with_pending_sent", sys.hk_with_pending);
        ctx.add("random_sends_without_connection", sys.send_while_disconnected);
        ctx.add("random_sends_after_desync_not_judged", sys.after_desync);
        ctx.max("max_pending_sent_at_housekeeping", sys.max_pending_at_hk);
        ctx.max("max_pending_sent", sys.max_lag);
        ctx.max("random_max_hot", sys.b.promotion.hot_peers.len() as u64);
        if let Some(p) = &sys.harness_problem {
            ctx.inconclusive(&format!("harness self-check failed: {p}"));
        }
        if sys.hk_with_pending > 0 {
            ctx.nontrivial(sys.hist);
        }
        if case < 2 {
            ctx.sample(json!({"setup": su.to_json(), "first_actions": seq.iter().take(30).map(|a| format!("{:?}", a)).collect::<Vec<_>>(), "housekeeping_with_pending_sent": sys.hk_with_pending, "emitted": sys.emitted_total}));
        }
    }
    ctx.finish();
}
