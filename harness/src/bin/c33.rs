//! C33 — phase-1 validation is total: `validate_tx` / `validate_txs` return Ok or a validation
//! error and never panic, abort or hang, for any decodable transaction, any UTxO set and any
//! well-known protocol parameters.
//!
//! Oracle: panic / crash watch (panic hook + catch_unwind; the shard is a sub-process, so aborts and
//! stack overflows are seen by the driver through `begin_case`; 20 s CPU bound per case).
//! Decoding (of the transaction and of the harness-built UTxO outputs) happens outside the watched
//! region: a case that does not decode is not a case of this property.
//!
//! Workload: the 24 fixtures (original and re-keyed, Byron re-keyed too) under 1..3 typed structural
//! mutations of the transaction and of its UTxO set, see `OPS`; protocol parameters are never edited,
//! a case may only swap in the whole environment of another fixture of the same era family.
use pallas_traverse::Era;
use pallas_validate::utils::MultiEraProtocolParameters as Mpp;
use pv::cbor::{self, Node};
use pv::fixmut::*;
use pv::fixtures::*;
use pv::*;

const EDGE: [u64; 8] = [0, 1, 1 << 63, u64::MAX, (1 << 63) - 1, (1 << 63) + 1, u64::MAX - 1, 1 << 32];

fn edge(rng: &mut Rng) -> u64 {
    match rng.below(10) {
        0..=5 => EDGE[rng.usize_below(4)],
        6 | 7 => EDGE[rng.usize_below(8)],
        _ => rng.edgy_u64(),
    }
}

#[derive(Clone, Debug)]
struct UEntry {
    tx_hash: [u8; 32],
    index: u64,
    out: Out,
    style: OutStyle,
    era: Era,
    byron_input: bool,
}

struct Case {
    era: Era,
    tx: Vec<u8>,
    utxo: Vec<UEntry>,
    env: EnvSpec,
    env_from: String,
    ops: Vec<String>,
    copies: usize,
}

const BYRON_PAYLOAD_HEX: &str = "83581cff66e7549ee0706abe5ce63ba325f792f2c1145d918baf563db2b457a101581e581cca3e553c9c63c5927480e7434620200eb3a162ef0b6cf6f671ba925100";

fn byron_address_bytes() -> Vec<u8> {
    let p = hex::decode(BYRON_PAYLOAD_HEX).unwrap();
    Node::arr(vec![Node::tag(24, Node::bytes(&p)), Node::u(refhash::crc32(&p) as u64)]).to_vec()
}

fn weird_address(rng: &mut Rng, net: u8) -> (Vec<u8>, &'static str) {
    match rng.below(9) {
        0 => (byron_address_bytes(), "byron"),
        1 => {
            let mut a = vec![0xe0 | net];
            a.extend(rng.bytes(28));
            (a, "stake-key")
        }
        2 => {
            let mut a = vec![0xf0 | net];
            a.extend(rng.bytes(28));
            (a, "stake-script")
        }
        3 => {
            let mut a = vec![0x40 | net];
            a.extend(rng.bytes(28));
            a.extend([0x81, 0x00, 0x02, 0x03]);
            (a, "pointer")
        }
        4 => (vec![], "empty"),
        5 => {
            let n = 1 + rng.usize_below(70);
            (rng.bytes(n), "random")
        }
        6 => {
            let mut a = vec![0x10 | net];
            a.extend(rng.bytes(56));
            (a, "script-base")
        }
        7 => {
            let mut a = vec![0x70 | net];
            a.extend(rng.bytes(28));
            (a, "script-enterprise")
        }
        _ => {
            let mut a = vec![(rng.below(16) as u8) << 4 | (rng.below(16) as u8)];
            a.extend(rng.bytes(28));
            (a, "random-header")
        }
    }
}

fn post_alonzo(era: Era) -> bool {
    matches!(era, Era::Babbage | Era::Conway)
}

/// collect paths to every integer leaf under `n`
fn int_paths(n: &Node, path: &mut Vec<usize>, out: &mut Vec<Vec<usize>>) {
    match n {
        Node::UInt(..) | Node::NInt(..) => out.push(path.clone()),
        Node::Array(xs, _) | Node::ArrayIndef(xs) => {
            for (i, x) in xs.iter().enumerate() {
                path.push(i);
                int_paths(x, path, out);
                path.pop();
            }
        }
        Node::Map(xs, _) | Node::MapIndef(xs) => {
            for (i, (k, v)) in xs.iter().enumerate() {
                path.push(2 * i);
                int_paths(k, path, out);
                path.pop();
                path.push(2 * i + 1);
                int_paths(v, path, out);
                path.pop();
            }
        }
        Node::Tag(_, _, x) => {
            path.push(0);
            int_paths(x, path, out);
            path.pop();
        }
        _ => {}
    }
}
fn node_at<'a>(n: &'a mut Node, path: &[usize]) -> Option<&'a mut Node> {
    if path.is_empty() {
        return Some(n);
    }
    match n {
        Node::Array(xs, _) | Node::ArrayIndef(xs) => node_at(xs.get_mut(path[0])?, &path[1..]),
        Node::Map(xs, _) | Node::MapIndef(xs) => {
            let e = xs.get_mut(path[0] / 2)?;
            node_at(if path[0] % 2 == 0 { &mut e.0 } else { &mut e.1 }, &path[1..])
        }
        Node::Tag(_, _, x) => node_at(x, &path[1..]),
        _ => None,
    }
}

fn set_list_key(tx: &[u8], key: u64, items: Vec<Node>) -> Vec<u8> {
    let like = body_get(tx, key);
    body_set(tx, key, Some(list_like(like.as_ref(), items)))
}

/// one typed mutation of a post-Byron case; returns the op label or None if not applicable
fn mutate_shelley_plus(rng: &mut Rng, c: &mut Case, f: &Fixture) -> Option<String> {
    let tx = c.tx.clone();
    let n_out = output_count(&tx);
    let net = c.env.network_id;
    let legacy_default = !post_alonzo(c.era) || rng.bool();
    match rng.below(38) {
        0 if n_out > 0 => {
            let (i, v) = (rng.usize_below(n_out), edge(rng));
            c.tx = edit_output(&tx, i, |o| {
                if let Some((_, a)) = out_get(o) {
                    out_set(o, v, &a)
                }
            });
            Some(format!("out.coin={v}"))
        }
        1 => {
            let v = edge(rng);
            c.tx = set_fee(&tx, v);
            Some(format!("fee={v}"))
        }
        2 | 3 if n_out > 0 => {
            // asset quantity (existing or new asset) := edge, 0 included
            let (i, q) = (rng.usize_below(n_out), edge(rng));
            let outs = outputs(&tx);
            let (coin, mut a) = out_get(&outs[i])?;
            let nonempty: Vec<usize> = (0..a.len()).filter(|i| !a[*i].1.is_empty()).collect();
            let (p, n) = if !nonempty.is_empty() && rng.bool() {
                let pi = *rng.pick(&nonempty);
                let ni = rng.usize_below(a[pi].1.len());
                (a[pi].0.clone(), a[pi].1[ni].0.clone())
            } else {
                let nl = rng.usize_below(33);
                (mint_get(&tx).first().map(|m| m.0.clone()).filter(|_| rng.bool()).unwrap_or_else(|| rng.bytes(28)), rng.bytes(nl))
            };
            assets_set(&mut a, &p, &n, Some(q));
            c.tx = edit_output(&tx, i, |o| out_set(o, coin, &a));
            Some(format!("out.asset={q}"))
        }
        4 if n_out > 0 && post_alonzo(c.era) => {
            // legacy <-> map form
            let i = rng.usize_below(n_out);
            let outs = outputs(&tx);
            let v = parse_output(&outs[i])?;
            let (coin, a) = out_get(&outs[i])?;
            let mut o = mk_output(&v.addr, coin, &a, !v.legacy);
            if let Some(h) = &v.datum_hash {
                match &mut o {
                    Node::Array(xs, _) => xs.push(Node::bytes(h)),
                    Node::Map(xs, _) => xs.push((Node::u(2), Node::arr(vec![Node::u(0), Node::bytes(h)]))),
                    _ => {}
                }
            }
            c.tx = edit_output(&tx, i, |x| *x = o);
            Some(format!("out.form={}", if v.legacy { "map" } else { "legacy" }))
        }
        5 => {
            let (k, name) = *rng.pick(&[(1u64, "outputs"), (0, "inputs"), (13, "collateral"), (14, "required_signers"), (18, "reference_inputs")]);
            if (k == 18 && !post_alonzo(c.era)) || (k >= 13 && matches!(c.era, Era::Shelley | Era::Allegra | Era::Mary)) {
                return None;
            }
            c.tx = set_list_key(&tx, k, vec![]);
            Some(format!("{name}=[]"))
        }
        6 => {
            // empty mint map / a policy with an empty asset map / key removed
            let m = match rng.below(3) {
                0 => Some(Node::map(vec![])),
                1 => Some(Node::map(vec![(Node::bytes(&rng.bytes(28)), Node::map(vec![]))])),
                _ => None,
            };
            let l = format!("mint={}", match &m { None => "absent", Some(Node::Map(x, _)) if x.is_empty() => "{}", _ => "{p:{}}" });
            c.tx = body_set(&tx, 9, m);
            Some(l)
        }
        7 | 8 => {
            // mint quantity edge on an existing / new policy
            let mut m = mint_get(&tx);
            let q = *rng.pick(&[1i128, -1, i64::MAX as i128, i64::MIN as i128, 0, 2, -2, (i64::MAX as i128) - 1]);
            let existing = !m.is_empty() && rng.chance(2, 3);
            let p = if existing { m[rng.usize_below(m.len())].0.clone() } else { rng.bytes(28) };
            let nl = rng.usize_below(4);
            let n = if existing && rng.bool() { m.iter().find(|x| x.0 == p)?.1.first()?.0.clone() } else { rng.bytes(nl) };
            mint_put(&mut m, &p, &n, q);
            c.tx = mint_set(&tx, &m);
            Some(format!("mint.q={q}"))
        }
        9 if !c.utxo.is_empty() => {
            let k = rng.usize_below(c.utxo.len());
            c.utxo.remove(k);
            Some("utxo.drop".into())
        }
        10 | 11 if !c.utxo.is_empty() => {
            // UTxO output of another era / encoding form
            let k = rng.usize_below(c.utxo.len());
            let (style, era) = *rng.pick(&[
                (OutStyle::Byron, Era::Byron),
                (OutStyle::AlonzoCompat, Era::Shelley),
                (OutStyle::AlonzoCompat, Era::Mary),
                (OutStyle::AlonzoCompat, Era::Alonzo),
                (OutStyle::AlonzoCompat, Era::Babbage),
                (OutStyle::AlonzoCompat, Era::Conway),
                (OutStyle::Babbage, Era::Babbage),
                (OutStyle::Babbage, Era::Conway),
                (OutStyle::Conway, Era::Babbage),
            ]);
            let e = &mut c.utxo[k];
            if style == OutStyle::Byron {
                e.out.address = hex::decode(BYRON_PAYLOAD_HEX).unwrap();
            } else if e.style == OutStyle::Byron {
                e.out.address = f.utxo.iter().find(|x| x.out.address.len() >= 29).map(|x| x.out.address.clone()).unwrap_or_else(|| {
                    let mut a = vec![0x60 | net];
                    a.extend([7u8; 28]);
                    a
                });
            }
            e.style = style;
            e.era = era;
            Some(format!("utxo.era={era:?}/{style:?}"))
        }
        12 if n_out > 0 => {
            let i = rng.usize_below(n_out);
            let (a, kind) = weird_address(rng, net);
            c.tx = edit_output(&tx, i, |o| {
                if let Some(x) = out_address_mut(o) {
                    *x = Node::bytes(&a)
                }
            });
            Some(format!("out.addr={kind}"))
        }
        13 if !c.utxo.is_empty() => {
            let k = rng.usize_below(c.utxo.len());
            let (a, kind) = weird_address(rng, net);
            if c.utxo[k].style == OutStyle::Byron {
                return None;
            }
            c.utxo[k].out.address = a;
            Some(format!("utxo.addr={kind}"))
        }
        14 | 15 => {
            // vkey witnesses with wrong-length key / signature byte strings
            let mut ws = vkey_witnesses(&tx);
            let vl = *rng.pick(&[0usize, 1, 31, 33, 64, 32]);
            let sl = *rng.pick(&[0usize, 1, 63, 65, 128, 64]);
            let l;
            if !ws.is_empty() && rng.chance(2, 3) {
                let k = rng.usize_below(ws.len());
                match rng.below(3) {
                    0 => {
                        ws[k].0.resize(vl, 0x5a);
                        l = format!("wit.vkey.len={vl}");
                    }
                    1 => {
                        ws[k].1.resize(sl, 0x5a);
                        l = format!("wit.sig.len={sl}");
                    }
                    _ => {
                        ws[k].0.resize(vl, 0x5a);
                        ws[k].1.resize(sl, 0x5a);
                        l = format!("wit.vkey.len={vl},sig.len={sl}");
                    }
                }
            } else {
                let w = (rng.bytes(vl), rng.bytes(sl));
                if rng.bool() {
                    ws.push(w)
                } else {
                    ws.insert(0, w)
                }
                l = format!("wit.extra(vkey.len={vl},sig.len={sl})");
            }
            c.tx = set_vkey_witnesses(&tx, &ws);
            Some(l)
        }
        16 => {
            // redeemer budgets
            let mut r = redeemers(&tx)?;
            if rng.bool() {
                // a second redeemer (copy of the first, other index) with edge budgets: the budgets are summed
                let (m, st) = (edge(rng), edge(rng));
                match &mut r {
                    Node::Map(es, _) | Node::MapIndef(es) => {
                        let (k, v) = es.first()?.clone();
                        let mut k2 = k.clone();
                        if let Some(xs) = elems_mut(&mut k2) {
                            xs[1] = Node::u(7);
                        }
                        let mut v2 = v.clone();
                        if let Some(xs) = elems_mut(&mut v2) {
                            xs[1] = Node::arr(vec![Node::u(m), Node::u(st)]);
                        }
                        es.push((k2, v2));
                    }
                    other => {
                        let xs = elems_mut(other)?;
                        let mut e = xs.first()?.clone();
                        if let Some(ys) = elems_mut(&mut e) {
                            if ys.len() == 4 {
                                ys[1] = Node::u(7);
                                ys[3] = Node::arr(vec![Node::u(m), Node::u(st)]);
                            }
                        }
                        xs.push(e);
                    }
                }
                c.tx = set_redeemers(&tx, r);
                return Some(format!("redeemer.add(mem={m},steps={st})"));
            }
            let mut paths = vec![];
            int_paths(&r, &mut vec![], &mut paths);
            if paths.is_empty() {
                return None;
            }
            let p = rng.pick(&paths).clone();
            let v = edge(rng);
            *node_at(&mut r, &p)? = Node::u(v);
            c.tx = set_redeemers(&tx, r);
            Some(format!("redeemer.int={v}"))
        }
        17 if post_alonzo(c.era) => {
            // collateral return / total collateral
            if rng.bool() {
                let v = edge(rng);
                c.tx = body_set(&tx, 17, Some(Node::u(v)));
                Some(format!("total_collateral={v}"))
            } else {
                let addr = f.utxo.first()?.out.address.clone();
                let q = edge(rng);
                let a: Assets = if rng.bool() { vec![] } else { vec![(rng.bytes(28), vec![(b"c".to_vec(), q)])] };
                c.tx = body_set(&tx, 16, Some(mk_output(&addr, edge(rng), &a, legacy_default)));
                Some(format!("collateral_return(assets={})", if a.is_empty() { "none".into() } else { q.to_string() }))
            }
        }
        18 => {
            let slot = c.env.block_slot;
            let v = *rng.pick(&[0, slot, slot.wrapping_sub(1), slot.wrapping_add(1), u64::MAX, 1 << 63]);
            let k = if rng.bool() { 3 } else { 8 };
            c.tx = body_set(&tx, k, if rng.chance(1, 6) { None } else { Some(Node::u(v)) });
            Some(format!("{}={v}", if k == 3 { "ttl" } else { "validity_start" }))
        }
        19 | 20 => {
            // any integer leaf of the body := edge (keeps the shape): certificates, pool parameters, MIR amounts, indices...
            let mut b = body_node(&tx);
            let mut paths = vec![];
            int_paths(&b, &mut vec![], &mut paths);
            // do not rewrite the top-level keys themselves
            paths.retain(|p| !(p.len() == 1 && p[0] % 2 == 0));
            if paths.is_empty() {
                return None;
            }
            let p = rng.pick(&paths).clone();
            let v = edge(rng);
            let neg = rng.chance(1, 5);
            *node_at(&mut b, &p)? = if neg { Node::NInt(v, 0) } else { Node::u(v) };
            c.tx = replace_body(&tx, b);
            Some(format!("body.int[key {}]={}{v}", p[0] / 2, if neg { "-1-" } else { "" }))
        }
        21 => {
            // duplicate an input / add a new input with an own UTxO entry of edge value
            let ins = body_inputs(&tx, 0);
            let mut v = ins.clone();
            if rng.bool() && !ins.is_empty() {
                v.push(ins[rng.usize_below(ins.len())]);
                c.tx = set_inputs(&tx, 0, &v);
                Some("inputs.dup".into())
            } else {
                let h: [u8; 32] = rng.array();
                let coin = edge(rng);
                let mut o = f.utxo.first()?.out.clone();
                o.coin = coin;
                o.datum = Datum::None;
                o.script_ref = None;
                if rng.bool() {
                    o.assets = vec![(rng.bytes(28), vec![(b"n".to_vec(), edge(rng))])];
                }
                let st = f.style();
                c.utxo.push(UEntry { tx_hash: h, index: 0, out: o, style: st, era: era_of_style(st), byron_input: false });
                v.push((h, 0));
                c.tx = set_inputs(&tx, if rng.chance(1, 4) && !matches!(c.era, Era::Shelley | Era::Allegra | Era::Mary) { 13 } else { 0 }, &v);
                Some(format!("inputs.add(coin={coin})"))
            }
        }
        22 => {
            // withdrawals
            let (a, kind) = if rng.bool() {
                let mut a = vec![0xe0 | net];
                a.extend(rng.bytes(28));
                (a, "stake-key")
            } else {
                weird_address(rng, net)
            };
            let v = edge(rng);
            c.tx = body_set(&tx, 5, Some(Node::map(vec![(Node::bytes(&a), Node::u(v))])));
            Some(format!("withdrawal({kind})={v}"))
        }
        23 => {
            let v = *rng.pick(&[0u64, 1, 2, 255]);
            c.tx = body_set(&tx, 15, Some(Node::u(v)));
            Some(format!("network_id={v}"))
        }
        24 => {
            let k = *rng.pick(&[7u64, 11]);
            let cur = body_get(&tx, k);
            c.tx = body_set(&tx, k, if cur.is_some() && rng.bool() { None } else { Some(Node::bytes(&rng.bytes(32))) });
            Some(format!("hash[{k}] toggled"))
        }
        25 | 26 if !c.utxo.is_empty() => {
            let k = rng.usize_below(c.utxo.len());
            let v = edge(rng);
            if rng.bool() {
                c.utxo[k].out.coin = v;
                Some(format!("utxo.coin={v}"))
            } else {
                let o = &mut c.utxo[k].out;
                let nonempty: Vec<usize> = (0..o.assets.len()).filter(|i| !o.assets[*i].1.is_empty()).collect();
                if !nonempty.is_empty() && rng.bool() {
                    let pi = *rng.pick(&nonempty);
                    let ni = rng.usize_below(o.assets[pi].1.len());
                    o.assets[pi].1[ni].1 = v;
                } else {
                    let p = mint_get(&tx).first().map(|m| m.0.clone()).filter(|_| rng.bool()).unwrap_or_else(|| rng.bytes(28));
                    o.assets.push((p, vec![(b"u".to_vec(), v)]));
                }
                Some(format!("utxo.asset={v}"))
            }
        }
        27 if !c.utxo.is_empty() && post_alonzo(c.era) => {
            let k = rng.usize_below(c.utxo.len());
            let o = &mut c.utxo[k].out;
            match rng.below(4) {
                0 => {
                    o.datum = Datum::Inline(vec![0xd8, 0x79, 0x80]);
                    Some("utxo.datum=inline".into())
                }
                1 => {
                    o.datum = Datum::Hash(rng.array());
                    Some("utxo.datum=hash".into())
                }
                2 => {
                    let lang = 1 + rng.below(if c.era == Era::Conway { 3 } else { 2 }) as u8;
                    o.script_ref = Some((lang, vec![0x46, 0x01, 0x00, 0x00, 0x22, 0x20, 0x01]));
                    Some(format!("utxo.script_ref=plutus{lang}"))
                }
                _ => {
                    o.script_ref = Some((0, native_always(0).0.to_vec()));
                    Some("utxo.script_ref=native".into())
                }
            }
        }
        28 => {
            // decode the AlonzoCompatible tx under another era tag of the same family
            if !matches!(c.era, Era::Shelley | Era::Allegra | Era::Mary) {
                return None;
            }
            c.era = *rng.pick(&[Era::Shelley, Era::Allegra, Era::Mary]);
            Some(format!("decode_era={:?}", c.era))
        }
        29 => {
            // witness-set containers emptied / datum and script lists made empty
            let k = *rng.pick(&[0u64, 1, 3, 4, 5, 6, 7]);
            wits_get(&tx, k)?;
            let v = if k == 5 && c.era == Era::Conway { Node::map(vec![]) } else { list_like(wits_get(&tx, k).as_ref(), vec![]) };
            c.tx = wits_set(&tx, k, if rng.bool() { Some(v) } else { None });
            Some(format!("wits[{k}] emptied"))
        }
        30 => {
            // plutus script bytes / extra script in the witness set
            let k = *rng.pick(&[3u64, 6, 7]);
            if (k == 7 && c.era != Era::Conway) || (k == 6 && !post_alonzo(c.era)) || matches!(c.era, Era::Shelley | Era::Allegra | Era::Mary) {
                return None;
            }
            let cur = wits_get(&tx, k);
            let mut items = cur.as_ref().and_then(|n| elems(n).cloned()).unwrap_or_default();
            items.push(Node::bytes(&[0x46, 0x01, 0x00, 0x00, 0x22, 0x20, 0x01]));
            c.tx = wits_set(&tx, k, Some(list_like(cur.as_ref(), items)));
            Some(format!("wits[{k}] +script"))
        }
        35 | 36 => {
            // auxiliary data with a hash field of the right or a wrong length (0, 31, 33, 64 bytes),
            // or a hash field without auxiliary data
            let md = Node::map(vec![(Node::u(rng.below(1000)), Node::text("pv"))]);
            let with_aux = rng.chance(4, 5);
            let t = if with_aux { set_aux(&tx, Some(md.clone())) } else { tx.clone() };
            let good = pv::refhash::blake2b_256(&md.to_vec());
            let h: Vec<u8> = match rng.below(6) {
                0 => good.to_vec(),
                1 => vec![],
                2 => good[..31].to_vec(),
                3 => { let mut v = good.to_vec(); v.push(0); v }
                4 => rng.bytes(64),
                _ => rng.bytes(32),
            };
            let l = h.len();
            c.tx = body_set(&t, 7, Some(Node::bytes(&h)));
            Some(format!("aux={with_aux},aux_hash.len={l}"))
        }
        33 | 34 if !matches!(c.era, Era::Shelley | Era::Allegra | Era::Mary) => {
            // one or two additional collateral inputs with own key-locked UTxO entries whose coins are
            // valid u64 values but may sum past 2^64 with the others
            let mut v = body_inputs(&tx, 13);
            let n_new = 1 + rng.usize_below(2);
            let mut coins = vec![];
            for _ in 0..n_new {
                let h: [u8; 32] = rng.array();
                let e = edge(rng); let coin = *rng.pick(&[u64::MAX, u64::MAX - 10, u64::MAX / 2 + 1, 1u64 << 63, 4_000_000, 5_000_000_000, e]);
                let mut o = f.utxo.iter().find(|e| e.role == Role::Collateral).or(f.utxo.first())?.out.clone();
                o.coin = coin;
                o.datum = Datum::None;
                o.script_ref = None;
                o.assets = vec![];
                let st = f.style();
                c.utxo.push(UEntry { tx_hash: h, index: 0, out: o, style: st, era: era_of_style(st), byron_input: false });
                v.push((h, 0));
                coins.push(coin);
            }
            c.tx = set_inputs(&tx, 13, &v);
            Some(format!("collateral.add({coins:?})"))
        }
        31 => {
            // byte-level mutation that still decodes (checked by the caller)
            let (m, kind) = cbor::mutate(&tx, &[&f.tx_bytes], rng);
            c.tx = m;
            Some(format!("bytes:{kind}"))
        }
        32 => {
            c.copies = 1 + rng.usize_below(3);
            Some(format!("validate_txs x{}", c.copies))
        }
        _ => None,
    }
}

fn mutate_byron(rng: &mut Rng, c: &mut Case, f: &Fixture) -> Option<String> {
    let tx = c.tx.clone();
    let outs = byron_outputs(&tx);
    match rng.below(14) {
        0 if !outs.is_empty() => {
            let (i, v) = (rng.usize_below(outs.len()), edge(rng));
            c.tx = byron_set_coin(&tx, i, v);
            Some(format!("out.coin={v}"))
        }
        1 => {
            let mut o = outs.clone();
            let v = edge(rng);
            o.push(byron_output(&hex::decode(BYRON_PAYLOAD_HEX).unwrap(), v));
            c.tx = byron_set_outputs(&tx, o);
            Some(format!("out.add(coin={v})"))
        }
        2 => {
            if rng.bool() {
                c.tx = byron_set_outputs(&tx, vec![]);
                Some("outputs=[]".into())
            } else {
                c.tx = byron_set_inputs(&tx, &[]);
                Some("inputs=[]".into())
            }
        }
        3 if !c.utxo.is_empty() => {
            let k = rng.usize_below(c.utxo.len());
            c.utxo.remove(k);
            Some("utxo.drop".into())
        }
        4 | 5 if !c.utxo.is_empty() => {
            // Byron address type of the spent output: Script / Redeem / PubKey / Other
            let k = rng.usize_below(c.utxo.len());
            let (root, attrs, _) = byron_payload_parts(&c.utxo[k].out.address)?;
            let ty = *rng.pick(&[1u64, 2, 0, 3, 255, 65536]);
            c.utxo[k].out.address = byron_payload(&root, &attrs, ty);
            Some(format!("utxo.addr.type={ty}"))
        }
        6 if !c.utxo.is_empty() => {
            let k = rng.usize_below(c.utxo.len());
            let v = edge(rng);
            c.utxo[k].out.coin = v;
            Some(format!("utxo.coin={v}"))
        }
        7 | 8 => {
            // witness key / signature byte strings of another length
            let mut w = wits_node(&tx);
            let list = elems_mut(&mut w)?;
            if list.is_empty() {
                return None;
            }
            let k = rng.usize_below(list.len());
            let xs = elems_mut(&mut list[k])?;
            let inner = match xs.get(1)? {
                Node::Tag(24, _, b) => node_bytes(b)?,
                _ => return None,
            };
            let it = cbor::parse(&inner).ok()?;
            let mut pair = match cbor::to_node(&inner, &it) {
                Node::Array(p, _) if p.len() == 2 => p,
                _ => return None,
            };
            let which = rng.usize_below(2);
            let len = *rng.pick(&[0usize, 1, 31, 32, 33, 63, 64, 65, 128]);
            let mut b = node_bytes(&pair[which])?;
            b.resize(len, 0x5a);
            pair[which] = Node::bytes(&b);
            xs[1] = Node::tag(24, Node::bytes(&Node::arr(pair).to_vec()));
            c.tx = replace_wits(&tx, w);
            Some(format!("wit.{}.len={len}", if which == 0 { "key" } else { "sig" }))
        }
        9 if !c.utxo.is_empty() && !f.keys.is_empty() => {
            // address owned by a key of unusual length: root recomputed so that the witness is found
            let k = rng.usize_below(c.utxo.len());
            let (_, attrs, ty) = byron_payload_parts(&c.utxo[k].out.address)?;
            let len = *rng.pick(&[0usize, 16, 31, 33, 63, 65]);
            let key = vec![0x42u8; len];
            c.utxo[k].out.address = byron_payload(&byron_root(ty, &key, &attrs), &attrs, ty);
            let sig = vec![0u8; 64];
            let w = byron_witness(ty == 2, &key, &sig);
            c.tx = replace_wits(&tx, list_like(Some(&wits_node(&tx)), vec![w]));
            Some(format!("short-key-owner(len={len})"))
        }
        10 if !c.utxo.is_empty() => {
            // UTxO output of another era behind a Byron input
            let k = rng.usize_below(c.utxo.len());
            let (style, era) = *rng.pick(&[(OutStyle::AlonzoCompat, Era::Shelley), (OutStyle::AlonzoCompat, Era::Alonzo), (OutStyle::Babbage, Era::Babbage), (OutStyle::Conway, Era::Conway)]);
            let e = &mut c.utxo[k];
            let mut a = vec![0x61u8];
            a.extend([9u8; 28]);
            e.out.address = a;
            e.style = style;
            e.era = era;
            Some(format!("utxo.era={era:?}"))
        }
        11 => {
            // a second input with its own entry (same owner) of edge value
            let mut ins = body_inputs(&tx, 0);
            let h: [u8; 32] = rng.array();
            let mut o = c.utxo.first()?.out.clone();
            o.coin = edge(rng);
            let l = format!("inputs.add(coin={})", o.coin);
            c.utxo.push(UEntry { tx_hash: h, index: 1, out: o, style: OutStyle::Byron, era: Era::Byron, byron_input: true });
            ins.push((h, 1));
            c.tx = byron_set_inputs(&tx, &ins);
            Some(l)
        }
        12 => {
            let (m, kind) = cbor::mutate(&tx, &[&f.tx_bytes], rng);
            c.tx = m;
            Some(format!("bytes:{kind}"))
        }
        _ => {
            c.copies = 1 + rng.usize_below(3);
            Some(format!("validate_txs x{}", c.copies))
        }
    }
}

/// set the coin of input 0's UTxO entry so that ada balances (own arithmetic), when that is possible
fn rebalance_ada(c: &mut Case) -> bool {
    let Some(v) = parse_tx(&c.tx) else { return false };
    let Some(in0) = v.inputs.first().copied() else { return false };
    let mut need = v.fee.clone();
    for o in &v.outputs {
        need += &o.val.coin;
    }
    for r in v.inputs.iter().skip(1) {
        if *r == in0 {
            return false;
        }
        match c.utxo.iter().rev().find(|e| (e.tx_hash, e.index) == *r) {
            Some(e) => need -= num_bigint::BigInt::from(e.out.coin),
            None => return false,
        }
    }
    let Ok(coin) = u64::try_from(need) else { return false };
    let mut done = false;
    for e in c.utxo.iter_mut() {
        if (e.tx_hash, e.index) == in0 {
            e.out.coin = coin;
            done = true;
        }
    }
    done
}

struct Pool {
    fixtures: Vec<Fixture>,
}

fn same_family(a: &Mpp, b: &Mpp) -> bool {
    std::mem::discriminant(a) == std::mem::discriminant(b)
}

fn gen_case(rng: &mut Rng, pool: &Pool, fi: usize) -> Case {
    let f = &pool.fixtures[fi];
    let st = f.style();
    let mut c = Case {
        era: f.era,
        tx: f.tx_bytes.clone(),
        utxo: f.utxo.iter().map(|e| UEntry { tx_hash: e.tx_hash, index: e.index, out: e.out.clone(), style: st, era: era_of_style(st), byron_input: st == OutStyle::Byron }).collect(),
        env: f.env.clone(),
        env_from: f.name.to_string(),
        ops: vec![],
        copies: 0,
    };
    // other well-known environment of the same era family
    if rng.chance(1, 4) {
        let cands: Vec<&Fixture> = pool.fixtures.iter().filter(|g| same_family(&g.env.params, &f.env.params) && g.name != f.name).collect();
        if !cands.is_empty() {
            let g = *rng.pick(&cands);
            c.env = g.env.clone();
            c.env_from = g.name.to_string();
            c.ops.push(format!("env<-{}", g.name.split("::").last().unwrap_or("")));
        }
    }
    let n_ops = 1 + rng.usize_below(3);
    let mut tries = 0;
    while c.ops.iter().filter(|o| !o.starts_with("env<-")).count() < n_ops && tries < 30 {
        tries += 1;
        let before = c.tx.clone();
        let r = if f.era == Era::Byron { mutate_byron(rng, &mut c, f) } else { mutate_shelley_plus(rng, &mut c, f) };
        match r {
            Some(l) => {
                // keep only mutations after which the transaction still has the era's layout
                if c.tx != before && cbor::parse(&c.tx).is_err() {
                    c.tx = before;
                    continue;
                }
                let terminal = l.starts_with("bytes:");
                c.ops.push(l);
                if terminal {
                    // the layout helpers used by the typed mutations assume the fixture's shape
                    return c;
                }
            }
            None => c.tx = before,
        }
    }
    if f.era != Era::Byron && rng.chance(1, 3) && rebalance_ada(&mut c) {
        c.ops.push("rebalance-ada".into());
    }
    if f.rekeyed && rng.bool() && !c.ops.iter().any(|o| o.starts_with("wit.") || o.starts_with("short-key")) {
        c.tx = resign_any(f, &c.tx);
        c.ops.push("resign".into());
    }
    c
}

fn trivial_error(era: Era, v: &str) -> bool {
    let first_two: &[&str] = match era {
        Era::Byron => &["TxInsEmpty", "TxOutsEmpty"],
        Era::Shelley | Era::Allegra | Era::Mary => &["TxInsEmpty", "InputNotInUTxO"],
        Era::Alonzo => &["TxInsEmpty", "InputNotInUTxO", "CollateralNotInUTxO"],
        _ => &["TxInsEmpty", "InputNotInUTxO", "CollateralNotInUTxO", "ReferenceInputNotInUTxO"],
    };
    first_two.contains(&v) || matches!(v, "TxAndProtParamsDiffer" | "EnvMissingAccountState" | "PParamsByronDoesntNeedAccountState")
}

fn op_kind(l: &str) -> String {
    l.split(|ch| ch == '=' || ch == '(' || ch == ' ' || ch == ':').next().unwrap_or("").to_string()
}

fn run_case(ctx: &mut Ctx, pool: &Pool, fi: usize, c: &Case, case_seed: u64, verbose: bool) {
    let f = &pool.fixtures[fi];
    let store = MixStore { items: c.utxo.iter().map(|e| MixEntry { tx_hash: e.tx_hash, index: e.index, byron_input: e.byron_input, era: e.era, bytes: e.out.encode(e.style) }).collect() };
    let env = c.env.build();
    let mut cs = f.cert_state();
    let era = era_name(f.era);
    ctx.begin_case(&format!("validate_tx:{era}\nfixture={} rekeyed={} case_seed={case_seed} ops={:?}", f.name, f.rekeyed, c.ops), 20);
    let out = run_validate(c.era, &c.tx, &store, &env, &mut cs, c.copies);
    ctx.end_case();
    if verbose {
        println!("{} ops={:?} -> {}", f.name, c.ops, out.label());
    }
    if let Outcome::NotDecodable(why) = &out {
        ctx.count("not_decodable(skipped)");
        if why.starts_with("decode panicked") {
            ctx.set_insert("decode_panics(not_C33)", why);
        }
        return;
    }
    ctx.eval();
    for o in &c.ops {
        ctx.count(&format!("op:{}", op_kind(o)));
    }
    let fp_case = fp_mix(fp_mix(fp(&c.tx), store.fingerprint()), fp(c.env_from.as_bytes()) ^ c.copies as u64 ^ ((c.era as u64) << 8));
    match &out {
        Outcome::Accepted => {
            ctx.count(&format!("{era}:accepted"));
            ctx.nontrivial(fp_case);
        }
        Outcome::Rejected(e) => {
            let v = err_variant(e);
            ctx.count(&format!("{era}:rejected"));
            ctx.set_insert(&format!("errors:{era}"), &v);
            if !trivial_error(f.era, &v) {
                ctx.nontrivial(fp_case);
                ctx.count("past_first_two_checks");
            }
        }
        Outcome::Panicked(p) => {
            ctx.count(&format!("{era}:panicked"));
            ctx.nontrivial(fp_case);
            let utxo_json: Vec<serde_json::Value> = store.items.iter().map(|e| json!({"tx": hexs(&e.tx_hash), "ix": e.index, "era": format!("{:?}", e.era), "byron_input": e.byron_input, "out": hexs(&e.bytes)})).collect();
            ctx.violation(
                &format!("panic:validate_tx:{}", p.site()),
                &format!("{} under {:?} panics at {}:{} ({}) in {}", f.name, c.ops, p.rel_file(), p.line, p.msg.chars().take(120).collect::<String>(), p.func),
                json!({"fixture": fi, "fixture_name": f.name, "case_seed": case_seed.to_string(), "ops": c.ops, "decode_era": format!("{:?}", c.era), "env_of": c.env_from, "copies": c.copies, "tx": hexs(&c.tx), "utxo": utxo_json}),
            );
        }
        Outcome::NotDecodable(_) => {}
    }
    if ctx.want_sample() && c.ops.len() >= 2 {
        ctx.sample(json!({"fixture": f.name, "ops": c.ops, "outcome": out.label().chars().take(120).collect::<String>()}));
    }
}

fn main() {
    let mut ctx = Ctx::from_args("C33");
    let mut fixtures = all_fixtures();
    let rk = all_rekeyed();
    ctx.note("fixtures_original", json!(fixtures.len()));
    ctx.note("fixtures_rekeyed_usable", json!(rk.len()));
    fixtures.extend(rk);
    let pool = Pool { fixtures };
    if let Some(p) = ctx.replay.clone() {
        let v: serde_json::Value = serde_json::from_slice(&std::fs::read(p).unwrap()).unwrap();
        let r = &v["replay"];
        // crash / hang witnesses carry the case description instead of a structured replay
        let (fi, seed) = if let Some(case) = r.get("case").and_then(|c| c.as_str()) {
            let name = case.split("fixture=").nth(1).and_then(|s| s.split(' ').next()).unwrap_or("");
            let rekeyed = case.contains("rekeyed=true");
            let seed = case.split("case_seed=").nth(1).and_then(|s| s.split(' ').next()).and_then(|s| s.parse().ok()).unwrap_or(0);
            (pool.fixtures.iter().position(|f| f.name == name && f.rekeyed == rekeyed).unwrap_or(0), seed)
        } else {
            (r["fixture"].as_u64().unwrap() as usize, r["case_seed"].as_str().unwrap().parse().unwrap())
        };
        let mut rng = Rng::new(seed);
        let c = gen_case(&mut rng, &pool, fi);
        println!("regenerated case identical to the recorded tx: {}", hexs(&c.tx) == r["tx"].as_str().unwrap_or(""));
        run_case(&mut ctx, &pool, fi, &c, seed, true);
        println!("replayed: violations={}", ctx.n_violations());
        ctx.finish();
    }
    // unmutated fixtures first (all accepted, no panic)
    for fi in 0..pool.fixtures.len() {
        if !ctx.owns(fi as u64) {
            continue;
        }
        let mut c = gen_case(&mut Rng::new(0), &pool, fi);
        let f = &pool.fixtures[fi];
        c.tx = f.tx_bytes.clone();
        c.era = f.era;
        c.env = f.env.clone();
        c.copies = 0;
        c.ops = vec!["unmutated".into()];
        let st = f.style();
        c.utxo = f.utxo.iter().map(|e| UEntry { tx_hash: e.tx_hash, index: e.index, out: e.out.clone(), style: st, era: era_of_style(st), byron_input: st == OutStyle::Byron }).collect();
        run_case(&mut ctx, &pool, fi, &c, 0, false);
    }
    let n = ctx.budget(50_000, 3_000_000);
    for _ in 0..n {
        let fi = ctx.rng.usize_below(pool.fixtures.len());
        let case_seed = ctx.rng.next_u64();
        let mut rng = Rng::new(case_seed);
        // a typed mutation applied to an already odd-shaped transaction may trip the harness' own layout helpers
        match pv::panics::catch(|| gen_case(&mut rng, &pool, fi)) {
            Ok(c) => run_case(&mut ctx, &pool, fi, &c, case_seed, false),
            Err(_) => ctx.count("generator_gave_up(harness)"),
        }
    }
    ctx.finish();
}
