//! C41 — signing keeps the witness set in step with the signature map.
//!
//! Random built transactions (generator shared with C40, classes expected to build) x sequences of
//! sign / add_signature / remove_signature over a pool of 4 keys. After every step the built bytes are
//! read with the own CBOR walker: body span and id unchanged (id = reference Blake2b-256 of the body
//! span), at most one witness per key, witness set == `signatures` map == own model of the map, every
//! witness verifies under ed25519-dalek (`verify_strict`) against the id.
use ed25519_dalek::{Signer, SigningKey, VerifyingKey};
use pallas_crypto::key::ed25519::{PublicKey, SecretKey, SecretKeyExtended};
use pallas_txbuilder::{BuildConway, BuiltTransaction, StagingTransaction};
use pv::refhash::blake2b_256;
use pv::txb::*;
use pv::*;
use std::collections::BTreeMap;

#[derive(Clone, Copy, Debug, PartialEq, Eq)]
enum SOp {
    Sign(usize),
    Add(usize),
    Remove(usize),
}
impl SOp {
    fn name(&self) -> &'static str {
        match self {
            SOp::Sign(_) => "sign",
            SOp::Add(_) => "add_signature",
            SOp::Remove(_) => "remove_signature",
        }
    }
    fn key(&self) -> usize {
        match self {
            SOp::Sign(k) | SOp::Add(k) | SOp::Remove(k) => *k,
        }
    }
}

struct Keys {
    seeds: Vec<[u8; 32]>,
    ext: [u8; 64],
    /// public keys: 0..2 derived with dalek from the seeds, 3 = extended key (cross-checked by a dalek verification)
    pks: Vec<[u8; 32]>,
}

fn keys(rng: &mut Rng) -> Keys {
    let seeds: Vec<[u8; 32]> = (0..3).map(|_| rng.array::<32>()).collect();
    let mut ext = rng.array::<64>();
    ext[0] &= 0b1111_1000;
    ext[31] &= 0b0011_1111;
    ext[31] |= 0b0100_0000;
    let mut pks: Vec<[u8; 32]> = seeds.iter().map(|s| SigningKey::from_bytes(s).verifying_key().to_bytes()).collect();
    let xk = SecretKeyExtended::from_bytes(ext).expect("clamped extended key");
    let xpk: [u8; 32] = xk.public_key().into();
    pks.push(xpk);
    Keys { seeds, ext, pks }
}

fn dalek_verify(pk: &[u8], msg: &[u8], sig: &[u8]) -> bool {
    let Ok(pk): Result<[u8; 32], _> = pk.try_into() else { return false };
    let Ok(sig): Result<[u8; 64], _> = sig.try_into() else { return false };
    let Ok(vk) = VerifyingKey::from_bytes(&pk) else { return false };
    vk.verify_strict(msg, &ed25519_dalek::Signature::from_bytes(&sig)).is_ok()
}

struct Base {
    body: Vec<u8>,
    id: [u8; 32],
    nonvkey: Vec<u8>,
    aux: Option<Hx>,
}

/// returns Some(signature class, detail) for the first broken clause
fn check_state(ctx: &mut Ctx, b: &BuiltTransaction, base: &Base, model: &BTreeMap<[u8; 32], [u8; 64]>, after: &str) -> Option<(String, String)> {
    let bytes = &b.tx_bytes.0;
    let p = match read_tx(bytes) {
        Ok(p) => p,
        Err(e) => return Some((format!("C41:structure:after={after}"), format!("{e} [tx {}]", hex_short(bytes)))),
    };
    if bytes[p.body.0..p.body.1] != base.body[..] {
        return Some((format!("C41:body-bytes-changed:after={after}"), format!("body was {}, now {}", hex_short(&base.body), hex_short(&bytes[p.body.0..p.body.1]))));
    }
    if b.tx_hash.0 != base.id {
        return Some((format!("C41:id-changed:after={after}"), format!("id was {}, now {}", hex::encode(base.id), hex::encode(b.tx_hash.0))));
    }
    ctx.count("checks_body_and_id_unchanged");
    let vk = p.vkeys.clone().unwrap_or_default();
    match (&p.vkeys, model.is_empty()) {
        (None, true) => ctx.count("state_no_witness_field"),
        (Some(v), true) if v.is_empty() => ctx.count("state_empty_witness_field"),
        _ => {}
    }
    let mut seen = std::collections::BTreeSet::new();
    for (k, _) in &vk {
        if !seen.insert(k.clone()) {
            return Some((
                format!("C41:duplicate-witness:after={after}"),
                format!("{} witnesses for {} distinct keys ({} entries in the signature map); key {k:?} appears more than once [tx {}]", vk.len(), seen.len(), b.signatures.as_ref().map(|m| m.len()).unwrap_or(0), hex_short(bytes)),
            ));
        }
    }
    // pallas' map vs own model of the map
    let pm: BTreeMap<[u8; 32], [u8; 64]> = b.signatures.as_ref().map(|m| m.iter().map(|(k, v)| (k.0, v.0)).collect()).unwrap_or_default();
    if &pm != model {
        return Some((format!("C41:signature-map-wrong:after={after}"), format!("expected keys {:?}, map has {:?}", model.keys().map(hex::encode).collect::<Vec<_>>(), pm.keys().map(hex::encode).collect::<Vec<_>>())));
    }
    let ws: BTreeMap<Vec<u8>, Vec<u8>> = vk.iter().map(|(k, s)| (k.0.clone(), s.0.clone())).collect();
    let ms: BTreeMap<Vec<u8>, Vec<u8>> = pm.iter().map(|(k, s)| (k.to_vec(), s.to_vec())).collect();
    if ws != ms {
        return Some((
            format!("C41:witness-set-out-of-step:after={after}"),
            format!("witness keys {:?}, signature map keys {:?} [tx {}]", ws.keys().map(hex::encode).collect::<Vec<_>>(), ms.keys().map(hex::encode).collect::<Vec<_>>(), hex_short(bytes)),
        ));
    }
    for (k, s) in &vk {
        if !dalek_verify(&k.0, &base.id, &s.0) {
            return Some((format!("C41:invalid-witness:after={after}"), format!("witness of key {k:?} does not verify against the id {} (ed25519-dalek verify_strict)", hex::encode(base.id))));
        }
        ctx.count("witnesses_verified_with_dalek");
    }
    if p.nonvkey_wit_bytes != base.nonvkey || p.aux != base.aux {
        ctx.count("other_parts_of_tx_changed");
    }
    ctx.max("max_witnesses", vk.len() as u64);
    None
}

fn step(b: BuiltTransaction, op: SOp, ks: &Keys, id: &[u8; 32]) -> Result<BuiltTransaction, pallas_txbuilder::TxBuilderError> {
    let k = op.key();
    match op {
        SOp::Sign(_) => {
            if k < 3 {
                b.sign(&SecretKey::from(ks.seeds[k]))
            } else {
                b.sign(&SecretKeyExtended::from_bytes(ks.ext).unwrap())
            }
        }
        SOp::Add(_) => {
            let sig: [u8; 64] = if k < 3 {
                // independent signer
                SigningKey::from_bytes(&ks.seeds[k]).sign(id).to_bytes()
            } else {
                let s = SecretKeyExtended::from_bytes(ks.ext).unwrap().sign(id);
                s.as_ref().try_into().unwrap()
            };
            b.add_signature(PublicKey::from(ks.pks[k]), sig)
        }
        SOp::Remove(_) => b.remove_signature(PublicKey::from(ks.pks[k])),
    }
}

fn run_seq(ctx: &mut Ctx, label: &str, replay: serde_json::Value, built: BuiltTransaction, ks: &Keys, mut next: impl FnMut(&BTreeMap<[u8; 32], [u8; 64]>, usize) -> Option<SOp>, verbose: bool) {
    let bytes = built.tx_bytes.0.clone();
    let p0 = match read_tx(&bytes) {
        Ok(p) => p,
        Err(e) => {
            ctx.inconclusive(&format!("built transaction unreadable by the walker: {e}"));
            return;
        }
    };
    let body = bytes[p0.body.0..p0.body.1].to_vec();
    let id = built.tx_hash.0;
    if blake2b_256(&body) != id {
        ctx.violation("C41:precondition:id-not-hash-of-body", "freshly built tx: id != Blake2b-256(body)", json!({"case": replay}));
        return;
    }
    let base = Base { body, id, nonvkey: p0.nonvkey_wit_bytes.clone(), aux: p0.aux.clone() };
    let mut model: BTreeMap<[u8; 32], [u8; 64]> = BTreeMap::new();
    let mut b = built;
    let mut log: Vec<String> = vec![];
    let mut nontrivial = false;
    let mut seqfp = fp(&id);
    let mut i = 0;
    while let Some(op) = next(&model, i) {
        i += 1;
        let k = op.key();
        log.push(format!("{}(key{})", op.name(), k));
        if verbose {
            println!("step {i}: {}(key{k} = {})  [model has {} signature(s)]", op.name(), hex::encode(ks.pks[k]), model.len());
        }
        let present = model.contains_key(&ks.pks[k]);
        match op {
            SOp::Remove(_) => {
                nontrivial = true;
                ctx.count(if present { if model.len() == 1 { "op_remove_last" } else { "op_remove_present" } } else if model.is_empty() { "op_remove_on_unsigned" } else { "op_remove_absent" });
            }
            _ => {
                if present {
                    nontrivial = true;
                    ctx.count("op_repeat_key");
                } else {
                    ctx.count("op_new_key");
                }
            }
        }
        seqfp = fp_mix(seqfp, fp(&[match op { SOp::Sign(_) => 1, SOp::Add(_) => 2, SOp::Remove(_) => 3 }, k as u8]));
        ctx.eval();
        let rp = json!({"case": replay, "label": label, "steps": log, "tx": hex::encode(&bytes)});
        let cur = b.clone();
        let r = pv::panics::catch(|| step(cur, op, ks, &id));
        match r {
            Err(pn) => {
                let sig = format!("panic:{}:{}", op.name(), pn.site());
                if verbose {
                    println!("  PANIC {sig}: {}", pn.msg);
                }
                ctx.violation(&sig, &format!("{} panicked at {}:{} ({}) with {} signature(s) present, key {}present; steps {:?}", op.name(), pn.rel_file(), pn.line, pn.msg, model.len(), if present { "" } else { "not " }, log), rp);
                break;
            }
            Ok(Err(e)) => {
                ctx.count(&format!("step_error:{e:?}"));
                if verbose {
                    println!("  error {e:?}");
                }
                break;
            }
            Ok(Ok(nb)) => {
                b = nb;
                match op {
                    SOp::Sign(_) | SOp::Add(_) => {
                        // RFC 8032 signatures are deterministic: the expected signature comes from dalek for plain keys
                        let sig: [u8; 64] = if k < 3 {
                            SigningKey::from_bytes(&ks.seeds[k]).sign(&id).to_bytes()
                        } else {
                            b.signatures.as_ref().and_then(|m| m.get(&pallas_txbuilder::Bytes32(ks.pks[k])).map(|s| s.0)).unwrap_or([0; 64])
                        };
                        model.insert(ks.pks[k], sig);
                    }
                    SOp::Remove(_) => {
                        model.remove(&ks.pks[k]);
                    }
                }
                if let Some((sig, what)) = check_state(ctx, &b, &base, &model, op.name()) {
                    if verbose {
                        println!("  VIOLATION {sig}: {what}");
                    }
                    ctx.violation(&sig, &format!("{what}; steps {log:?}"), rp);
                    break;
                }
                ctx.count("steps_checked_ok");
                if verbose {
                    println!("  ok, {} witness(es)", model.len());
                }
            }
        }
    }
    if nontrivial {
        ctx.nontrivial(seqfp);
    }
    ctx.max("max_steps", i as u64);
    if ctx.want_sample() && i >= 4 {
        ctx.sample(json!({"steps": log, "tx_bytes_len": bytes.len(), "final_signatures": model.len()}));
    }
}

fn build_random_tx(ctx: &mut Ctx, rng: &mut Rng) -> Option<BuiltTransaction> {
    let cfg = GenCfg { poison: false, rejects: false };
    let pools = Pools::new(rng);
    let nops = rng.usize_below(25);
    let mut tx = StagingTransaction::new();
    let mut m = Model::default();
    for _ in 0..nops {
        let op = gen_op(rng, &pools, &m, &cfg);
        m.apply(&op, true);
        let cur = tx.clone();
        match pv::panics::catch(|| apply_real(cur, &op)) {
            Ok(t) => tx = t,
            Err(_) => {
                ctx.count("tx_generation_panicked");
                return None;
            }
        }
    }
    match pv::panics::catch(move || tx.build_conway_raw()) {
        Ok(Ok(b)) => {
            ctx.count("txs_built");
            Some(b)
        }
        Ok(Err(_)) => {
            ctx.count("tx_generation_rejected");
            None
        }
        Err(_) => {
            ctx.count("tx_generation_panicked");
            None
        }
    }
}

fn random_case(ctx: &mut Ctx, case_seed: u64, verbose: bool) {
    let mut rng = Rng::new(case_seed);
    let ks = keys(&mut rng);
    let Some(built) = build_random_tx(ctx, &mut rng) else { return };
    // "guarded" sequences stay away from the two already-known defects (re-signing a present key,
    // removal leaving / finding zero witnesses) so that long sequences get checked step by step
    let guarded = rng.chance(3, 5);
    ctx.count(if guarded { "sequences_guarded" } else { "sequences_free" });
    let n = 1 + rng.usize_below(30);
    let replay = json!({"kind": "random", "case_seed": case_seed.to_string()});
    let pks = ks.pks.clone();
    run_seq(
        ctx,
        "random",
        replay,
        built,
        &ks,
        |model, i| {
            if i >= n {
                return None;
            }
            for _ in 0..50 {
                let k = rng.usize_below(4);
                let op = match rng.below(5) {
                    0 | 1 => SOp::Sign(k),
                    2 => SOp::Add(k),
                    _ => SOp::Remove(k),
                };
                if guarded {
                    let present = model.contains_key(&pks[k]);
                    let ok = match op {
                        SOp::Sign(_) | SOp::Add(_) => !present,
                        SOp::Remove(_) => (present && model.len() >= 2) || (!present && !model.is_empty()),
                    };
                    if !ok {
                        continue;
                    }
                }
                return Some(op);
            }
            None
        },
        verbose,
    );
}

fn directed(ctx: &mut Ctx, which: Option<usize>, verbose: bool) {
    use SOp::*;
    let cases: Vec<(&str, Vec<SOp>)> = vec![
        ("sign-twice", vec![Sign(0), Sign(0)]),
        ("add-twice", vec![Add(1), Add(1)]),
        ("sign-then-add-same-key", vec![Sign(2), Add(2)]),
        ("remove-only-signature", vec![Sign(0), Remove(0)]),
        ("remove-on-unsigned", vec![Remove(1)]),
        ("two-keys-remove-one", vec![Sign(0), Sign(3), Remove(0), Add(1), Remove(3)]),
        ("all-four-then-remove-absent", vec![Sign(0), Add(1), Sign(2), Sign(3), Remove(1), Remove(1), Add(1)]),
    ];
    for (ci, (label, ops)) in cases.iter().enumerate() {
        if let Some(w) = which {
            if w != ci {
                continue;
            }
        }
        let mut rng = Rng::new(0xC41 + ci as u64);
        let ks = keys(&mut rng);
        let built = loop {
            if let Some(b) = build_random_tx(ctx, &mut rng) {
                break b;
            }
        };
        ctx.count("directed_cases");
        run_seq(ctx, &format!("directed:{label}"), json!({"kind": "directed", "index": ci}), built, &ks, |_, i| ops.get(i).copied(), verbose);
    }
}

fn main() {
    let mut ctx = Ctx::from_args("C41");
    if let Some(p) = ctx.replay.clone() {
        let v: serde_json::Value = serde_json::from_slice(&std::fs::read(p).unwrap()).unwrap();
        let c = &v["replay"]["case"];
        if c["kind"] == "directed" {
            directed(&mut ctx, Some(c["index"].as_u64().unwrap() as usize), true);
        } else {
            random_case(&mut ctx, c["case_seed"].as_str().unwrap().parse().unwrap(), true);
        }
        println!("replayed: {} violation signature(s)", ctx.n_violations());
        ctx.finish();
    }
    if ctx.shard == 0 {
        directed(&mut ctx, None, false);
    }
    let n = ctx.budget(12_000, 1_000_000);
    for _ in 0..n {
        let cs = ctx.rng.next_u64();
        random_case(&mut ctx, cs, false);
    }
    ctx.finish();
}
