//! C04 — decoded numeric wrappers never violate their declared ranges.
//!
//! Oracle: value inspection after a successful decode: a `PositiveCoin` or `NonZeroInt` holding 0
//! is a violation, wherever it sits. Decode errors are the expected outcome for zero encodings.
//!   * direct: every integer head width x boundary magnitudes (positive and negative) decoded as
//!     PositiveCoin, NonZeroInt, and inside synthetic conway::Value / conway::Mint /
//!     Multiasset<PositiveCoin> items (executed completely);
//!   * embedded: in every corpus transaction / block that the Conway decoder accepts, every asset
//!     quantity of a post-Alonzo output, of the collateral return, every mint quantity and the
//!     donation field is replaced (with the own CBOR walker / encoder, keeping the rest of the bytes)
//!     by a zero in each of the five head widths, and by a non-zero control value; every
//!     PositiveCoin / NonZeroInt reachable in the decoded structure is inspected.
use pallas_codec::minicbor;
use pallas_codec::utils::{NonZeroInt, PositiveCoin};
use pallas_primitives::conway;
use pv::cbor::{self, Node};
use pv::*;

// ---------------------------------------------------------------------------------------
// inspection of decoded structures
// ---------------------------------------------------------------------------------------

/// (context, wrapper type, value)
type Seen = Vec<(&'static str, &'static str, i128)>;

fn see_value(v: &conway::Value, ctx: &'static str, out: &mut Seen) {
    if let conway::Value::Multiasset(_, ma) = v {
        for (_, assets) in ma.iter() {
            for (_, q) in assets.iter() {
                out.push((ctx, "PositiveCoin", u64::from(q) as i128));
            }
        }
    }
}

fn see_output(o: &conway::TransactionOutput, ctx: &'static str, out: &mut Seen) {
    match o {
        conway::TransactionOutput::PostAlonzo(o) => see_value(&o.value, ctx, out),
        // legacy outputs carry an alonzo Value: plain u64 quantities, no range wrapper
        conway::TransactionOutput::Legacy(_) => {}
    }
}

fn see_body(b: &conway::TransactionBody, out: &mut Seen) {
    for o in b.outputs.iter() {
        see_output(o, "output-value", out);
    }
    if let Some(o) = &b.collateral_return {
        see_output(o, "collateral-return-value", out);
    }
    if let Some(m) = &b.mint {
        for (_, assets) in m.iter() {
            for (_, q) in assets.iter() {
                out.push(("mint", "NonZeroInt", i64::from(q) as i128));
            }
        }
    }
    if let Some(d) = &b.donation {
        out.push(("donation", "PositiveCoin", u64::from(d) as i128));
    }
}

#[derive(Clone, Copy, PartialEq)]
enum Kind {
    Tx,
    Block,
}

/// decode with the code under test and list every wrapper value reachable; Err(reason) when rejected
fn decode_and_inspect(kind: Kind, bytes: &[u8]) -> Result<Result<Seen, String>, pv::panics::PanicInfo> {
    pv::panics::catch(|| {
        let mut out: Seen = vec![];
        match kind {
            Kind::Tx => {
                let tx: conway::Tx = minicbor::decode(bytes).map_err(|e| e.to_string())?;
                see_body(&tx.transaction_body, &mut out);
            }
            Kind::Block => {
                let (_, blk): (u16, conway::Block) = minicbor::decode(bytes).map_err(|e| e.to_string())?;
                for b in blk.transaction_bodies.iter() {
                    see_body(b, &mut out);
                }
            }
        }
        Ok(out)
    })
}

// ---------------------------------------------------------------------------------------
// locating / replacing quantities in the byte-level tree
// ---------------------------------------------------------------------------------------

fn map_entries_mut(n: &mut Node) -> Option<&mut Vec<(Node, Node)>> {
    match n {
        Node::Map(xs, _) | Node::MapIndef(xs) => Some(xs),
        _ => None,
    }
}
fn array_items_mut(n: &mut Node) -> Option<&mut Vec<Node>> {
    match n {
        Node::Array(xs, _) | Node::ArrayIndef(xs) => Some(xs),
        _ => None,
    }
}
fn is_uint(n: &Node, k: u64) -> bool {
    matches!(n, Node::UInt(v, _) if *v == k)
}

fn visit_multiasset(ma: &mut Node, ctx: &'static str, f: &mut dyn FnMut(&'static str, &mut Node)) {
    if let Some(pols) = map_entries_mut(ma) {
        for (_, assets) in pols.iter_mut() {
            if let Some(xs) = map_entries_mut(assets) {
                for (_, q) in xs.iter_mut() {
                    f(ctx, q);
                }
            }
        }
    }
}

fn visit_output(o: &mut Node, ctx: &'static str, f: &mut dyn FnMut(&'static str, &mut Node)) {
    if let Some(entries) = map_entries_mut(o) {
        for (k, v) in entries.iter_mut() {
            if is_uint(k, 1) {
                if let Some(parts) = array_items_mut(v) {
                    if parts.len() == 2 {
                        visit_multiasset(&mut parts[1], ctx, f);
                    }
                }
            }
        }
    } else if let Some(parts) = array_items_mut(o) {
        // legacy output [address, value, ?datum_hash]
        if parts.len() >= 2 {
            if let Some(vp) = array_items_mut(&mut parts[1]) {
                if vp.len() == 2 {
                    visit_multiasset(&mut vp[1], "legacy-output-value", f);
                }
            }
        }
    }
}

fn visit_body(body: &mut Node, f: &mut dyn FnMut(&'static str, &mut Node)) {
    if let Some(entries) = map_entries_mut(body) {
        for (k, v) in entries.iter_mut() {
            if is_uint(k, 1) {
                if let Some(outs) = array_items_mut(v) {
                    for o in outs.iter_mut() {
                        visit_output(o, "output-value", f);
                    }
                }
            } else if is_uint(k, 16) {
                visit_output(v, "collateral-return-value", f);
            } else if is_uint(k, 9) {
                visit_multiasset(v, "mint", f);
            } else if is_uint(k, 22) {
                f("donation", v);
            }
        }
    }
}

fn bodies_mut(kind: Kind, root: &mut Node) -> Vec<&mut Node> {
    match kind {
        Kind::Tx => match array_items_mut(root) {
            Some(xs) if !xs.is_empty() => vec![&mut xs[0]],
            _ => vec![],
        },
        Kind::Block => {
            // [era, [header, [bodies..], [witness sets..], aux, invalid]]
            let Some(top) = array_items_mut(root) else { return vec![] };
            if top.len() != 2 {
                return vec![];
            }
            let Some(blk) = array_items_mut(&mut top[1]) else { return vec![] };
            if blk.len() < 2 {
                return vec![];
            }
            match array_items_mut(&mut blk[1]) {
                Some(bs) => bs.iter_mut().collect(),
                None => vec![],
            }
        }
    }
}

fn visit_all(kind: Kind, root: &mut Node, f: &mut dyn FnMut(&'static str, &mut Node)) {
    for b in bodies_mut(kind, root) {
        visit_body(b, f);
    }
}

/// add a donation field and (when the body has a post-Alonzo multi-asset output) a collateral
/// return to the first body that lacks them, so that these contexts exist in every artefact
fn add_missing_fields(kind: Kind, root: &mut Node) -> (bool, bool) {
    let mut added = (false, false);
    let mut bodies = bodies_mut(kind, root);
    let Some(body) = bodies.first_mut() else { return added };
    let Some(entries) = map_entries_mut(body) else { return added };
    let has = |entries: &Vec<(Node, Node)>, k: u64| entries.iter().any(|(key, _)| is_uint(key, k));
    if !has(entries, 22) {
        entries.push((Node::u(22), Node::u(1_000_000)));
        added.0 = true;
    }
    if !has(entries, 16) {
        // copy the first post-Alonzo output that carries a multi-asset value
        let mut candidate: Option<Node> = None;
        for (k, v) in entries.iter() {
            if is_uint(k, 1) {
                if let Node::Array(outs, _) | Node::ArrayIndef(outs) = v {
                    for o in outs {
                        if let Node::Map(es, _) | Node::MapIndef(es) = o {
                            if es.iter().any(|(k, v)| is_uint(k, 1) && matches!(v, Node::Array(p, _) | Node::ArrayIndef(p) if p.len() == 2)) {
                                candidate = Some(o.clone());
                                break;
                            }
                        }
                    }
                }
            }
        }
        if let Some(o) = candidate {
            entries.push((Node::u(16), o));
            added.1 = true;
        }
    }
    added
}

// ---------------------------------------------------------------------------------------
// direct cases
// ---------------------------------------------------------------------------------------

fn boundary_magnitudes() -> Vec<u64> {
    let mut v: Vec<u64> = vec![0, 1, 2, 22, 23, 24, 25, 254, 255, 256, 257, 65534, 65535, 65536, 65537, u32::MAX as u64 - 1, u32::MAX as u64, 1 << 32, (1 << 32) + 1];
    for k in [7u32, 15, 31, 53, 62, 63] {
        let b = 1u64 << k;
        v.extend([b - 1, b, b + 1]);
    }
    v.extend([i64::MAX as u64 - 1, i64::MAX as u64, i64::MAX as u64 + 1, u64::MAX - 1, u64::MAX]);
    v.sort();
    v.dedup();
    v
}

fn widths_for(v: u64) -> Vec<u8> {
    let min = if v < 24 {
        0
    } else if v < 256 {
        1
    } else if v < 65536 {
        2
    } else if v < (1 << 32) {
        4
    } else {
        8
    };
    [0u8, 1, 2, 4, 8].iter().copied().filter(|w| *w >= min && (*w != 0 || v < 24)).collect()
}

fn is_boundary(v: i128) -> bool {
    [0i128, 1, -1, i64::MAX as i128, i64::MAX as i128 + 1, u64::MAX as i128, i64::MIN as i128, i64::MIN as i128 - 1, -(1i128 << 64)].contains(&v)
}

/// one synthetic item decoded as type `$ty`; `$get` maps the decoded value to the list of wrapper values
macro_rules! direct_case {
    ($ctx:expr, $label:expr, $wrapper:expr, $ty:ty, $bytes:expr, $intval:expr, $get:expr) => {{
        let ctx: &mut Ctx = $ctx;
        let bytes: &[u8] = $bytes;
        let intval: i128 = $intval;
        ctx.eval();
        ctx.count("direct_cases");
        let r = pv::panics::catch(|| {
            let v: Result<$ty, _> = minicbor::decode(bytes);
            v.map(|v| {
                let g = $get;
                let xs: Vec<i128> = g(&v);
                xs
            })
            .map_err(|e| e.to_string())
        });
        let replay = json!({"mode": "direct", "as": $label, "bytes": hexs(bytes)});
        match r {
            Err(p) => ctx.violation(&format!("panic:{}:{}", $label, p.site()), &format!("decoding {} as {} panicked: {}", hexs(bytes), $label, p.msg), replay),
            Ok(Err(_)) => {
                ctx.count("direct_rejected");
                if intval == 0 {
                    ctx.count("zero_rejected");
                }
            }
            Ok(Ok(vals)) => {
                ctx.count("direct_accepted");
                if vals.iter().any(|x| *x == 0) {
                    ctx.violation(
                        &format!("zero-accepted:{}:{}", $wrapper, if $label.starts_with("conway::") { "direct-multiasset" } else { "direct" }),
                        &format!("{} decodes as {} to a {} holding 0 (checked constructor refuses 0)", hexs(bytes), $label, $wrapper),
                        replay,
                    );
                } else {
                    ctx.count("nonzero_accepted");
                    if !vals.contains(&intval) {
                        ctx.count("decoded_value_differs_from_encoded");
                    }
                }
            }
        }
        if is_boundary(intval) {
            ctx.nontrivial(fp_mix(fp(bytes), fp($label.as_bytes())));
        }
    }};
}

fn multiasset_node(q: Node) -> Node {
    Node::map(vec![(Node::bytes(&[0xAB; 28]), Node::map(vec![(Node::bytes(b"tok"), Node::u(5)), (Node::bytes(b"zzz"), q)]))])
}

fn direct(ctx: &mut Ctx) {
    for m in boundary_magnitudes() {
        for neg in [false, true] {
            for w in widths_for(m) {
                let (node, intval) = if neg { (Node::NInt(m, w), -1 - m as i128) } else { (Node::UInt(m, w), m as i128) };
                let b = node.to_vec();
                direct_case!(ctx, "PositiveCoin", "PositiveCoin", PositiveCoin, &b, intval, |v: &PositiveCoin| vec![u64::from(v) as i128]);
                direct_case!(ctx, "NonZeroInt", "NonZeroInt", NonZeroInt, &b, intval, |v: &NonZeroInt| vec![i64::from(v) as i128]);
                direct_case!(ctx, "Option<PositiveCoin>", "PositiveCoin", Option<PositiveCoin>, &b, intval, |v: &Option<PositiveCoin>| v.iter().map(|x| u64::from(x) as i128).collect());
                let arr = Node::arr(vec![Node::u(3), node.clone()]).to_vec();
                direct_case!(ctx, "Vec<PositiveCoin>", "PositiveCoin", Vec<PositiveCoin>, &arr, intval, |v: &Vec<PositiveCoin>| v.iter().map(|x| u64::from(x) as i128).collect());
                direct_case!(ctx, "Vec<NonZeroInt>", "NonZeroInt", Vec<NonZeroInt>, &arr, intval, |v: &Vec<NonZeroInt>| v.iter().map(|x| i64::from(x) as i128).collect());
                // synthetic conway::Value [coin, {policy: {asset: qty}}] and conway::Mint
                let value = Node::arr(vec![Node::u(2_000_000), multiasset_node(node.clone())]).to_vec();
                direct_case!(ctx, "conway::Value", "PositiveCoin", conway::Value, &value, intval, |v: &conway::Value| {
                    let mut out: Seen = vec![];
                    see_value(v, "direct", &mut out);
                    out.iter().map(|x| x.2).collect()
                });
                let ma = multiasset_node(node.clone()).to_vec();
                direct_case!(ctx, "conway::Multiasset<PositiveCoin>", "PositiveCoin", conway::Multiasset<PositiveCoin>, &ma, intval, |v: &conway::Multiasset<PositiveCoin>| v
                    .values()
                    .flat_map(|a| a.values().map(|q| u64::from(q) as i128))
                    .collect());
                direct_case!(ctx, "conway::Mint", "NonZeroInt", conway::Mint, &ma, intval, |v: &conway::Mint| v.values().flat_map(|a| a.values().map(|q| i64::from(q) as i128)).collect());
                if m == 0 && !neg {
                    ctx.count("zero_encodings_direct");
                }
            }
        }
    }
    ctx.note("direct_space_exhaustive", json!(true));
}

// ---------------------------------------------------------------------------------------
// embedded cases
// ---------------------------------------------------------------------------------------

const CONTROL: u64 = 7_777_777;

struct Artefact {
    name: String,
    kind: Kind,
    root: Node,
    n_targets: usize,
}

fn load(ctx: &mut Ctx) -> Vec<Artefact> {
    let mut out = vec![];
    let mut try_one = |ctx: &mut Ctx, name: &str, kind: Kind, bytes: &[u8]| {
        let Ok(item) = cbor::parse(bytes) else {
            ctx.count("corpus_not_single_item");
            return;
        };
        let mut root = cbor::to_node(bytes, &item);
        if root.to_vec() != bytes {
            ctx.count("corpus_node_identity_failed");
            return;
        }
        match decode_and_inspect(kind, bytes) {
            Ok(Ok(_)) => {}
            _ => {
                ctx.count(if kind == Kind::Tx { "corpus_txs_not_conway_decodable" } else { "corpus_blocks_not_conway_decodable" });
                return;
            }
        }
        let added = add_missing_fields(kind, &mut root);
        // still decodable with the added fields? otherwise use the original
        if decode_and_inspect(kind, &root.to_vec()).map(|r| r.is_err()).unwrap_or(true) {
            root = cbor::to_node(bytes, &item);
            ctx.count("added_fields_rejected");
        } else {
            if added.0 {
                ctx.count("donation_fields_added");
            }
            if added.1 {
                ctx.count("collateral_returns_added");
            }
        }
        let mut n = 0usize;
        visit_all(kind, &mut root, &mut |c, _| {
            if c != "legacy-output-value" {
                n += 1;
            }
        });
        ctx.count(if kind == Kind::Tx { "corpus_txs_used" } else { "corpus_blocks_used" });
        out.push(Artefact { name: name.to_string(), kind, root, n_targets: n });
    };
    for a in pv::corpus::txs() {
        try_one(ctx, &a.name, Kind::Tx, &a.bytes);
    }
    for a in pv::corpus::all_blocks(1) {
        try_one(ctx, &a.name, Kind::Block, &a.bytes);
    }
    out
}

/// replace target number `idx` (in visiting order, legacy outputs not counted) by `repl`
fn splice(a: &Artefact, idx: usize, repl: &Node) -> (Vec<u8>, &'static str) {
    let mut root = a.root.clone();
    let mut i = 0usize;
    let mut where_ = "";
    visit_all(a.kind, &mut root, &mut |c, q| {
        if c == "legacy-output-value" {
            return;
        }
        if i == idx {
            *q = repl.clone();
            where_ = c;
        }
        i += 1;
    });
    (root.to_vec(), where_)
}

fn embedded_case(ctx: &mut Ctx, a: &Artefact, idx: usize, repl: &Node, intval: i128) {
    ctx.eval();
    ctx.count("embedded_cases");
    let (bytes, where_) = splice(a, idx, repl);
    let wrapper = if where_ == "mint" { "NonZeroInt" } else { "PositiveCoin" };
    let replay = json!({"mode": "embedded", "artefact": a.name, "target": idx, "context": where_, "replacement": hexs(&repl.to_vec())});
    ctx.count(&format!("embedded_{where_}"));
    match decode_and_inspect(a.kind, &bytes) {
        Err(p) => ctx.violation(&format!("panic:embedded:{}", p.site()), &format!("decoding {} with target {idx} ({where_}) replaced by {} panicked: {}", a.name, hexs(&repl.to_vec()), p.msg), replay),
        Ok(Err(e)) => {
            if ctx.want_sample() && where_ == "mint" {
                ctx.sample(json!({"mode": "embedded", "artefact": a.name, "context": where_, "target": idx, "replacement": hexs(&repl.to_vec()), "decode": format!("Err({e})")}));
            }
            ctx.count("embedded_rejected");
            if intval == 0 {
                ctx.count("zero_rejected");
                ctx.count(&format!("zero_rejected_{where_}"));
            } else {
                ctx.count("control_rejected");
            }
        }
        Ok(Ok(seen)) => {
            ctx.count("embedded_accepted");
            let zeros: Vec<&(&str, &str, i128)> = seen.iter().filter(|s| s.2 == 0).collect();
            if let Some(z) = zeros.first() {
                ctx.violation(
                    &format!("zero-accepted:{}:{}", z.1, z.0),
                    &format!(
                        "{}: {} quantity #{idx} replaced by the zero encoding {} -> the {} decodes and holds a {} with value 0 ({} wrapper values inspected)",
                        a.name,
                        where_,
                        hexs(&repl.to_vec()),
                        if a.kind == Kind::Tx { "transaction" } else { "block" },
                        z.1,
                        seen.len()
                    ),
                    replay,
                );
            } else if intval != 0 {
                // control: the spliced value must be visible in the same context, i.e. the decoder really
                // read the spliced position as that field
                if seen.iter().any(|s| s.0 == where_ && s.1 == wrapper && s.2 == intval) {
                    if ctx.want_sample() && idx % 5 == 1 {
                        ctx.sample(json!({"mode": "embedded", "artefact": a.name, "context": where_, "target": idx, "replacement": hexs(&repl.to_vec()), "decode": "Ok", "wrapper_values_inspected": seen.len(), "control_value_found": true}));
                    }
                    ctx.count("control_value_observed");
                    ctx.count(&format!("control_observed_{where_}"));
                } else {
                    ctx.count("control_value_not_found");
                }
            } else {
                // zero spliced, decode succeeded, no zero-valued wrapper found: the position was not
                // read as a wrapper (cannot happen if the control is observed)
                ctx.count("zero_spliced_but_not_seen");
            }
        }
    }
    if intval == 0 {
        ctx.nontrivial(fp_mix(fp(a.name.as_bytes()), fp_mix(idx as u64, fp(&repl.to_vec()))));
    }
}

fn embedded(ctx: &mut Ctx, arts: &[Artefact]) {
    let mut job = 0u64;
    for a in arts {
        if a.n_targets == 0 {
            continue;
        }
        // every target of every artefact, in both tiers (about 2000 targets in the pinned corpus)
        let idxs: Vec<usize> = (0..a.n_targets).collect();
        ctx.count("artefacts_all_targets");
        for idx in idxs {
            job += 1;
            if !ctx.owns(job) {
                continue;
            }
            for w in [0u8, 1, 2, 4, 8] {
                embedded_case(ctx, a, idx, &Node::UInt(0, w), 0);
            }
            embedded_case(ctx, a, idx, &Node::UInt(CONTROL, 0), CONTROL as i128);
            ctx.count("targets_exercised");
        }
    }
}

fn main() {
    let mut ctx = Ctx::from_args("C04");
    if let Err(e) = cbor::selftest() {
        ctx.inconclusive(&format!("own CBOR toolkit self-test failed: {e}"));
        ctx.finish();
    }
    if let Some(p) = ctx.replay.clone() {
        let v: serde_json::Value = serde_json::from_slice(&std::fs::read(p).unwrap()).unwrap();
        let r = &v["replay"];
        if r["mode"] == "direct" {
            let b = hex::decode(r["bytes"].as_str().unwrap()).unwrap();
            let pc: Result<PositiveCoin, _> = minicbor::decode(&b);
            let nz: Result<NonZeroInt, _> = minicbor::decode(&b);
            let val: Result<conway::Value, _> = minicbor::decode(&b);
            println!("bytes {} as {}:\n  PositiveCoin -> {:?}\n  NonZeroInt -> {:?}\n  conway::Value -> {:?}", hexs(&b), r["as"], pc.map_err(|e| e.to_string()), nz.map_err(|e| e.to_string()), val.map_err(|e| e.to_string()));
            direct(&mut ctx);
        } else {
            let arts = load(&mut ctx);
            let name = r["artefact"].as_str().unwrap_or("");
            let idx = r["target"].as_u64().unwrap_or(0) as usize;
            let repl_b = hex::decode(r["replacement"].as_str().unwrap_or("00")).unwrap();
            let repl = cbor::to_node(&repl_b, &cbor::parse(&repl_b).unwrap());
            if let Some(a) = arts.iter().find(|a| a.name == name) {
                let (bytes, where_) = splice(a, idx, &repl);
                println!("{name}: target {idx} ({where_}) := {}", hexs(&repl_b));
                println!("  decode -> {:?}", decode_and_inspect(a.kind, &bytes).map_err(|p| p.msg).map(|r| r.map(|s| s.into_iter().filter(|x| x.2 == 0 || x.2 == CONTROL as i128).collect::<Vec<_>>())));
                embedded_case(&mut ctx, a, idx, &repl, if repl_b.iter().skip(1).all(|x| *x == 0) && (repl_b[0] == 0 || repl_b[0] >= 0x18) { 0 } else { CONTROL as i128 });
            } else {
                println!("artefact {name} not found");
            }
        }
        println!("replayed: violations={}", ctx.n_violations());
        ctx.finish();
    }

    // the direct space is small: every shard 0 executes it completely
    if ctx.shard == 0 {
        direct(&mut ctx);
    }
    let arts = load(&mut ctx);
    ctx.max("corpus_artefacts_with_targets", arts.iter().filter(|a| a.n_targets > 0).count() as u64);
    ctx.max("corpus_targets_total", arts.iter().map(|a| a.n_targets as u64).sum());
    ctx.max("corpus_targets_max_per_artefact", arts.iter().map(|a| a.n_targets as u64).max().unwrap_or(0));
    embedded(&mut ctx, &arts);
    ctx.note("embedded_all_targets_of_all_accepted_artefacts", json!(true));
    ctx.finish();
}
