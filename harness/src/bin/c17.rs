//! C17 — fixed-point arithmetic, rounding and printing are exact.
//!
//! The shard builds values with `FixedDecimal::from_str` (precisions 0,1,2,3,10,34,40 for
//! rounding / comparison / printing, 34 for the operators, which use the global 34-digit scale),
//! applies one operation of the real crate and logs `{op, v(ariant), p, a: [raw integers], r}`.
//! `oracles/math_exact.py` recomputes every result with python ints / Fractions.
use num_bigint::{BigInt, Sign};
use pallas_math::math::{FixedDecimal, FixedPrecision};
use pv::fixgen::*;
use pv::*;
use serde_json::Value;
use std::cmp::Ordering;

const PRECISIONS: [u64; 7] = [0, 1, 2, 3, 10, 34, 40];

fn fd(v: &BigInt, p: u64) -> FixedDecimal {
    FixedDecimal::from_str(&v.to_string(), p).expect("from_str on a decimal integer")
}

fn int_part(rng: &mut Rng) -> BigInt {
    if rng.bool() {
        BigInt::from(rng.below(12))
    } else {
        let nd = 1 + rng.usize_below(40);
        digits(rng, nd)
    }
}

/// a raw value at precision p aimed at the interesting places
fn gen_value(rng: &mut Rng, p: u64) -> BigInt {
    let unit = pow10(p as u32);
    let v = match rng.below(20) {
        0 => BigInt::from(0),
        1 => BigInt::from(rng.range(1, 3)),
        // integers
        2 | 3 => {
            let k = int_part(rng);
            k * &unit
        }
        // exact halves, and one ulp around them
        4..=6 => {
            let k = int_part(rng);
            let half = if p >= 1 { pow10(p as u32 - 1) * 5u32 } else { BigInt::from(0) };
            k * &unit + half + BigInt::from(rng.irange(-1, 1))
        }
        // zero integer part
        7 | 8 => {
            if p == 0 {
                BigInt::from(0)
            } else {
                uniform_below(rng, &(&unit - 1))
            }
        }
        // just below / above an integer
        9 | 10 => {
            let k = int_part(rng);
            k * &unit + BigInt::from(rng.irange(-2, 2))
        }
        // magnitudes 10^-p .. 10^40, all digit styles
        _ => {
            let nd = 1 + rng.usize_below(p as usize + 41);
            digits(rng, nd)
        }
    };
    if rng.chance(45, 100) {
        -v
    } else {
        v
    }
}

/// second operand for the operators, related to the first one in useful ways
fn gen_second(rng: &mut Rng, a: &BigInt) -> BigInt {
    let one = pow10(34);
    match rng.below(12) {
        0 => a.clone(),
        1 => -a,
        2 => one,
        3 => -one,
        4 => pow10(rng.range(0, 60) as u32) * if rng.bool() { 1 } else { -1 },
        5 => BigInt::from(rng.irange(-9, 9)),
        6 => BigInt::from(rng.irange(-20, 20)) * one,
        7 => BigInt::from(3u32) * one * if rng.bool() { 1 } else { -1 },
        _ => gen_value(rng, 34),
    }
}

fn ord_name(o: Option<Ordering>) -> &'static str {
    match o {
        Some(Ordering::Less) => "Less",
        Some(Ordering::Equal) => "Equal",
        Some(Ordering::Greater) => "Greater",
        None => "None",
    }
}

/// run one operation of the real code; returns the event
fn observe(op: &str, variant: &str, p: u64, a: &[BigInt]) -> Value {
    let r = pv::panics::catch(|| -> (String, Value) {
        let x = fd(&a[0], p);
        match op {
            "add" | "sub" | "mul" | "div" => {
                let y = fd(&a[1], p);
                let z: FixedDecimal = match (op, variant) {
                    ("add", "owned") => x + y,
                    ("add", "ref") => &x + &y,
                    ("add", "assign") => { let mut t = x; t += y; t }
                    ("add", _) => { let mut t = x; { let mut m = &mut t; m += &y; } t }
                    ("sub", "owned") => x - y,
                    ("sub", "ref") => &x - &y,
                    ("sub", "assign") => { let mut t = x; t -= y; t }
                    ("sub", _) => { let mut t = x; { let mut m = &mut t; m -= &y; } t }
                    ("mul", "owned") => x * y,
                    ("mul", "ref") => &x * &y,
                    ("mul", "assign") => { let mut t = x; t *= y; t }
                    ("mul", _) => { let mut t = x; { let mut m = &mut t; m *= &y; } t }
                    ("div", "owned") => x / y,
                    ("div", "ref") => &x / &y,
                    ("div", "assign") => { let mut t = x; t /= y; t }
                    (_, _) => { let mut t = x; { let mut m = &mut t; m /= &y; } t }
                };
                (z.to_string(), json!({"rp": z.precision()}))
            }
            "neg" => {
                let z = if variant == "ref" { -&x } else { -x };
                (z.to_string(), json!({"rp": z.precision()}))
            }
            "floor" => { let z = x.floor(); (z.to_string(), json!({"rp": z.precision()})) }
            "ceil" => { let z = x.ceil(); (z.to_string(), json!({"rp": z.precision()})) }
            "round" => { let z = x.round(); (z.to_string(), json!({"rp": z.precision()})) }
            "trunc" => { let z = x.trunc(); (z.to_string(), json!({"rp": z.precision()})) }
            "cmp" => {
                let y = fd(&a[1], p);
                let o = x.partial_cmp(&y);
                (ord_name(o).to_string(), json!({"eq": x == y, "lt": x < y, "ge": x >= y}))
            }
            "print" => (x.to_string(), json!({"rp": x.precision()})),
            _ => unreachable!("op"),
        }
    });
    let args: Vec<String> = a.iter().map(|x| x.to_string()).collect();
    match r {
        Ok((s, x)) => json!({"op": op, "v": variant, "p": p, "a": args, "r": s, "x": x, "panic": Value::Null}),
        Err(pi) => json!({"op": op, "v": variant, "p": p, "a": args, "r": Value::Null, "x": {}, "panic": pi.site()}),
    }
}

fn main() {
    let mut ctx = Ctx::from_args("C17");
    if let Some(pth) = ctx.replay.clone() {
        let v: Value = serde_json::from_slice(&std::fs::read(pth).unwrap()).unwrap();
        let old = &v["replay"];
        let a: Vec<BigInt> = old["a"].as_array().unwrap().iter().map(|x| big(x.as_str().unwrap())).collect();
        let op = old["op"].as_str().unwrap().to_string();
        let var = old["v"].as_str().unwrap_or("owned").to_string();
        let p = old["p"].as_u64().unwrap();
        let ev = observe(&op, &var, p, &a);
        println!("replayed {op}/{var} p={p} a={} -> r={} x={} panic={}", old["a"], ev["r"], ev["x"], ev["panic"]);
        replay_with_oracle(&ctx.out, "oracles/math_exact.py", "C17", &ev);
        ctx.finish();
    }
    let mut log = EventLog::create(&ctx.out, ctx.shard);
    let n = ctx.budget(100_000, 5_000_000);
    const VARIANTS: [&str; 4] = ["owned", "ref", "assign", "refassign"];
    for _ in 0..n {
        let ev = match ctx.rng.below(100) {
            // operators at the default precision
            0..=39 => {
                let op = *ctx.rng.pick(&["add", "sub", "mul", "div"]);
                let var = *ctx.rng.pick(&VARIANTS);
                let a = gen_value(&mut ctx.rng, 34);
                let mut b = gen_second(&mut ctx.rng, &a);
                if op == "div" && b.sign() == Sign::NoSign {
                    b = BigInt::from(7);
                }
                observe(op, var, 34, &[a, b])
            }
            40..=43 => {
                let op = "neg";
                let var = *ctx.rng.pick(&["owned", "ref"]);
                let p = *ctx.rng.pick(&PRECISIONS);
                let a = gen_value(&mut ctx.rng, p);
                observe(op, var, p, &[a])
            }
            44..=73 => {
                let op = *ctx.rng.pick(&["floor", "ceil", "round", "trunc"]);
                let p = *ctx.rng.pick(&PRECISIONS);
                let a = gen_value(&mut ctx.rng, p);
                observe(op, "-", p, &[a])
            }
            74..=86 => {
                let p = *ctx.rng.pick(&PRECISIONS);
                let a = gen_value(&mut ctx.rng, p);
                let b = match ctx.rng.below(4) {
                    0 => a.clone(),
                    1 => &a + BigInt::from(ctx.rng.irange(-2, 2)),
                    2 => -&a,
                    _ => gen_value(&mut ctx.rng, p),
                };
                observe("cmp", "-", p, &[a, b])
            }
            _ => {
                let p = *ctx.rng.pick(&PRECISIONS);
                let a = gen_value(&mut ctx.rng, p);
                observe("print", "-", p, &[a])
            }
        };
        ctx.count(&format!("calls_{}", ev["op"].as_str().unwrap_or("?")));
        if !ev["panic"].is_null() {
            ctx.count("panics_observed");
        }
        log.log(&ev);
    }
    let written = log.close();
    ctx.add("events_logged", written);
    ctx.finish();
}
