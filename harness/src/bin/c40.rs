//! C40 — built transactions encode the staged content with a correct id.
//!
//! Monitor: a shadow model (`pv::txb::Model`) follows every staging call; after `build_conway_raw`
//! the built bytes are read with the own CBOR walker and compared field by field with the model;
//! the id is recomputed with the reference Blake2b over the body span; redeemer indices are
//! recomputed as positions in the sorted *set* of inputs / sorted minted policies. Every call into
//! pallas runs under `panics::catch`; each distinct panic site is its own signature.
use pallas_primitives::Fragment;
use pallas_txbuilder::{BuildConway, StagingTransaction};
use pv::txb::*;
use pv::*;

struct Outcome {
    ops_done: usize,
}

/// Runs one case: `next(model, i)` yields the i-th op (None = stop). `build_at(i)` says whether to build after op i.
fn run(ctx: &mut Ctx, label: &str, replay: serde_json::Value, mut next: impl FnMut(&Model, usize) -> Option<Op>, build_at: impl Fn(usize) -> bool, verbose: bool) -> Outcome {
    let mut tx = StagingTransaction::new();
    let mut m = Model::default();
    let mut log: Vec<String> = vec![];
    let mut i = 0usize;
    // an empty staging transaction is buildable too
    loop {
        let Some(op) = next(&m, i) else { break };
        let aux_ok = match &op {
            Op::Aux(b) => b.0 != vec![0x01],
            _ => true,
        };
        if log.len() < 80 {
            log.push(format!("{op:?}"));
        }
        if verbose {
            println!("op[{i}] {op:?}");
        }
        ctx.set_insert("staging_methods_called", op.name());
        ctx.count("staging_calls");
        let predicted_ok = m.apply(&op, aux_ok);
        let before = tx.clone();
        let r = pv::panics::catch(|| apply_real(before, &op));
        match r {
            Ok(t) => {
                tx = t;
                if !predicted_ok {
                    // the model says this call cannot be carried out (overflow / out of range) yet it returned
                    ctx.count("staging_call_survived_predicted_failure");
                    if verbose {
                        println!("  call returned although the model predicted a failure; case abandoned");
                    }
                    return Outcome { ops_done: i };
                }
            }
            Err(p) => {
                ctx.count("staging_panics");
                // outputs are assembled with Output::add_asset before being staged
                let api = match &op {
                    Op::Output(_) | Op::CollOutput(_) => "Output::add_asset",
                    o => o.name(),
                };
                let sig = format!("panic:stage:{}:{}", api, p.site());
                if verbose {
                    println!("  PANIC {sig}: {}", p.msg);
                }
                ctx.violation(&sig, &format!("staging call {} panicked ({}:{}: {}); op = {:?}", op.name(), p.rel_file(), p.line, p.msg, op), json!({"case": replay, "label": label, "ops": log}));
                return Outcome { ops_done: i };
            }
        }
        if build_at(i) {
            build_and_check(ctx, label, &replay, &tx, &m, &log, verbose);
        }
        i += 1;
    }
    if i == 0 {
        build_and_check(ctx, label, &replay, &tx, &m, &log, verbose);
    }
    Outcome { ops_done: i }
}

fn build_and_check(ctx: &mut Ctx, label: &str, replay: &serde_json::Value, tx: &StagingTransaction, m: &Model, log: &[String], verbose: bool) {
    ctx.eval();
    ctx.count("builds_attempted");
    let t = tx.clone();
    let r = pv::panics::catch(move || t.build_conway_raw());
    let flags = json!({
        "zero_mint_entry": m.has_zero_mint(), "zero_output_asset": m.has_zero_output_asset(),
        "redeemer_without_exunits": m.has_redeemer_without_exunits(), "duplicate_inputs": Model::has_dup(&m.inputs),
    });
    let rp = json!({"case": replay, "label": label, "ops": log, "model_flags": flags});
    match r {
        Err(p) => {
            ctx.count("build_panics");
            let sig = format!("panic:build_conway_raw:{}", p.site());
            if verbose {
                println!("build: PANIC {sig}: {} (flags {flags})", p.msg);
            }
            ctx.violation(&sig, &format!("build_conway_raw panicked at {}:{} ({}) after {} staging calls; staged state flags {}", p.rel_file(), p.line, p.msg, log.len(), flags), rp);
        }
        Ok(Err(e)) => {
            ctx.count("builds_rejected");
            ctx.count(&format!("rejected:{e:?}"));
            if verbose {
                println!("build: rejected {e:?}");
            }
        }
        Ok(Ok(built)) => {
            ctx.count("builds_ok");
            let bytes = &built.tx_bytes.0;
            let (findings, ptx) = compare(m, bytes, &built.tx_hash.0);
            if verbose {
                println!("build: ok, {} bytes, id {}, findings {:?}", bytes.len(), hex::encode(built.tx_hash.0), findings);
            }
            for (sig, what) in findings {
                let what: String = what.chars().take(900).collect();
                ctx.violation(&sig, &format!("{what} [tx {}]", hex_short(bytes)), rp.clone());
            }
            // "the built bytes decode to a Conway transaction"
            let b2 = bytes.clone();
            match pv::panics::catch(move || pallas_primitives::conway::Tx::decode_fragment(&b2).map(|_| ())) {
                Ok(Ok(())) => ctx.count("built_bytes_decode_as_conway_tx"),
                Ok(Err(e)) => ctx.violation("C40:built-bytes-do-not-decode", &format!("conway::Tx::decode_fragment failed on the built bytes: {e} [tx {}]", hex_short(bytes)), rp.clone()),
                Err(p) => ctx.violation(&format!("panic:decode-built:{}", p.site()), &format!("decoding the built bytes panicked: {}", p.msg), rp.clone()),
            }
            if let Some(p) = ptx {
                // observation counters
                if p.mint.is_some() {
                    ctx.count("built_with_mint");
                }
                if let Some(r) = &p.redeemers {
                    ctx.count("built_with_redeemers");
                    ctx.add("redeemers_checked", r.len() as u64);
                    if r.iter().any(|x| x.tag == 0) {
                        ctx.count("built_with_spend_redeemer");
                    }
                    if r.iter().any(|x| x.tag == 1) {
                        ctx.count("built_with_mint_redeemer");
                    }
                    if r.iter().any(|x| x.index > 0) {
                        ctx.count("built_with_redeemer_index_gt0");
                    }
                }
                if p.aux.is_some() {
                    ctx.count("built_with_aux_data");
                }
                if p.datums.is_some() {
                    ctx.count("built_with_datums");
                }
                if p.native.is_some() || p.plutus.iter().any(|x| x.is_some()) {
                    ctx.count("built_with_scripts");
                }
                if p.collateral.is_some() {
                    ctx.count("built_with_collateral");
                }
                if p.ref_inputs.is_some() {
                    ctx.count("built_with_reference_inputs");
                }
                if p.signers.is_some() {
                    ctx.count("built_with_required_signers");
                }
                if p.coll_ret.is_some() {
                    ctx.count("built_with_collateral_return");
                }
                if p.outputs.iter().any(|o| !o.assets.is_empty()) {
                    ctx.count("built_with_multiasset_output");
                }
                if p.outputs.iter().any(|o| o.datum.is_some()) {
                    ctx.count("built_with_output_datum");
                }
                if p.outputs.iter().any(|o| o.script.is_some()) {
                    ctx.count("built_with_output_script_ref");
                }
                ctx.max("max_inputs", p.inputs.len() as u64);
                ctx.max("max_outputs", p.outputs.len() as u64);
                ctx.max("max_tx_bytes", bytes.len() as u64);
                if p.mint.is_some() || p.redeemers.is_some() || Model::has_dup(&m.inputs) {
                    ctx.nontrivial(fp(bytes));
                }
                if ctx.want_sample() && p.redeemers.is_some() && p.mint.is_some() {
                    ctx.sample(json!({"ops": log.len(), "tx": hex_short(bytes), "id": hex::encode(built.tx_hash.0), "inputs": p.inputs.len(), "outputs": p.outputs.len(), "redeemers": format!("{:?}", p.redeemers)}));
                }
            }
        }
    }
}

fn random_case(ctx: &mut Ctx, case_seed: u64, verbose: bool) {
    let mut rng = Rng::new(case_seed);
    let cfg = match rng.below(8) {
        0..=2 => GenCfg { poison: false, rejects: false },
        3..=4 => GenCfg { poison: false, rejects: true },
        5 => GenCfg { poison: true, rejects: false },
        _ => GenCfg { poison: true, rejects: true },
    };
    ctx.count(&format!("cases:poison={}:rejects={}", cfg.poison, cfg.rejects));
    let pools = Pools::new(&mut rng);
    let nops = 1 + rng.usize_below(60);
    let mid1 = rng.usize_below(nops);
    let mid2 = rng.usize_below(nops);
    let replay = json!({"kind": "random", "case_seed": case_seed.to_string()});
    let out = run(
        ctx,
        "random",
        replay,
        |m, i| if i < nops { Some(gen_op(&mut rng, &pools, m, &cfg)) } else { None },
        |i| i + 1 == nops || i == mid1 || i == mid2,
        verbose,
    );
    ctx.max("max_ops_in_case", out.ops_done as u64);
}

/// deterministic small cases aimed at the input classes named in the property / design
fn directed(ctx: &mut Ctx, which: Option<usize>, verbose: bool) {
    let h = |b: u8| Hx(vec![b; 32]);
    let pol = |b: u8| Hx(vec![b; 28]);
    let addr = Hx({
        let mut v = vec![0x61];
        v.extend([7u8; 28]);
        v
    });
    let out = |calls: Vec<(Hx, Hx, u64)>| MOutput { addr: addr.clone(), lovelace: 2_000_000, asset_calls: calls, datum: None, script: None };
    let d = Hx(vec![0xd8, 0x79, 0x80]);
    let cases: Vec<(&str, Vec<Op>)> = vec![
        ("empty", vec![]),
        ("mint+5-5", vec![Op::Input((h(1), 0)), Op::Mint(pol(1), Hx(b"t".to_vec()), 5), Op::Mint(pol(1), Hx(b"t".to_vec()), -5)]),
        ("mint0", vec![Op::Input((h(1), 0)), Op::Mint(pol(1), Hx(b"t".to_vec()), 0)]),
        ("mint-cancel-one-of-two", vec![Op::Mint(pol(1), Hx(b"a".to_vec()), 5), Op::Mint(pol(1), Hx(b"b".to_vec()), 7), Op::Mint(pol(1), Hx(b"a".to_vec()), -5)]),
        ("output-asset-0", vec![Op::Output(out(vec![(pol(2), Hx(vec![]), 0)]))]),
        ("collateral-return-asset-0", vec![Op::CollOutput(out(vec![(pol(2), Hx(vec![]), 0)]))]),
        ("redeemer-without-exunits", vec![Op::Input((h(1), 0)), Op::SpendRedeemer((h(1), 0), d.clone(), None)]),
        ("remove_output-on-empty", vec![Op::RemoveOutput(0)]),
        ("remove_output-past-end", vec![Op::Output(out(vec![])), Op::RemoveOutput(1)]),
        (
            "duplicate-input-then-redeemer",
            vec![Op::Input((h(1), 0)), Op::Input((h(1), 0)), Op::Input((h(2), 0)), Op::SpendRedeemer((h(2), 0), d.clone(), Some((1, 2)))],
        ),
        ("duplicate-reference-input", vec![Op::RefInput((h(1), 0)), Op::RefInput((h(1), 0))]),
        ("duplicate-collateral", vec![Op::CollInput((h(1), 0)), Op::CollInput((h(1), 0))]),
        ("duplicate-signer", vec![Op::Signer(pol(9)), Op::Signer(pol(9))]),
        ("mint-overflow", vec![Op::Mint(pol(1), Hx(vec![]), i64::MAX), Op::Mint(pol(1), Hx(vec![]), 1)]),
        ("asset-overflow", vec![Op::Output(out(vec![(pol(2), Hx(vec![]), u64::MAX), (pol(2), Hx(vec![]), 1)]))]),
        // auxiliary data: tag 259 { 0: {1: "x"}, 3: [h'0102'] } (plutus v2 scripts)
        ("aux-with-v2-scripts", vec![Op::Aux(Hx(hex::decode("d90103a200a10161780381420102").unwrap()))]),
        ("aux-shelley", vec![Op::Aux(Hx(hex::decode("a1016178").unwrap()))]),
        ("datum-nonminimal-int", vec![Op::Datum(Hx(vec![0x82, 0x18, 0x00, 0x01]))]),
        (
            "two-policies-redeemer-on-second",
            vec![Op::Mint(pol(9), Hx(vec![]), 1), Op::Mint(pol(3), Hx(vec![]), 1), Op::MintRedeemer(pol(9), d.clone(), Some((3, 4))), Op::MintRedeemer(pol(3), d.clone(), Some((5, 6)))],
        ),
        (
            "inputs-unsorted-redeemers",
            vec![
                Op::Input((h(9), 1)),
                Op::Input((h(9), 0)),
                Op::Input((h(2), 5)),
                Op::SpendRedeemer((h(9), 1), d.clone(), Some((1, 1))),
                Op::SpendRedeemer((h(2), 5), d.clone(), Some((2, 2))),
                Op::SpendRedeemer((h(9), 0), d.clone(), Some((3, 3))),
            ],
        ),
    ];
    for (ci, (label, ops)) in cases.iter().enumerate() {
        if let Some(w) = which {
            if w != ci {
                continue;
            }
        }
        ctx.count("directed_cases");
        let n = ops.len();
        run(ctx, &format!("directed:{label}"), json!({"kind": "directed", "index": ci}), |_, i| ops.get(i).cloned(), |i| i + 1 == n, verbose);
    }
}

fn main() {
    let mut ctx = Ctx::from_args("C40");
    if let Some(p) = ctx.replay.clone() {
        let v: serde_json::Value = serde_json::from_slice(&std::fs::read(p).unwrap()).unwrap();
        let c = &v["replay"]["case"];
        if c["kind"] == "directed" {
            directed(&mut ctx, Some(c["index"].as_u64().unwrap() as usize), true);
        } else {
            let seed: u64 = c["case_seed"].as_str().unwrap().parse().unwrap();
            random_case(&mut ctx, seed, true);
        }
        println!("replayed: {} violation signature(s)", ctx.n_violations());
        ctx.finish();
    }
    if ctx.shard == 0 {
        directed(&mut ctx, None, false);
    }
    let n = ctx.budget(30_000, 2_000_000);
    for _ in 0..n {
        let cs = ctx.rng.next_u64();
        random_case(&mut ctx, cs, false);
    }
    ctx.finish();
}
