//! C12 — KES keys sign verifiably for exactly their current period.
//!
//! For each of the 14 instantiations (Sum1..7, CompactSum1..7) and each master seed the key is
//! evolved through *all* 2^d periods. At every period t the monitor checks
//!   * get_period() == t, to_pk() == keygen's key == root key of the independent model (kesref);
//!   * sign(m): from_bytes(to_bytes(sig)) == sig;
//!   * for every t' < 2^d: pallas verify(sig, t') == (t' == t), and the independent verifier working
//!     on the signature *bytes* (kesref::verify_sum / verify_compact) gives the same answer;
//!   * update() succeeds iff t < 2^d - 1 (and a refused update leaves the key at period t).
//! Extra (agreement with the reference verifier on altered input): single-bit flips in every region
//! of the signature and verification under a foreign key.
use pv::kesdrv::{schemes, Scheme};
use pv::kesref::{self, Tree};
use pv::*;
use std::cell::Cell;

struct Item<'a> {
    scheme: &'a Scheme,
    seed_idx: u64,
    master: [u8; 32],
    chunk: u32,
    chunks: u32,
    msgs: Vec<Vec<u8>>,
    /// only this period (replay)
    only_t: Option<u32>,
}

fn ref_verify(s: &Scheme, root: &[u8; 32], t: u32, m: &[u8], sig: &[u8]) -> bool {
    if s.compact {
        kesref::verify_compact(s.depth, root, t, m, sig)
    } else {
        kesref::verify_sum(s.depth, root, t, m, sig)
    }
}

fn regions(s: &Scheme) -> Vec<(&'static str, usize, usize)> {
    if s.compact {
        vec![("ed-sig", 0, 64), ("leaf-vk", 64, 96), ("sibling-vk", 96, s.sig_len)]
    } else {
        vec![("ed-sig", 0, 64), ("vk-pair", 64, s.sig_len)]
    }
}

fn run_item(ctx: &mut Ctx, it: &Item) -> bool {
    let s = it.scheme;
    let kind = s.kind();
    let tree = Tree::build(&it.master, s.depth);
    let root = tree.root_vk();
    let total = 1u32 << s.depth;
    let half = total / 2;
    let mut buf = vec![0u8; s.key_len];
    let mut seed = it.master.to_vec();
    let op = Cell::new("keygen");
    let done = Cell::new(false);
    let mut rng = Rng::derive(ctx.seed, "C12-item", it.seed_idx * 64 + (s.depth as u64) * 2 + s.compact as u64);
    let foreign_root = Tree::build(&rng.array::<32>(), s.depth).root_vk();
    let replay_of = |t: u32, m: &[u8]| json!({"scheme": s.name, "seed": hexs(&it.master), "t": t, "msg": hexs(m)});
    ctx.set_insert("schemes_run", s.name);

    let r = pv::panics::catch(|| {
        (s.with_key)(&mut buf, &mut seed, &mut |key, pk| {
            ctx.eval();
            if pk != root {
                ctx.violation(
                    &format!("C12:{kind}:keygen-pk-differs-from-reference"),
                    &format!("{} seed {}: keygen returned pk {} but the sum composition gives {}", s.name, hexs(&it.master), hexs(&pk), hexs(&root)),
                    replay_of(0, b""),
                );
            }
            for t in 0..total {
                // ---- state checks
                ctx.eval();
                ctx.count("key_states");
                op.set("get_period");
                let p = key.period();
                if p != t {
                    ctx.violation(
                        &format!("C12:{kind}:period-wrong"),
                        &format!("{} seed {}: after {t} updates get_period() = {p}", s.name, hexs(&it.master)),
                        replay_of(t, b""),
                    );
                }
                op.set("to_pk");
                let tp = key.to_pk();
                if tp != pk {
                    ctx.violation(
                        &format!("C12:{kind}:to_pk-changed"),
                        &format!("{} seed {}: at period {t} to_pk() = {} but keygen returned {}", s.name, hexs(&it.master), hexs(&tp), hexs(&pk)),
                        replay_of(t, b""),
                    );
                }
                let in_chunk = match it.only_t {
                    Some(x) => x == t,
                    None => t % it.chunks == it.chunk,
                };
                if in_chunk {
                    for (mi, m) in it.msgs.iter().enumerate() {
                        op.set("sign");
                        let sig = key.sign(m);
                        ctx.eval();
                        ctx.count("signatures_made");
                        match &sig.roundtrip {
                            Ok(true) => ctx.count("sig_bytes_roundtrip_ok"),
                            Ok(false) => ctx.violation(&format!("C12:{kind}:sig-roundtrip:differs"), &format!("{} period {t}: from_bytes(to_bytes(sig)) != sig, bytes {}", s.name, hex_short(&sig.bytes)), replay_of(t, m)),
                            Err(e) => ctx.violation(&format!("C12:{kind}:sig-roundtrip:unparsable"), &format!("{} period {t}: from_bytes(to_bytes(sig)) failed: {e}", s.name), replay_of(t, m)),
                        }
                        let want = if s.compact { tree.compact_signature(t, m) } else { tree.sum_signature(t, m) };
                        if want == sig.bytes {
                            ctx.count("sig_bytes_equal_reference_composition");
                        } else {
                            ctx.count("sig_bytes_differ_from_reference_composition");
                        }
                        op.set("verify");
                        let mut row_ok = true;
                        for u in 0..total {
                            let v = (s.verify)(&sig.bytes, u, &pk, m);
                            let rv = ref_verify(s, &root, u, m, &sig.bytes);
                            ctx.eval();
                            let expect = u == t;
                            if v.accepted() != expect {
                                row_ok = false;
                                let cls = if expect { "own-period-rejected" } else { "other-period-accepted" };
                                ctx.violation(
                                    &format!("C12:{kind}:verify:{cls}"),
                                    &format!("{} seed {} msg {}: signature made at period {t} -> verify(period {u}) = {:?}", s.name, hexs(&it.master), hex_short(m), v),
                                    replay_of(t, m),
                                );
                            }
                            if rv != expect {
                                row_ok = false;
                                let cls = if expect { "own-period-rejected" } else { "other-period-accepted" };
                                ctx.violation(
                                    &format!("C12:{kind}:reference-verifier:{cls}"),
                                    &format!("{} seed {} msg {}: signature bytes made at period {t} ({}) -> independent verifier at period {u} says {rv}", s.name, hexs(&it.master), hex_short(m), hex_short(&sig.bytes)),
                                    replay_of(t, m),
                                );
                            }
                            if expect {
                                ctx.count("verified_at_own_period");
                            } else {
                                ctx.count("rejected_at_other_period");
                            }
                            if u != t || t >= half {
                                ctx.nontrivial(fp_mix(fp(&it.master), ((s.depth as u64) << 40) | ((s.compact as u64) << 39) | ((mi as u64) << 32) | ((t as u64) << 16) | u as u64));
                            }
                        }
                        if it.only_t.is_some() {
                            println!("period {t} msg {}: sig {} row_ok={row_ok}", hex_short(m), hex_short(&sig.bytes));
                        }
                        if ctx.want_sample() && t == total - 1 && mi == 0 {
                            ctx.sample(json!({"scheme": s.name, "seed": hexs(&it.master), "period": t, "msg": hex_short(m), "signature": hex_short(&sig.bytes),
                                "verify": format!("accept at t'={t}, reject at the other {} periods (pallas and reference verifier)", total - 1), "row_ok": row_ok}));
                        }
                        // ---- altered input: agreement with the reference verifier
                        if mi == 0 {
                            for (rname, lo, hi) in regions(s) {
                                for _ in 0..2 {
                                    let mut b = sig.bytes.clone();
                                    let bit = rng.usize_below((hi - lo) * 8);
                                    b[lo + bit / 8] ^= 1 << (bit % 8);
                                    let u = if rng.bool() { t } else { rng.below(total as u64) as u32 };
                                    let v = (s.verify)(&b, u, &pk, m);
                                    let rv = ref_verify(s, &root, u, m, &b);
                                    ctx.eval();
                                    ctx.count("altered_signature_cases");
                                    if v.accepted() != rv {
                                        ctx.violation(
                                            &format!("C12:{kind}:altered-signature:{rname}:pallas={}:reference={}", v.short(), if rv { "accept" } else { "reject" }),
                                            &format!("{} period {t}: bit {bit} of region {rname} flipped, verify(period {u}) = {:?}, reference = {rv}; sig {}", s.name, v, hex_short(&b)),
                                            json!({"scheme": s.name, "seed": hexs(&it.master), "t": t, "msg": hexs(m), "altered_sig": hexs(&b), "u": u}),
                                        );
                                    }
                                    ctx.nontrivial(fp_mix(fp(&b), u as u64));
                                }
                            }
                            let v = (s.verify)(&sig.bytes, t, &foreign_root, m);
                            let rv = ref_verify(s, &foreign_root, t, m, &sig.bytes);
                            ctx.eval();
                            ctx.count("foreign_key_cases");
                            if v.accepted() != rv {
                                ctx.violation(
                                    &format!("C12:{kind}:foreign-key:pallas={}:reference={}", v.short(), if rv { "accept" } else { "reject" }),
                                    &format!("{} period {t}: signature verified under an unrelated public key {}: pallas {:?}, reference {rv}", s.name, hexs(&foreign_root), v),
                                    replay_of(t, m),
                                );
                            }
                        }
                    }
                }
                // ---- evolution
                op.set("update");
                let r = key.update();
                ctx.eval();
                if t + 1 < total {
                    match r {
                        Ok(()) => ctx.count("updates_ok"),
                        Err(e) => {
                            ctx.violation(
                                &format!("C12:{kind}:update:refused-before-last-period"),
                                &format!("{} seed {}: update() at period {t} of {total} failed: {e}", s.name, hexs(&it.master)),
                                replay_of(t, b""),
                            );
                            return;
                        }
                    }
                } else {
                    match r {
                        Err(_) => {
                            ctx.count("updates_refused_at_last_period");
                            op.set("get_period");
                            let p = key.period();
                            if p != t {
                                ctx.violation(
                                    &format!("C12:{kind}:period-wrong-after-refused-update"),
                                    &format!("{}: refused update at the last period {t} left get_period() = {p}", s.name),
                                    replay_of(t, b""),
                                );
                            }
                            // the key must still be the period-t key
                            op.set("sign");
                            let m = b"after refused update";
                            let sig = key.sign(m);
                            op.set("verify");
                            let v = (s.verify)(&sig.bytes, t, &pk, m);
                            let rv = ref_verify(s, &root, t, m, &sig.bytes);
                            ctx.eval();
                            if !v.accepted() || !rv {
                                ctx.violation(
                                    &format!("C12:{kind}:key-damaged-by-refused-update"),
                                    &format!("{}: after the refused update at period {t} a fresh signature verifies: pallas {:?}, reference {rv}", s.name, v),
                                    replay_of(t, m),
                                );
                            }
                        }
                        Ok(()) => {
                            let p = key.period();
                            ctx.violation(
                                &format!("C12:{kind}:update:succeeded-at-last-period"),
                                &format!("{} seed {}: update() at the last period {t} returned Ok (period now {p})", s.name, hexs(&it.master)),
                                replay_of(t, b""),
                            );
                        }
                    }
                }
            }
            done.set(true);
        })
    });
    if let Err(p) = r {
        ctx.violation(
            &format!("panic:{}:{}", op.get(), p.site()),
            &format!("{} seed {}: {} panicked: {}", s.name, hexs(&it.master), op.get(), p.msg),
            json!({"scheme": s.name, "seed": hexs(&it.master), "t": 0, "msg": ""}),
        );
    }
    done.get()
}

fn main() {
    let mut ctx = Ctx::from_args("C12");
    let all = schemes();
    // the oracle must itself be pinned: cardano-base vectors + internal consistency
    match kesref::pin_against_haskell().and_then(|n| kesref::selftest().map(|_| n)) {
        Ok(n) => ctx.note("reference_model_pinned_to_cardano_base_vectors", json!(n)),
        Err(e) => {
            ctx.inconclusive(&format!("reference KES model could not be pinned: {e}"));
            ctx.finish();
        }
    }
    if let Some(p) = ctx.replay.clone() {
        let v: serde_json::Value = serde_json::from_slice(&std::fs::read(p).unwrap()).unwrap();
        let r = &v["replay"];
        let name = r["scheme"].as_str().unwrap();
        let s = all.iter().find(|s| s.name == name).expect("scheme");
        let mut master = [0u8; 32];
        master.copy_from_slice(&hex::decode(r["seed"].as_str().unwrap()).unwrap());
        let t = r["t"].as_u64().unwrap() as u32;
        let m = hex::decode(r["msg"].as_str().unwrap_or("")).unwrap();
        if let Some(a) = r.get("altered_sig").and_then(|x| x.as_str()) {
            let b = hex::decode(a).unwrap();
            let u = r["u"].as_u64().unwrap() as u32;
            let tree = Tree::build(&master, s.depth);
            println!("altered signature at period {u}: pallas {:?}, reference {}", (s.verify)(&b, u, &tree.root_vk(), &m), ref_verify(s, &tree.root_vk(), u, &m, &b));
        }
        run_item(&mut ctx, &Item { scheme: s, seed_idx: 0, master, chunk: 0, chunks: 1, msgs: vec![m], only_t: Some(t) });
        println!("replayed: violations={}", ctx.n_violations());
        ctx.finish();
    }
    let nseeds = ((if ctx.quick() { 5.0 } else { 50.0 }) * ctx.scale).ceil().max(1.0) as u64;
    let nmsgs = if ctx.quick() { 2 } else { 3 };
    let mut idx = 0u64;
    let mut complete = true;
    for si in 0..nseeds {
        let mut srng = Rng::derive(ctx.seed, "C12-seed", si);
        let master: [u8; 32] = match si {
            0 => srng.array(),
            1 if !ctx.quick() => [0u8; 32],
            2 if !ctx.quick() => [0xff; 32],
            _ => srng.array(),
        };
        let mut msgs: Vec<Vec<u8>> = vec![];
        for k in 0..nmsgs {
            let len = match k {
                0 => srng.usize_below(64) + 1,
                1 => 0,
                _ => srng.usize_below(600),
            };
            msgs.push(srng.bytes(len));
        }
        for s in all.iter() {
            // the verification matrix of deep trees is split over shards by period residue
            let chunks = match s.depth {
                7 => 8,
                6 => 4,
                5 => 2,
                _ => 1,
            };
            for c in 0..chunks {
                idx += 1;
                if !ctx.owns(idx) {
                    continue;
                }
                if !run_item(&mut ctx, &Item { scheme: s, seed_idx: si, master, chunk: c, chunks, msgs: msgs.clone(), only_t: None }) {
                    complete = false;
                }
                ctx.count("items_run");
            }
        }
    }
    ctx.note("seeds_per_scheme", json!(nseeds));
    ctx.note("messages_per_period", json!(nmsgs));
    // every (scheme, seed, message) that was run had all (t, t') pairs of its depth executed
    ctx.note("all_period_pairs_executed_for_every_depth_1_to_7", json!(complete));
    ctx.finish();
}
