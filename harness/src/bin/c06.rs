//! C06 — era ledger codecs are isomorphic on chain data and round-trip all values.
//!
//! (a) corpus: every block of test_data (*.block + the 3 immutable-DB chunk files, split with the
//!     own CBOR walker), every *.tx and *.header: typed per-era decode -> re-encode -> byte compare;
//!     MultiEraBlock::decode / MultiEraTx; every tx taken out of a block is re-encoded and compared
//!     with the bytes assembled from the own span tree, decoded again and re-encoded; headers are
//!     decoded stand-alone and re-encoded; every decoded body / witness set / auxiliary data is
//!     re-encoded *without* its KeepRaw shell, decoded again and compared with `==`.
//! (b) generated in-memory values of the era types (pv::eragen): encode -> (own parser: one
//!     well-formed item) -> decode (whole input consumed) -> `==`.
use pallas_codec::minicbor;
use pallas_primitives::{alonzo, babbage, byron, conway};
use pallas_traverse::{Era, MultiEraBlock, MultiEraHeader, MultiEraTx};
use pv::cbor::{self, Item};
use pv::eragen::G;
use pv::*;
use std::collections::{BTreeMap, BTreeSet};
use std::fmt::Debug;

// ------------------------------------------------------------------------------------------
// Debug-string tools: variant coverage and "where do two values differ"
// ------------------------------------------------------------------------------------------

/// identifiers (outside string literals) of a Debug rendering, plus `field=Some` / `field=None`
fn debug_labels(s: &str, out: &mut BTreeSet<String>) {
    let b = s.as_bytes();
    let mut i = 0;
    let mut last_field: Option<String> = None;
    while i < b.len() {
        let c = b[i];
        if c == b'"' {
            i += 1;
            while i < b.len() && b[i] != b'"' {
                if b[i] == b'\\' {
                    i += 1;
                }
                i += 1;
            }
            i += 1;
            continue;
        }
        if c.is_ascii_alphabetic() || c == b'_' {
            let st = i;
            while i < b.len() && (b[i].is_ascii_alphanumeric() || b[i] == b'_') {
                i += 1;
            }
            let id = &s[st..i];
            if i < b.len() && b[i] == b':' {
                if c.is_ascii_uppercase() {
                    // enum variant used as a map key, e.g. {PlutusV1: [..]}
                    out.insert(id.to_string());
                }
                last_field = Some(id.to_string());
            } else if id == "Some" || id == "None" {
                if let Some(f) = last_field.take() {
                    out.insert(format!("{f}={id}"));
                }
            } else {
                if c.is_ascii_uppercase() {
                    out.insert(id.to_string());
                }
                last_field = None;
            }
            continue;
        }
        if !(c == b' ' || c == b':') {
            last_field = None;
        }
        i += 1;
    }
}

/// innermost `Type.field` that encloses the first difference of two Debug renderings
fn diff_path(a: &str, b: &str) -> String {
    let (x, y) = (a.as_bytes(), b.as_bytes());
    let mut n = 0;
    while n < x.len() && n < y.len() && x[n] == y[n] {
        n += 1;
    }
    // (name, current field) per open bracket
    let mut stack: Vec<(String, String)> = vec![];
    let mut last_ident = String::new();
    let mut top_field = String::new();
    let mut i = 0;
    while i < n {
        let c = x[i];
        if c == b'"' {
            i += 1;
            while i < n && x[i] != b'"' {
                if x[i] == b'\\' {
                    i += 1;
                }
                i += 1;
            }
            i += 1;
            continue;
        }
        if c.is_ascii_alphabetic() || c == b'_' {
            let st = i;
            while i < x.len() && (x[i].is_ascii_alphanumeric() || x[i] == b'_') {
                i += 1;
            }
            if i > n {
                // the difference is inside this identifier (e.g. a variant name): belongs to the enclosing frame
                break;
            }
            last_ident = a[st..i].to_string();
            continue;
        }
        match c {
            b'{' | b'(' | b'[' => {
                stack.push((std::mem::take(&mut last_ident), String::new()));
            }
            b'}' | b')' | b']' => {
                stack.pop();
                last_ident.clear();
            }
            b':' => {
                if let Some(t) = stack.last_mut() {
                    t.1 = std::mem::take(&mut last_ident);
                } else {
                    top_field = std::mem::take(&mut last_ident);
                }
            }
            b',' => last_ident.clear(),
            b' ' => {}
            _ => last_ident.clear(),
        }
        i += 1;
    }
    for (name, field) in stack.iter().rev() {
        if name.chars().next().map(|c| c.is_ascii_uppercase()).unwrap_or(false) && name != "Some" {
            return if field.is_empty() { name.clone() } else { format!("{name}.{field}") };
        }
    }
    if top_field.is_empty() {
        "top".to_string()
    } else {
        top_field
    }
}

// ------------------------------------------------------------------------------------------
// (b) generated values
// ------------------------------------------------------------------------------------------

struct Cov {
    seen: BTreeMap<&'static str, BTreeSet<String>>,
}

/// wrapper for codec types without `PartialEq`: equality of the Debug forms
#[derive(Debug)]
struct DbgEq<T>(T);
impl<T: Debug> PartialEq for DbgEq<T> {
    fn eq(&self, o: &Self) -> bool {
        format!("{:?}", self.0) == format!("{:?}", o.0)
    }
}
impl<C, T: minicbor::Encode<C>> minicbor::Encode<C> for DbgEq<T> {
    fn encode<W: minicbor::encode::Write>(&self, e: &mut minicbor::Encoder<W>, ctx: &mut C) -> Result<(), minicbor::encode::Error<W::Error>> {
        self.0.encode(e, ctx)
    }
}
impl<'b, C, T: minicbor::Decode<'b, C>> minicbor::Decode<'b, C> for DbgEq<T> {
    fn decode(d: &mut minicbor::Decoder<'b>, ctx: &mut C) -> Result<Self, minicbor::decode::Error> {
        Ok(DbgEq(T::decode(d, ctx)?))
    }
}

struct Runner {
    name: &'static str,
    expected: &'static [&'static str],
    run: fn(&mut Ctx, &mut Cov, &mut Rng, &Runner, u64),
}

fn rt_check<T>(ctx: &mut Ctx, cov: &mut Cov, me: &Runner, v: &T, case_seed: u64)
where
    T: minicbor::Encode<()> + for<'b> minicbor::Decode<'b, ()> + PartialEq + Debug,
{
    ctx.eval();
    ctx.count(&format!("values:{}", me.name));
    let name = me.name;
    let rep = json!({"kind":"value","type":name,"case_seed":case_seed});
    let dbg = format!("{v:?}");
    let short = |s: &str| if s.len() > 700 { format!("{}..", &s[..s.char_indices().map(|(i, _)| i).take_while(|i| *i <= 700).last().unwrap_or(0)]) } else { s.to_string() };
    let bytes = match pv::panics::catch(|| minicbor::to_vec(v).map_err(|e| e.to_string())) {
        Err(p) => {
            ctx.violation(&format!("panic:encode:{name}:{}", p.site()), &format!("encoding {} panicked: {}", short(&dbg), p.msg), rep);
            return;
        }
        Ok(Err(e)) => {
            ctx.violation(&format!("value:{name}:encode-error"), &format!("encoding {} failed: {e}", short(&dbg)), rep);
            return;
        }
        Ok(Ok(b)) => b,
    };
    if let Err(e) = cbor::parse(&bytes) {
        ctx.violation(
            &format!("value:{name}:malformed-encoding"),
            &format!("{} encodes to {} which is not exactly one well-formed CBOR item ({e:?})", short(&dbg), hex_short(&bytes)),
            rep,
        );
        return;
    }
    let dec = pv::panics::catch(|| {
        let mut d = minicbor::Decoder::new(&bytes);
        let r: Result<T, _> = d.decode();
        (r.map_err(|e| e.to_string()), d.position())
    });
    match dec {
        Err(p) => ctx.violation(&format!("panic:decode:{name}:{}", p.site()), &format!("decoding {} panicked: {}", hex_short(&bytes), p.msg), rep),
        Ok((Err(e), _)) => {
            let mut labels = BTreeSet::new();
            debug_labels(&dbg, &mut labels);
            let cls = me.expected.iter().find(|l| labels.contains(**l)).copied().unwrap_or("-");
            ctx.violation(&format!("value:{name}:own-encoding-rejected:{cls}"), &format!("{} encodes to {} which the decoder rejects: {e}", short(&dbg), hex_short(&bytes)), rep)
        }
        Ok((Ok(back), pos)) => {
            if pos != bytes.len() {
                ctx.violation(&format!("value:{name}:decoder-left-bytes"), &format!("decoder consumed {pos} of {} bytes of {}", bytes.len(), hex_short(&bytes)), rep.clone());
            }
            if back != *v {
                let d2 = format!("{back:?}");
                let at = diff_path(&dbg, &d2);
                ctx.violation(
                    &format!("value:roundtrip-differs:at={at}"),
                    &format!("{name}: {} encodes to {} and decodes to {}", short(&dbg), hex_short(&bytes), short(&d2)),
                    rep,
                );
            } else {
                ctx.count("values_roundtrip_equal");
                // coverage is recorded from the value that came back
                let mut labels = BTreeSet::new();
                debug_labels(&format!("{back:?}"), &mut labels);
                let set = cov.seen.entry(name).or_default();
                for l in me.expected {
                    if labels.contains(*l) && set.insert(l.to_string()) {
                        ctx.set_insert("variants_seen", &format!("{name}/{l}"));
                    }
                }
                if bytes.len() > 1 {
                    ctx.nontrivial(fp_mix(fp(name.as_bytes()), fp(&bytes)));
                }
                // restyled read: the same data item with some containers flipped definite <-> indefinite
                // (a form chain data may take). If the decoder accepts it, it must read the same content:
                // all bytes consumed and the re-encoding equal to the original up to encoding style.
                if case_seed % 4 == 0 && bytes.len() > 1 {
                    restyled_read::<T>(ctx, name, &bytes, case_seed);
                }
                if ctx.want_sample() && bytes.len() > 8 && bytes.len() < 120 {
                    ctx.sample(json!({"type": name, "value": short(&dbg), "cbor": hexs(&bytes)}));
                }
            }
        }
    }
}

fn count_containers(n: &cbor::Node) -> usize {
    use cbor::Node::*;
    match n {
        Array(xs, _) | ArrayIndef(xs) => 1 + xs.iter().map(count_containers).sum::<usize>(),
        Map(xs, _) | MapIndef(xs) => 1 + xs.iter().map(|(k, v)| count_containers(k) + count_containers(v)).sum::<usize>(),
        Tag(_, _, x) => count_containers(x),
        _ => 0,
    }
}

/// flips the `target`-th container (pre-order) definite <-> indefinite; returns the descriptor of what was flipped
fn flip_nth(n: &cbor::Node, counter: &mut usize, target: usize, parent_tag: Option<u64>, descr: &mut Option<String>) -> cbor::Node {
    use cbor::Node::*;
    let d = |kind: &str, len: usize, to: &str| {
        let l = if len >= 3 { "3+".to_string() } else { len.to_string() };
        match parent_tag {
            Some(t) => format!("tag{t}>{kind}{l}->{to}"),
            None => format!("{kind}{l}->{to}"),
        }
    };
    match n {
        Array(xs, w) => {
            let me = *counter;
            *counter += 1;
            let ys: Vec<_> = xs.iter().map(|x| flip_nth(x, counter, target, None, descr)).collect();
            if me == target {
                *descr = Some(d("array", xs.len(), "indef"));
                ArrayIndef(ys)
            } else {
                Array(ys, *w)
            }
        }
        ArrayIndef(xs) => {
            let me = *counter;
            *counter += 1;
            let ys: Vec<_> = xs.iter().map(|x| flip_nth(x, counter, target, None, descr)).collect();
            if me == target {
                *descr = Some(d("array", xs.len(), "def"));
                Array(ys, 0)
            } else {
                ArrayIndef(ys)
            }
        }
        Map(xs, w) => {
            let me = *counter;
            *counter += 1;
            let ys: Vec<_> = xs.iter().map(|(k, v)| (flip_nth(k, counter, target, None, descr), flip_nth(v, counter, target, None, descr))).collect();
            if me == target {
                *descr = Some(d("map", xs.len(), "indef"));
                MapIndef(ys)
            } else {
                Map(ys, *w)
            }
        }
        MapIndef(xs) => {
            let me = *counter;
            *counter += 1;
            let ys: Vec<_> = xs.iter().map(|(k, v)| (flip_nth(k, counter, target, None, descr), flip_nth(v, counter, target, None, descr))).collect();
            if me == target {
                *descr = Some(d("map", xs.len(), "def"));
                Map(ys, 0)
            } else {
                MapIndef(ys)
            }
        }
        Tag(t, w, x) => Tag(*t, *w, Box::new(flip_nth(x, counter, target, Some(*t), descr))),
        other => other.clone(),
    }
}

/// Restyled read: the type's own encoding with ONE container flipped definite <-> indefinite (a form
/// chain data may take: the ledger's decoders accept both framings for lists and maps). If the decoder
/// accepts it, it must have read the same content: all bytes consumed and the re-encoding equal to the
/// original up to encoding style. A refusal is only counted.
fn restyled_read<T>(ctx: &mut Ctx, name: &'static str, bytes: &[u8], case_seed: u64)
where
    T: minicbor::Encode<()> + for<'b> minicbor::Decode<'b, ()> + PartialEq + Debug,
{
    let Ok(it) = cbor::parse(bytes) else { return };
    let node = cbor::to_node(bytes, &it);
    let n = count_containers(&node);
    if n == 0 {
        return;
    }
    let mut rng = Rng::derive(case_seed, "c06-restyle", 0);
    let target = rng.usize_below(n);
    let mut descr = None;
    let mut counter = 0;
    let restyled = flip_nth(&node, &mut counter, target, None, &mut descr);
    let Some(descr) = descr else { return };
    let b2 = restyled.to_vec();
    ctx.count("restyled_reads");
    // containers directly under a tag are attributed to the tag (the inner type), others to the generated type
    let owner = if descr.starts_with("tag") { "*" } else { name };
    let rep = json!({"kind":"restyled","type":name,"case_seed":case_seed,"cbor":hexs(&b2),"flipped":descr});
    let dec = pv::panics::catch(|| {
        let mut d = minicbor::Decoder::new(&b2);
        let r: Result<T, _> = d.decode();
        (r.map(|v| minicbor::to_vec(&v).map_err(|e| e.to_string())).map_err(|e| e.to_string()), d.position())
    });
    match dec {
        Err(p) => ctx.violation(&format!("panic:decode-restyled:{}", p.site()), &format!("decoding {} ({name} with {descr}) panicked: {}", hex_short(&b2), p.msg), rep),
        Ok((Err(_), _)) => ctx.count("restyled_rejected"),
        Ok((Ok(Err(e)), _)) => ctx.violation(&format!("restyled:reencode-error:{owner}:{descr}"), &format!("value decoded from {} cannot be encoded: {e}", hex_short(&b2)), rep),
        Ok((Ok(Ok(re)), pos)) => {
            ctx.eval();
            if pos != b2.len() {
                ctx.violation(
                    &format!("restyled:decoder-left-bytes:{owner}:{descr}"),
                    &format!("{name}: decoder accepted {} ({descr}) but consumed only {pos} of {} bytes (the item is mis-framed: what follows would be read from inside it)", hex_short(&b2), b2.len()),
                    rep,
                );
                return;
            }
            let same = match cbor::parse(&re) {
                Ok(it2) => cbor::canon(&cbor::to_node(&re, &it2)) == cbor::canon(&node),
                Err(_) => false,
            };
            if !same {
                ctx.violation(&format!("restyled:content-differs:{owner}:{descr}"), &format!("{name}: {} ({descr} of {}) is accepted but re-encodes to {}, a different data item", hex_short(&b2), hex_short(bytes), hex_short(&re)), rep);
            } else {
                ctx.count("restyled_same_content");
                ctx.nontrivial(fp_mix(fp(name.as_bytes()), fp(&b2)));
            }
        }
    }
}

macro_rules! runner {
    ($name:literal, $ty:ty, [$($e:literal),*], $gen:expr) => {
        Runner {
            name: $name,
            expected: &[$($e),*],
            run: |ctx, cov, rng, me, case_seed| {
                let v: $ty = {
                    let mut g = G::new(rng);
                    let f: fn(&mut G) -> $ty = $gen;
                    f(&mut g)
                };
                rt_check::<$ty>(ctx, cov, me, &v, case_seed);
            },
        }
    };
}

fn runners() -> Vec<Runner> {
    vec![
        runner!("Metadatum", pallas_primitives::Metadatum, ["Int", "Bytes", "Text", "Array", "Map", "Def", "Indef"], |g| {
            let d = g.r.usize_below(5);
            g.metadatum(d)
        }),
        runner!("Metadata", pallas_primitives::Metadata, ["Int", "Bytes", "Text", "Array", "Map"], |g| g.metadata()),
        runner!("alonzo::AuxiliaryData", alonzo::AuxiliaryData, ["Shelley", "ShelleyMa", "PostAlonzo", "metadata=Some", "metadata=None", "native_scripts=Some", "plutus_scripts=Some", "auxiliary_scripts=Some", "auxiliary_scripts=None"], |g| g.aux_data()),
        runner!("NativeScript", alonzo::NativeScript, ["ScriptPubkey", "ScriptAll", "ScriptAny", "ScriptNOfK", "InvalidBefore", "InvalidHereafter"], |g| {
            let d = g.r.usize_below(4);
            g.native_script(d)
        }),
        runner!("Relay", pallas_primitives::Relay, ["SingleHostAddr", "SingleHostName", "MultiHostName"], |g| g.relay()),
        runner!("RationalNumber", pallas_primitives::RationalNumber, [], |g| g.rational()),
        runner!("PoolMetadata", pallas_primitives::PoolMetadata, [], |g| g.pool_metadata()),
        runner!("Nonce", pallas_primitives::Nonce, ["NeutralNonce", "hash=Some", "hash=None"], |g| g.nonce()),
        runner!("StakeCredential", pallas_primitives::StakeCredential, ["AddrKeyhash", "ScriptHash"], |g| g.stake_cred()),
        runner!("TransactionInput", pallas_primitives::TransactionInput, [], |g| g.tx_input()),
        runner!("ExUnits", pallas_primitives::ExUnits, [], |g| g.ex_units()),
        runner!("ExUnitPrices", pallas_primitives::ExUnitPrices, [], |g| g.ex_unit_prices()),
        runner!("NetworkId", pallas_primitives::NetworkId, ["Testnet", "Mainnet"], |g| g.network_id()),
        runner!("VrfCert", pallas_primitives::VrfCert, [], |g| g.vrf_cert()),
        runner!("alonzo::Value", alonzo::Value, ["Coin", "Multiasset"], |g| g.alonzo_value()),
        runner!("alonzo::Mint", alonzo::Mint, [], |g| g.alonzo_mint()),
        runner!("alonzo::TransactionOutput", alonzo::TransactionOutput, ["Coin", "Multiasset", "datum_hash=Some", "datum_hash=None"], |g| g.alonzo_tx_output()),
        runner!("alonzo::MoveInstantaneousReward", alonzo::MoveInstantaneousReward, ["Reserves", "Treasury", "StakeCredentials", "OtherAccountingPot"], |g| g.mir()),
        runner!(
            "alonzo::Certificate",
            alonzo::Certificate,
            ["StakeRegistration", "StakeDeregistration", "StakeDelegation", "PoolRegistration", "PoolRetirement", "GenesisKeyDelegation", "MoveInstantaneousRewardsCert", "pool_metadata=Some", "pool_metadata=None"],
            |g| g.alonzo_cert()
        ),
        runner!("alonzo::CostModels", alonzo::CostModels, ["PlutusV1"], |g| g.alonzo_cost_models()),
        runner!(
            "alonzo::ProtocolParamUpdate",
            alonzo::ProtocolParamUpdate,
            [
                "minfee_a=Some", "minfee_b=Some", "max_block_body_size=Some", "max_transaction_size=Some", "max_block_header_size=Some", "key_deposit=Some", "pool_deposit=Some",
                "maximum_epoch=Some", "desired_number_of_stake_pools=Some", "pool_pledge_influence=Some", "expansion_rate=Some", "treasury_growth_rate=Some",
                "decentralization_constant=Some", "extra_entropy=Some", "protocol_version=Some", "min_pool_cost=Some", "ada_per_utxo_byte=Some",
                "cost_models_for_script_languages=Some", "execution_costs=Some", "max_tx_ex_units=Some", "max_block_ex_units=Some", "max_value_size=Some",
                "collateral_percentage=Some", "max_collateral_inputs=Some"
            ],
            |g| g.alonzo_ppu()
        ),
        runner!("alonzo::Update", alonzo::Update, [], |g| g.alonzo_update()),
        runner!(
            "alonzo::TransactionBody",
            alonzo::TransactionBody,
            [
                "ttl=Some", "certificates=Some", "withdrawals=Some", "update=Some", "auxiliary_data_hash=Some", "validity_interval_start=Some", "mint=Some", "script_data_hash=Some",
                "collateral=Some", "required_signers=Some", "network_id=Some"
            ],
            |g| g.alonzo_tx_body()
        ),
        runner!("alonzo::Redeemer", alonzo::Redeemer, ["Spend", "Mint", "Cert", "Reward"], |g| g.alonzo_redeemer()),
        runner!("alonzo::Header", alonzo::Header, ["prev_hash=Some", "prev_hash=None"], |g| g.alonzo_header()),
        runner!("VKeyWitness", alonzo::VKeyWitness, [], |g| g.vkey_witness()),
        runner!("BootstrapWitness", alonzo::BootstrapWitness, [], |g| g.bootstrap_witness()),
        runner!("babbage::CostModels", babbage::CostModels, ["plutus_v1=Some", "plutus_v2=Some"], |g| g.babbage_cost_models()),
        runner!(
            "babbage::ProtocolParamUpdate",
            babbage::ProtocolParamUpdate,
            [
                "minfee_a=Some", "minfee_b=Some", "max_block_body_size=Some", "max_transaction_size=Some", "max_block_header_size=Some", "key_deposit=Some", "pool_deposit=Some",
                "maximum_epoch=Some", "desired_number_of_stake_pools=Some", "pool_pledge_influence=Some", "expansion_rate=Some", "treasury_growth_rate=Some", "protocol_version=Some",
                "min_pool_cost=Some", "ada_per_utxo_byte=Some", "cost_models_for_script_languages=Some", "execution_costs=Some", "max_tx_ex_units=Some", "max_block_ex_units=Some",
                "max_value_size=Some", "collateral_percentage=Some", "max_collateral_inputs=Some"
            ],
            |g| g.babbage_ppu()
        ),
        runner!("babbage::Update", babbage::Update, [], |g| g.babbage_update()),
        runner!("babbage::Header", babbage::Header, ["prev_hash=Some", "prev_hash=None"], |g| g.babbage_header()),
        runner!("conway::Value", conway::Value, ["Coin", "Multiasset"], |g| g.conway_value()),
        runner!("conway::Mint", conway::Mint, [], |g| g.conway_mint()),
        runner!("conway::DRep", conway::DRep, ["Key", "Script", "Abstain", "NoConfidence"], |g| g.drep()),
        runner!("conway::Voter", conway::Voter, ["ConstitutionalCommitteeKey", "ConstitutionalCommitteeScript", "DRepKey", "DRepScript", "StakePoolKey"], |g| g.voter()),
        runner!("conway::Anchor", conway::Anchor, [], |g| g.anchor()),
        runner!("conway::GovActionId", conway::GovActionId, [], |g| g.gov_action_id()),
        runner!("conway::VotingProcedure", conway::VotingProcedure, ["No", "Yes", "Abstain", "anchor=Some", "anchor=None"], |g| g.voting_procedure()),
        runner!("conway::VotingProcedures", conway::VotingProcedures, ["ConstitutionalCommitteeKey", "ConstitutionalCommitteeScript", "DRepKey", "DRepScript", "StakePoolKey"], |g| g.voting_procedures()),
        runner!(
            "conway::Certificate",
            conway::Certificate,
            [
                "StakeRegistration", "StakeDeregistration", "StakeDelegation", "PoolRegistration", "PoolRetirement", "Reg", "UnReg", "VoteDeleg", "StakeVoteDeleg", "StakeRegDeleg",
                "VoteRegDeleg", "StakeVoteRegDeleg", "AuthCommitteeHot", "ResignCommitteeCold", "RegDRepCert", "UnRegDRepCert", "UpdateDRepCert", "pool_metadata=Some", "pool_metadata=None"
            ],
            |g| g.conway_cert()
        ),
        runner!("conway::CertificateSet", pallas_primitives::NonEmptySet<conway::Certificate>, [], |g| g.cert_set()),
        runner!("conway::CostModels", conway::CostModels, ["plutus_v1=Some", "plutus_v2=Some", "plutus_v3=Some"], |g| g.conway_cost_models(false)),
        runner!("conway::CostModels+unknown", conway::CostModels, [], |g| g.conway_cost_models(true)),
        runner!("conway::PoolVotingThresholds", conway::PoolVotingThresholds, [], |g| g.pool_voting_thresholds()),
        runner!("conway::DRepVotingThresholds", conway::DRepVotingThresholds, [], |g| g.drep_voting_thresholds()),
        runner!(
            "conway::ProtocolParamUpdate",
            conway::ProtocolParamUpdate,
            [
                "minfee_a=Some", "minfee_b=Some", "max_block_body_size=Some", "max_transaction_size=Some", "max_block_header_size=Some", "key_deposit=Some", "pool_deposit=Some",
                "maximum_epoch=Some", "desired_number_of_stake_pools=Some", "pool_pledge_influence=Some", "expansion_rate=Some", "treasury_growth_rate=Some", "min_pool_cost=Some",
                "ada_per_utxo_byte=Some", "cost_models_for_script_languages=Some", "execution_costs=Some", "max_tx_ex_units=Some", "max_block_ex_units=Some", "max_value_size=Some",
                "collateral_percentage=Some", "max_collateral_inputs=Some", "pool_voting_thresholds=Some", "drep_voting_thresholds=Some", "min_committee_size=Some",
                "committee_term_limit=Some", "governance_action_validity_period=Some", "governance_action_deposit=Some", "drep_deposit=Some", "drep_inactivity_period=Some",
                "minfee_refscript_cost_per_byte=Some"
            ],
            |g| g.conway_ppu()
        ),
        runner!("conway::Update", conway::Update, [], |g| g.conway_update()),
        runner!("conway::Constitution", conway::Constitution, ["guardrail_script=Some", "guardrail_script=None"], |g| g.constitution()),
        runner!(
            "conway::GovAction",
            conway::GovAction,
            ["ParameterChange", "HardForkInitiation", "TreasuryWithdrawals", "NoConfidence", "UpdateCommittee", "NewConstitution", "Information"],
            |g| g.gov_action()
        ),
        runner!(
            "conway::ProposalProcedure",
            conway::ProposalProcedure,
            ["ParameterChange", "HardForkInitiation", "TreasuryWithdrawals", "NoConfidence", "UpdateCommittee", "NewConstitution", "Information"],
            |g| g.proposal_procedure()
        ),
        runner!("conway::ProposalSet", pallas_primitives::NonEmptySet<conway::ProposalProcedure>, [], |g| g.proposal_set()),
        runner!("conway::Redeemers", conway::Redeemers, ["List", "Map", "Spend", "Mint", "Cert", "Reward", "Vote", "Propose"], |g| g.conway_redeemers()),
        runner!("conway::ExUnitPrices", conway::ExUnitPrices, [], |g| g.conway_ex_unit_prices()),
        runner!("conway::RequiredSigners", conway::RequiredSigners, [], |g| g.required_signers()),
        runner!("byron::Address", byron::Address, [], |g| g.byron_address()),
        runner!("byron::TxIn", byron::TxIn, ["Variant0", "Other"], |g| g.byron_txin()),
        runner!("byron::TxOut", byron::TxOut, [], |g| g.byron_txout()),
        runner!("byron::Twit", DbgEq<byron::Twit>, ["PkWitness", "ScriptWitness", "RedeemWitness", "Other"], |g| DbgEq(g.byron_twit())),
        runner!("byron::Tx", byron::Tx, ["Def", "Indef", "Variant0", "Other"], |g| g.byron_tx()),
    ]
}

// ------------------------------------------------------------------------------------------
// (a) corpus
// ------------------------------------------------------------------------------------------

fn span(it: &Item) -> (usize, usize) {
    (it.start, it.end)
}

struct Spans {
    era: u64,
    header: (usize, usize),
    bodies: Vec<(usize, usize)>,
    wits: Vec<(usize, usize)>,
    aux: BTreeMap<u64, (usize, usize)>,
    invalid: Vec<u64>,
    byron_payloads: Vec<(usize, usize)>,
}

/// structure of a wrapped block `[era, block]` from the own parser
fn block_spans(src: &[u8]) -> Option<Spans> {
    let top = cbor::parse(src).ok()?;
    if !top.is_array() || top.children.len() != 2 || !top.children[0].is_uint() {
        return None;
    }
    let era = top.children[0].arg;
    let blk = &top.children[1];
    if !blk.is_array() || blk.children.is_empty() {
        return None;
    }
    let mut s = Spans { era, header: span(&blk.children[0]), bodies: vec![], wits: vec![], aux: BTreeMap::new(), invalid: vec![], byron_payloads: vec![] };
    if era >= 2 {
        if blk.children.len() < 4 {
            return None;
        }
        s.bodies = blk.children[1].children.iter().map(span).collect();
        s.wits = blk.children[2].children.iter().map(span).collect();
        for (k, v) in blk.children[3].map_entries() {
            s.aux.insert(k.arg, span(v));
        }
        if blk.children.len() > 4 {
            s.invalid = blk.children[4].children.iter().map(|c| c.arg).collect();
        }
    } else if era == 1 {
        let body = blk.children.get(1)?;
        s.byron_payloads = body.children.first()?.children.iter().map(span).collect();
    }
    Some(s)
}

fn era_label(tag: u64) -> &'static str {
    match tag {
        0 => "byron-ebb",
        1 => "byron",
        2 => "shelley",
        3 => "allegra",
        4 => "mary",
        5 => "alonzo",
        6 => "babbage",
        7 => "conway",
        _ => "unknown",
    }
}

fn vio(ctx: &mut Ctx, sig: String, what: String, name: &str) {
    ctx.violation(&sig, &what, json!({"kind":"corpus","name":name}));
}

/// first differing offset of two byte strings
fn first_diff(a: &[u8], b: &[u8]) -> usize {
    a.iter().zip(b.iter()).position(|(x, y)| x != y).unwrap_or(a.len().min(b.len()))
}

macro_rules! part_checks {
    ($ctx:expr, $name:expr, $lab:expr, $part:literal, $ty:ty, $kept:expr, $span_bytes:expr) => {{
        let kept = $kept;
        $ctx.eval();
        $ctx.count(concat!("corpus_parts:", $part));
        if kept.raw_cbor() != $span_bytes {
            vio($ctx, format!("corpus:keepraw-not-original-span:{}:{}", $lab, $part), format!("{}: raw bytes kept for the {} differ from the span found by the own parser", $name, $part), $name);
        }
        let inner: &$ty = &*kept;
        match pv::panics::catch(|| minicbor::to_vec(inner).map_err(|e| e.to_string())) {
            Err(p) => vio($ctx, format!("panic:corpus-encode:{}:{}", $part, p.site()), format!("{}: encoding a decoded {} panicked: {}", $name, $part, p.msg), $name),
            Ok(Err(e)) => vio($ctx, format!("corpus:value-encode-error:{}:{}", $lab, $part), format!("{}: {e}", $name), $name),
            Ok(Ok(b2)) => {
                if b2 == kept.raw_cbor() {
                    $ctx.count(concat!("inner_reencode_identical:", $part));
                } else {
                    // observation only: KeepRaw exists because chain data may be non-canonical
                    let at = first_diff(&b2, kept.raw_cbor());
                    $ctx.count(&format!("inner_reencode_differs:{}:{}", $part, diff_class(kept.raw_cbor(), &b2, at)));
                }
                let back = pv::panics::catch(|| minicbor::decode::<$ty>(&b2).map_err(|e| e.to_string()));
                match back {
                    Err(p) => vio($ctx, format!("panic:corpus-decode:{}:{}", $part, p.site()), format!("{}: {}", $name, p.msg), $name),
                    Ok(Err(e)) => vio(
                        $ctx,
                        format!("corpus:own-encoding-rejected:{}:{}", $lab, $part),
                        format!("{}: a {} decoded from chain re-encodes (without KeepRaw) to {} which the decoder rejects: {e}", $name, $part, hex_short(&b2)),
                        $name,
                    ),
                    Ok(Ok(back)) => {
                        if back != *inner {
                            let at = diff_path(&format!("{inner:?}"), &format!("{back:?}"));
                            vio($ctx, format!("corpus:value-roundtrip-differs:at={at}"), format!("{}: {} decoded from chain, re-encoded and decoded again is a different value (at {at})", $name, $part), $name);
                        } else {
                            $ctx.count("corpus_values_roundtrip_equal");
                        }
                    }
                }
            }
        }
    }};
}

macro_rules! era_block_checks {
    ($ctx:expr, $m:ident, $name:expr, $bytes:expr, $sp:expr) => {{
        let bytes: &[u8] = $bytes;
        let sp: &Spans = $sp;
        let lab = era_label(sp.era);
        let mut typed_ok = true;
        $ctx.eval();
        let r = pv::panics::catch(|| minicbor::decode::<(u16, $m::Block)>(bytes).map_err(|e| e.to_string()));
        match r {
            Err(p) => vio($ctx, format!("panic:corpus-decode:block:{}", p.site()), format!("{}: {}", $name, p.msg), $name),
            Ok(Err(e)) => {
                typed_ok = false;
                vio($ctx, format!("corpus:block-decode-error:{lab}:{}", pv::panics::msg_class(&e)), format!("{}: typed decode of an on-chain {lab} block failed: {e}", $name), $name)
            }
            Ok(Ok((tag, block))) => {
                $ctx.count(&format!("blocks_decoded:{lab}"));
                match pv::panics::catch(|| minicbor::to_vec(&(tag, &block)).map_err(|e| e.to_string())) {
                    Err(p) => vio($ctx, format!("panic:corpus-encode:block:{}", p.site()), format!("{}: {}", $name, p.msg), $name),
                    Ok(Err(e)) => vio($ctx, format!("corpus:block-encode-error:{lab}"), format!("{}: {e}", $name), $name),
                    Ok(Ok(re)) => {
                        if re != bytes {
                            let at = first_diff(&re, bytes);
                            let cls = diff_class(bytes, &re, at);
                            vio($ctx, format!("corpus:block-reencode-differs:{lab}:{cls}"), format!("{}: re-encoded block differs from the chain bytes at offset {at} ({cls}; chain {} / re-encoded {})", $name, hex_short(&bytes[at..(at + 12).min(bytes.len())]), hex_short(&re[at..(at + 12).min(re.len())])), $name);
                        } else {
                            $ctx.count("blocks_reencoded_identical");
                        }
                    }
                }
                // header alone (no KeepRaw inside: a genuine re-encoding)
                let hb = &bytes[sp.header.0..sp.header.1];
                $ctx.eval();
                match pv::panics::catch(|| minicbor::decode::<$m::Header>(hb).map_err(|e| e.to_string())) {
                    Err(p) => vio($ctx, format!("panic:corpus-decode:header:{}", p.site()), format!("{}: {}", $name, p.msg), $name),
                    Ok(Err(e)) => vio($ctx, format!("corpus:header-decode-error:{lab}"), format!("{}: {e}", $name), $name),
                    Ok(Ok(h)) => {
                        let re = minicbor::to_vec(&h).unwrap_or_default();
                        if re != hb {
                            vio($ctx, format!("corpus:header-reencode-differs:{lab}"), format!("{}: header re-encodes to {} instead of {}", $name, hex_short(&re), hex_short(hb)), $name);
                        } else {
                            $ctx.count("headers_reencoded_identical");
                        }
                        if h != *block.header {
                            vio($ctx, format!("corpus:header-value-differs:{lab}"), format!("{}: header decoded alone differs from the header inside the block", $name), $name);
                        }
                    }
                }
                if block.transaction_bodies.len() != sp.bodies.len() || block.transaction_witness_sets.len() != sp.wits.len() || block.auxiliary_data_set.len() != sp.aux.len() {
                    vio($ctx, format!("corpus:part-count-differs:{lab}"), format!("{}: number of bodies / witness sets / aux data differs from the own parse", $name), $name);
                } else {
                    for (i, kb) in block.transaction_bodies.iter().enumerate() {
                        part_checks!($ctx, $name, lab, "tx-body", $m::TransactionBody, kb, &bytes[sp.bodies[i].0..sp.bodies[i].1]);
                    }
                    for (i, kw) in block.transaction_witness_sets.iter().enumerate() {
                        part_checks!($ctx, $name, lab, "witness-set", $m::WitnessSet, kw, &bytes[sp.wits[i].0..sp.wits[i].1]);
                    }
                    for (idx, ka) in block.auxiliary_data_set.iter() {
                        if let Some(s) = sp.aux.get(&(*idx as u64)) {
                            part_checks!($ctx, $name, lab, "aux-data", $m::AuxiliaryData, ka, &bytes[s.0..s.1]);
                        }
                    }
                }
            }
        }
        typed_ok
    }};
}

/// what kind of difference starts at offset `at` (chain bytes vs re-encoding)
fn diff_class(orig: &[u8], re: &[u8], at: usize) -> &'static str {
    if at >= orig.len() || at >= re.len() {
        return "length";
    }
    let (o, r) = (orig[at], re[at]);
    if o == 0x9f && (r >> 5) == 4 {
        "indef-array-made-definite"
    } else if o == 0xbf && (r >> 5) == 5 {
        "indef-map-made-definite"
    } else if (o >> 5) == 4 && r == 0x9f {
        "definite-array-made-indef"
    } else if (o >> 5) == (r >> 5) && (o >> 5) <= 1 {
        "integer-head"
    } else if (o >> 5) == (r >> 5) {
        "same-major-type"
    } else {
        "other"
    }
}

fn expected_tx(bytes: &[u8], sp: &Spans, i: usize) -> Vec<u8> {
    let mut v = vec![0x84];
    v.extend_from_slice(&bytes[sp.bodies[i].0..sp.bodies[i].1]);
    v.extend_from_slice(&bytes[sp.wits[i].0..sp.wits[i].1]);
    v.push(if sp.invalid.contains(&(i as u64)) { 0xf4 } else { 0xf5 });
    match sp.aux.get(&(i as u64)) {
        Some(s) => v.extend_from_slice(&bytes[s.0..s.1]),
        None => v.push(0xf6),
    }
    v
}

fn check_block(ctx: &mut Ctx, name: &str, bytes: &[u8]) {
    let sp = match block_spans(bytes) {
        Some(s) => s,
        None => {
            ctx.count("corpus_not_a_wrapped_block");
            return;
        }
    };
    let lab = era_label(sp.era);
    ctx.set_insert("corpus_eras", lab);
    let mut typed_ok = true;
    match sp.era {
        0 => {
            ctx.eval();
            match pv::panics::catch(|| minicbor::decode::<(u16, byron::EbBlock)>(bytes).map_err(|e| e.to_string())) {
                Err(p) => vio(ctx, format!("panic:corpus-decode:block:{}", p.site()), format!("{name}: {}", p.msg), name),
                Ok(Err(e)) => vio(ctx, format!("corpus:block-decode-error:{lab}"), format!("{name}: {e}"), name),
                Ok(Ok((tag, b))) => {
                    ctx.count(&format!("blocks_decoded:{lab}"));
                    let re = minicbor::to_vec(&(tag, &b)).unwrap_or_default();
                    if re != bytes {
                        vio(ctx, format!("corpus:block-reencode-differs:{lab}"), format!("{name}: re-encoded block differs at offset {}", first_diff(&re, bytes)), name);
                    } else {
                        ctx.count("blocks_reencoded_identical");
                    }
                    let hb = &bytes[sp.header.0..sp.header.1];
                    if let Ok(h) = minicbor::decode::<byron::EbbHead>(hb) {
                        ctx.eval();
                        if minicbor::to_vec(&h).unwrap_or_default() != hb {
                            vio(ctx, format!("corpus:header-reencode-differs:{lab}"), format!("{name}: EBB header does not re-encode to its chain bytes"), name);
                        } else {
                            ctx.count("headers_reencoded_identical");
                        }
                    }
                }
            }
        }
        1 => {
            ctx.eval();
            match pv::panics::catch(|| minicbor::decode::<(u16, byron::Block)>(bytes).map_err(|e| e.to_string())) {
                Err(p) => vio(ctx, format!("panic:corpus-decode:block:{}", p.site()), format!("{name}: {}", p.msg), name),
                Ok(Err(e)) => vio(ctx, format!("corpus:block-decode-error:{lab}"), format!("{name}: {e}"), name),
                Ok(Ok((tag, b))) => {
                    ctx.count(&format!("blocks_decoded:{lab}"));
                    let re = minicbor::to_vec(&(tag, &b)).unwrap_or_default();
                    if re != bytes {
                        vio(ctx, format!("corpus:block-reencode-differs:{lab}"), format!("{name}: re-encoded block differs at offset {}", first_diff(&re, bytes)), name);
                    } else {
                        ctx.count("blocks_reencoded_identical");
                    }
                    let hb = &bytes[sp.header.0..sp.header.1];
                    ctx.eval();
                    match minicbor::decode::<byron::BlockHead>(hb) {
                        Ok(h) => {
                            if minicbor::to_vec(&h).unwrap_or_default() != hb {
                                vio(ctx, format!("corpus:header-reencode-differs:{lab}"), format!("{name}: header does not re-encode to its chain bytes"), name);
                            } else {
                                ctx.count("headers_reencoded_identical");
                            }
                        }
                        Err(e) => vio(ctx, format!("corpus:header-decode-error:{lab}"), format!("{name}: {e}"), name),
                    }
                    // byron txs: the inner Tx (PartialEq) re-encoded without KeepRaw
                    for (i, p) in b.body.tx_payload.iter().enumerate() {
                        ctx.eval();
                        ctx.count("corpus_parts:byron-tx");
                        let inner: &byron::Tx = &p.transaction;
                        let b2 = minicbor::to_vec(inner).unwrap_or_default();
                        if b2 == p.transaction.raw_cbor() {
                            ctx.count("inner_reencode_identical:byron-tx");
                        } else {
                            ctx.count("inner_reencode_differs:byron-tx");
                        }
                        match minicbor::decode::<byron::Tx>(&b2) {
                            Ok(back) if back == *inner => ctx.count("corpus_values_roundtrip_equal"),
                            Ok(back) => {
                                let at = diff_path(&format!("{inner:?}"), &format!("{back:?}"));
                                vio(ctx, format!("corpus:value-roundtrip-differs:at={at}"), format!("{name}: byron tx {i} re-encoded and decoded again differs"), name)
                            }
                            Err(e) => vio(ctx, format!("corpus:own-encoding-rejected:{lab}:byron-tx"), format!("{name}: tx {i}: {e}"), name),
                        }
                    }
                }
            }
        }
        2..=5 => typed_ok = era_block_checks!(ctx, alonzo, name, bytes, &sp),
        6 => typed_ok = era_block_checks!(ctx, babbage, name, bytes, &sp),
        7 => typed_ok = era_block_checks!(ctx, conway, name, bytes, &sp),
        _ => {
            ctx.count("corpus_unknown_era_tag");
            return;
        }
    }
    // through the multi-era front end
    ctx.eval();
    match pv::panics::catch(|| MultiEraBlock::decode(bytes).map_err(|e| e.to_string())) {
        Err(p) => vio(ctx, format!("panic:corpus-decode:multiera-block:{}", p.site()), format!("{name}: {}", p.msg), name),
        Ok(Err(e)) => {
            if typed_ok {
                vio(ctx, format!("corpus:multiera-block-decode-error:{lab}"), format!("{name}: the typed decoder accepts the block but MultiEraBlock::decode fails: {e}"), name)
            } else {
                // same failure as the typed decode reported above
                ctx.count("multiera_decode_failed_like_typed_decode");
            }
        }
        Ok(Ok(mb)) => {
            let want_era = match sp.era {
                0 | 1 => Era::Byron,
                2 => Era::Shelley,
                3 => Era::Allegra,
                4 => Era::Mary,
                5 => Era::Alonzo,
                6 => Era::Babbage,
                _ => Era::Conway,
            };
            if mb.era() != want_era {
                vio(ctx, format!("corpus:multiera-wrong-era:{lab}"), format!("{name}: MultiEraBlock::era() = {:?}", mb.era()), name);
            }
            let txs = mb.txs();
            let n_expected = if sp.era >= 2 { sp.bodies.len() } else { sp.byron_payloads.len() };
            if txs.len() != n_expected {
                vio(ctx, format!("corpus:tx-count-differs:{lab}"), format!("{name}: txs() has {} entries, own parse {}", txs.len(), n_expected), name);
                return;
            }
            if !txs.is_empty() {
                ctx.nontrivial(fp(bytes));
                ctx.count("blocks_with_txs");
            }
            for (i, tx) in txs.iter().enumerate() {
                ctx.eval();
                ctx.count("txs_in_blocks");
                let enc = match pv::panics::catch(|| tx.encode()) {
                    Ok(e) => e,
                    Err(p) => {
                        vio(ctx, format!("panic:corpus-encode:tx:{}", p.site()), format!("{name}: tx {i}: {}", p.msg), name);
                        continue;
                    }
                };
                let want = if sp.era >= 2 { expected_tx(bytes, &sp, i) } else { bytes[sp.byron_payloads[i].0..sp.byron_payloads[i].1].to_vec() };
                if enc != want {
                    vio(
                        ctx,
                        format!("corpus:tx-encode-differs:{lab}"),
                        format!("{name}: tx {i} encodes to bytes that differ (offset {}) from [body, witnesses, valid, aux] taken from the block", first_diff(&enc, &want)),
                        name,
                    );
                    continue;
                }
                match pv::panics::catch(|| MultiEraTx::decode_for_era(want_era, &enc).map(|t| t.encode()).map_err(|e| e.to_string())) {
                    Err(p) => vio(ctx, format!("panic:corpus-decode:tx:{}", p.site()), format!("{name}: tx {i}: {}", p.msg), name),
                    Ok(Err(e)) => vio(ctx, format!("corpus:tx-decode-error:{lab}"), format!("{name}: tx {i} encoded by the library is rejected by decode_for_era: {e}"), name),
                    Ok(Ok(re)) => {
                        if re != enc {
                            vio(ctx, format!("corpus:tx-reencode-differs:{lab}"), format!("{name}: tx {i} decode -> encode changes the bytes at offset {}", first_diff(&re, &enc)), name);
                        } else {
                            ctx.count("txs_reencoded_identical");
                        }
                    }
                }
            }
        }
    }
}

fn tx_era_from_name(name: &str) -> Option<Era> {
    let n = name.to_ascii_lowercase();
    for (p, e) in [
        ("byron", Era::Byron),
        ("shelley", Era::Shelley),
        ("allegra", Era::Allegra),
        ("mary", Era::Mary),
        ("alonzo", Era::Alonzo),
        ("babbage", Era::Babbage),
        ("conway", Era::Conway),
    ] {
        if n.starts_with(p) {
            return Some(e);
        }
    }
    None
}

fn check_tx_file(ctx: &mut Ctx, name: &str, bytes: &[u8]) {
    ctx.eval();
    ctx.count("tx_files");
    // era-less front end
    match pv::panics::catch(|| MultiEraTx::decode(bytes).map(|t| (t.era(), t.encode())).map_err(|e| e.to_string())) {
        Err(p) => vio(ctx, format!("panic:corpus-decode:tx-file:{}", p.site()), format!("{name}: {}", p.msg), name),
        Ok(Err(e)) => vio(ctx, "corpus:tx-file-decode-error:multiera".to_string(), format!("{name}: MultiEraTx::decode failed: {e}"), name),
        Ok(Ok((era, re))) => {
            ctx.set_insert("tx_file_eras", &format!("{era:?}"));
            if re != bytes {
                vio(ctx, "corpus:tx-file-reencode-differs:multiera".to_string(), format!("{name}: decoded as {era:?}, re-encoding differs at offset {}", first_diff(&re, bytes)), name);
            } else {
                ctx.count("tx_files_reencoded_identical");
                ctx.nontrivial(fp(bytes));
            }
        }
    }
    if let Some(era) = tx_era_from_name(name) {
        ctx.eval();
        match pv::panics::catch(|| MultiEraTx::decode_for_era(era, bytes).map(|t| t.encode()).map_err(|e| e.to_string())) {
            Err(p) => vio(ctx, format!("panic:corpus-decode:tx-file:{}", p.site()), format!("{name}: {}", p.msg), name),
            Ok(Err(e)) => vio(ctx, format!("corpus:tx-file-decode-error:{era:?}"), format!("{name}: decode_for_era({era:?}) failed: {e}"), name),
            Ok(Ok(re)) => {
                if re != bytes {
                    vio(ctx, format!("corpus:tx-file-reencode-differs:{era:?}"), format!("{name}: re-encoding differs at offset {}", first_diff(&re, bytes)), name);
                } else {
                    ctx.count("tx_files_reencoded_identical");
                }
            }
        }
    }
}

fn check_header_file(ctx: &mut Ctx, name: &str, bytes: &[u8]) {
    ctx.eval();
    ctx.count("header_files");
    macro_rules! hdr {
        ($ty:ty, $lab:literal) => {{
            match pv::panics::catch(|| minicbor::decode::<$ty>(bytes).map_err(|e| e.to_string())) {
                Err(p) => vio(ctx, format!("panic:corpus-decode:header:{}", p.site()), format!("{name}: {}", p.msg), name),
                Ok(Err(e)) => vio(ctx, format!("corpus:header-decode-error:{}", $lab), format!("{name}: {e}"), name),
                Ok(Ok(h)) => {
                    let re = minicbor::to_vec(&h).unwrap_or_default();
                    if re != bytes {
                        vio(ctx, format!("corpus:header-reencode-differs:{}", $lab), format!("{name}: header re-encodes differently at offset {}", first_diff(&re, bytes)), name);
                    } else {
                        ctx.count("headers_reencoded_identical");
                        ctx.nontrivial(fp(bytes));
                    }
                }
            }
        }};
    }
    let n = name.to_ascii_lowercase();
    if n.starts_with("byron") {
        hdr!(byron::BlockHead, "byron");
        if let Err(e) = MultiEraHeader::decode(0, Some(1), bytes) {
            vio(ctx, "corpus:header-decode-error:multiera".to_string(), format!("{name}: {e}"), name);
        }
    } else if n.starts_with("babbage") || n.starts_with("conway") {
        hdr!(babbage::Header, "babbage");
    } else {
        hdr!(alonzo::Header, "alonzo");
        if let Err(e) = MultiEraHeader::decode(4, None, bytes) {
            vio(ctx, "corpus:header-decode-error:multiera".to_string(), format!("{name}: {e}"), name);
        }
    }
}

fn corpus_items() -> Vec<(&'static str, corpus::Artefact)> {
    let mut v = vec![];
    for a in corpus::blocks() {
        v.push(("block", a));
    }
    for a in corpus::chunk_blocks() {
        v.push(("block", a));
    }
    for a in corpus::txs() {
        v.push(("tx", a));
    }
    for a in corpus::headers() {
        v.push(("header", a));
    }
    v
}

fn run_corpus_item(ctx: &mut Ctx, kind: &str, a: &corpus::Artefact) {
    match kind {
        "block" => check_block(ctx, &a.name, &a.bytes),
        "tx" => check_tx_file(ctx, &a.name, &a.bytes),
        _ => check_header_file(ctx, &a.name, &a.bytes),
    }
}

// ------------------------------------------------------------------------------------------
// (c) cross-era: what the pre-Conway codecs write for the shared part of the CDDL (they are
// anchored to the chain by the large alonzo/babbage corpus) is valid Conway chain data, so the
// Conway decoders have to read it as the same content. Catches codec changes that stay
// self-consistent (same change in Encode and Decode) in types the small Conway corpus never exercises.
// ------------------------------------------------------------------------------------------

fn cert_same(a: &alonzo::Certificate, c: &conway::Certificate) -> Option<&'static str> {
    use alonzo::Certificate as A;
    use conway::Certificate as C;
    let ok = match (a, c) {
        (A::StakeRegistration(x), C::StakeRegistration(y)) => x == y,
        (A::StakeDeregistration(x), C::StakeDeregistration(y)) => x == y,
        (A::StakeDelegation(x, p), C::StakeDelegation(y, q)) => x == y && p == q,
        (A::PoolRetirement(p, e), C::PoolRetirement(q, f)) => p == q && e == f,
        (
            A::PoolRegistration { operator, vrf_keyhash, pledge, cost, margin, reward_account, pool_owners, relays, pool_metadata },
            C::PoolRegistration { operator: o2, vrf_keyhash: v2, pledge: p2, cost: c2, margin: m2, reward_account: r2, pool_owners: po2, relays: rl2, pool_metadata: pm2 },
        ) => {
            if operator != o2 {
                return Some("PoolRegistration.operator");
            }
            if vrf_keyhash != v2 {
                return Some("PoolRegistration.vrf_keyhash");
            }
            if pledge != p2 {
                return Some("PoolRegistration.pledge");
            }
            if cost != c2 {
                return Some("PoolRegistration.cost");
            }
            if margin != m2 {
                return Some("PoolRegistration.margin");
            }
            if reward_account != r2 {
                return Some("PoolRegistration.reward_account");
            }
            if pool_owners != &**po2 {
                return Some("PoolRegistration.pool_owners");
            }
            if relays != rl2 {
                return Some("PoolRegistration.relays");
            }
            if pool_metadata != pm2 {
                return Some("PoolRegistration.pool_metadata");
            }
            true
        }
        _ => return Some("variant"),
    };
    if ok {
        None
    } else {
        Some("payload")
    }
}

fn value_same(a: &alonzo::Value, c: &conway::Value) -> bool {
    match (a, c) {
        (alonzo::Value::Coin(x), conway::Value::Coin(y)) => x == y,
        (alonzo::Value::Multiasset(x, m), conway::Value::Multiasset(y, n)) => {
            x == y
                && m.len() == n.len()
                && m.iter().zip(n.iter()).all(|((p, xs), (q, ys))| p == q && xs.len() == ys.len() && xs.iter().zip(ys.iter()).all(|((k, v), (l, w))| k == l && *v == u64::from(w)))
        }
        _ => false,
    }
}

fn mint_same(a: &alonzo::Mint, c: &conway::Mint) -> bool {
    a.len() == c.len() && a.iter().zip(c.iter()).all(|((p, xs), (q, ys))| p == q && xs.len() == ys.len() && xs.iter().zip(ys.iter()).all(|((k, v), (l, w))| k == l && *v == i64::from(w)))
}

fn ppu_diff(a: &babbage::ProtocolParamUpdate, c: &conway::ProtocolParamUpdate) -> Option<&'static str> {
    macro_rules! w {
        ($f:ident) => {
            if a.$f.map(u64::from) != c.$f {
                return Some(stringify!($f));
            }
        };
    }
    macro_rules! same {
        ($f:ident) => {
            if a.$f != c.$f {
                return Some(stringify!($f));
            }
        };
    }
    w!(minfee_a);
    w!(minfee_b);
    w!(max_block_body_size);
    w!(max_transaction_size);
    w!(max_block_header_size);
    same!(key_deposit);
    same!(pool_deposit);
    same!(maximum_epoch);
    w!(desired_number_of_stake_pools);
    same!(pool_pledge_influence);
    same!(expansion_rate);
    same!(treasury_growth_rate);
    same!(min_pool_cost);
    same!(ada_per_utxo_byte);
    same!(max_tx_ex_units);
    same!(max_block_ex_units);
    w!(max_value_size);
    w!(collateral_percentage);
    w!(max_collateral_inputs);
    match (&a.cost_models_for_script_languages, &c.cost_models_for_script_languages) {
        (None, None) => {}
        (Some(x), Some(y)) => {
            if x.plutus_v1 != y.plutus_v1 || x.plutus_v2 != y.plutus_v2 || y.plutus_v3.is_some() || !y.unknown.is_empty() {
                return Some("cost_models_for_script_languages");
            }
        }
        _ => return Some("cost_models_for_script_languages"),
    }
    match (&a.execution_costs, &c.execution_costs) {
        (None, None) => {}
        (Some(x), Some(y)) => {
            if x.mem_price != y.mem_price || x.step_price != y.step_price {
                return Some("execution_costs");
            }
        }
        _ => return Some("execution_costs"),
    }
    if c.pool_voting_thresholds.is_some()
        || c.drep_voting_thresholds.is_some()
        || c.min_committee_size.is_some()
        || c.committee_term_limit.is_some()
        || c.governance_action_validity_period.is_some()
        || c.governance_action_deposit.is_some()
        || c.drep_deposit.is_some()
        || c.drep_inactivity_period.is_some()
        || c.minfee_refscript_cost_per_byte.is_some()
    {
        return Some("conway-only-field-populated");
    }
    None
}

fn old_cert(g: &mut G) -> alonzo::Certificate {
    loop {
        let c = g.alonzo_cert();
        if !matches!(c, alonzo::Certificate::GenesisKeyDelegation(..) | alonzo::Certificate::MoveInstantaneousRewardsCert(..)) {
            return c;
        }
    }
}
fn positive_value(g: &mut G) -> alonzo::Value {
    match g.alonzo_value() {
        alonzo::Value::Multiasset(c, m) => alonzo::Value::Multiasset(c, m.into_iter().map(|(p, xs)| (p, xs.into_iter().map(|(k, v)| (k, v.max(1))).collect())).collect()),
        v => v,
    }
}
fn nonzero_mint(g: &mut G) -> alonzo::Mint {
    g.alonzo_mint().into_iter().map(|(p, xs)| (p, xs.into_iter().map(|(k, v)| (k, if v == 0 { 1 } else { v })).collect())).collect()
}

fn cross_era(ctx: &mut Ctx, kind: u64, case_seed: u64) {
    let mut rng = Rng::new(case_seed);
    let mut g = G::new(&mut rng);
    ctx.eval();
    let rep = json!({"kind":"cross","which":kind,"case_seed":case_seed});
    macro_rules! go {
        ($pair:literal, $old:expr, $newty:ty, $cmp:expr) => {{
            let old = $old;
            let bytes = minicbor::to_vec(&old).unwrap_or_default();
            ctx.count(concat!("cross_era:", $pair));
            match pv::panics::catch(|| minicbor::decode::<$newty>(&bytes).map_err(|e| e.to_string())) {
                Err(p) => ctx.violation(&format!("panic:cross-era:{}:{}", $pair, p.site()), &p.msg, rep),
                Ok(Err(e)) => ctx.violation(
                    &format!("cross-era:{}:decode-error", $pair),
                    &format!("{:?} as written by the older era codec ({}) is rejected by the Conway decoder: {e}", old, hex_short(&bytes)),
                    rep,
                ),
                Ok(Ok(new)) => {
                    let f: fn(&_, &$newty) -> Option<String> = $cmp;
                    match f(&old, &new) {
                        None => ctx.count("cross_era_same_content"),
                        Some(at) => ctx.violation(
                            &format!("cross-era:{}:differs:{at}", $pair),
                            &format!("{:?} written by the older era codec ({}) is read by the Conway decoder as {:?}", old, hex_short(&bytes), new),
                            rep,
                        ),
                    }
                }
            }
        }};
    }
    match kind % 6 {
        0 => go!("alonzo->conway:Certificate", old_cert(&mut g), conway::Certificate, |a, c| cert_same(a, c).map(|s| s.to_string())),
        1 => go!("alonzo->conway:Value", positive_value(&mut g), conway::Value, |a, c| if value_same(a, c) { None } else { Some("value".to_string()) }),
        2 => go!("alonzo->conway:Mint", nonzero_mint(&mut g), conway::Mint, |a, c| if mint_same(a, c) { None } else { Some("mint".to_string()) }),
        3 => go!(
            "babbage->conway:ProtocolParamUpdate",
            {
                let mut p = g.babbage_ppu();
                p.protocol_version = None;
                p
            },
            conway::ProtocolParamUpdate,
            |a, c| ppu_diff(a, c).map(|s| s.to_string())
        ),
        4 => go!("alonzo->conway:Redeemers", g.vec(0, 3, |g| g.alonzo_redeemer()), conway::Redeemers, |a: &Vec<alonzo::Redeemer>, c| match c {
            conway::Redeemers::List(l) => {
                if l.len() == a.len() && a.iter().zip(l.iter()).all(|(x, y)| x.tag as u8 == y.tag as u8 && x.index == y.index && x.data == y.data && x.ex_units == y.ex_units) {
                    None
                } else {
                    Some("entries".to_string())
                }
            }
            _ => Some("variant".to_string()),
        }),
        _ => go!(
            "alonzo->conway:TransactionBody",
            {
                let mut b = g.alonzo_tx_body();
                b.update = None;
                b.outputs = g.vec(0, 3, |g| alonzo::TransactionOutput { address: g.bytes(57), amount: positive_value(g), datum_hash: g.opt(|g| g.h32()) });
                b.certificates = g.opt(|g| g.vec(1, 3, |g| old_cert(g)));
                b.mint = g.opt(|g| nonzero_mint(g));
                b.collateral = g.opt(|g| g.vec(1, 2, |g| g.tx_input()));
                b.required_signers = g.opt(|g| g.vec(1, 2, |g| g.h28()));
                b
            },
            conway::TransactionBody,
            |a: &alonzo::TransactionBody, c| {
                let certs_same = match (&a.certificates, &c.certificates) {
                    (None, None) => true,
                    (Some(x), Some(y)) => x.len() == y.len() && x.iter().zip(y.iter()).all(|(p, q)| cert_same(p, q).is_none()),
                    _ => false,
                };
                let outs_same = a.outputs.len() == c.outputs.len()
                    && a.outputs.iter().zip(c.outputs.iter()).all(|(p, q)| match q {
                        conway::TransactionOutput::Legacy(l) => {
                            let lo: &alonzo::TransactionOutput = l;
                            lo == p
                        }
                        _ => false,
                    });
                let mint_ok = match (&a.mint, &c.mint) {
                    (None, None) => true,
                    (Some(x), Some(y)) => mint_same(x, y),
                    _ => false,
                };
                let bad = if a.inputs != **c.inputs {
                    "inputs"
                } else if !outs_same {
                    "outputs"
                } else if a.fee != c.fee {
                    "fee"
                } else if a.ttl != c.ttl {
                    "ttl"
                } else if !certs_same {
                    "certificates"
                } else if a.withdrawals != c.withdrawals {
                    "withdrawals"
                } else if a.auxiliary_data_hash != c.auxiliary_data_hash {
                    "auxiliary_data_hash"
                } else if a.validity_interval_start != c.validity_interval_start {
                    "validity_interval_start"
                } else if !mint_ok {
                    "mint"
                } else if a.script_data_hash != c.script_data_hash {
                    "script_data_hash"
                } else if a.collateral.as_deref() != c.collateral.as_ref().map(|x| x.as_slice()) {
                    "collateral"
                } else if a.required_signers.as_deref() != c.required_signers.as_ref().map(|x| x.as_slice()) {
                    "required_signers"
                } else if a.network_id != c.network_id {
                    "network_id"
                } else if c.collateral_return.is_some()
                    || c.total_collateral.is_some()
                    || c.reference_inputs.is_some()
                    || c.voting_procedures.is_some()
                    || c.proposal_procedures.is_some()
                    || c.treasury_value.is_some()
                    || c.donation.is_some()
                {
                    "newer-field-populated"
                } else {
                    ""
                };
                if bad.is_empty() {
                    None
                } else {
                    Some(bad.to_string())
                }
            }
        ),
    }
}

fn main() {
    let mut ctx = Ctx::from_args("C06");
    let rs = runners();
    let mut cov = Cov { seen: BTreeMap::new() };
    if let Some(p) = ctx.replay.clone() {
        let v: serde_json::Value = serde_json::from_slice(&std::fs::read(p).unwrap()).unwrap();
        let r = &v["replay"];
        match r["kind"].as_str() {
            Some("corpus") => {
                let name = r["name"].as_str().unwrap();
                for (k, a) in corpus_items() {
                    if a.name == name {
                        run_corpus_item(&mut ctx, k, &a);
                    }
                }
            }
            Some("value") => {
                let ty = r["type"].as_str().unwrap();
                let seed = r["case_seed"].as_u64().unwrap();
                for me in &rs {
                    if me.name == ty {
                        let mut rng = Rng::new(seed);
                        (me.run)(&mut ctx, &mut cov, &mut rng, me, seed);
                    }
                }
            }
            Some("cross") => cross_era(&mut ctx, r["which"].as_u64().unwrap(), r["case_seed"].as_u64().unwrap()),
            _ => println!("unknown replay kind"),
        }
        println!("replayed: violations={}", ctx.n_violations());
        ctx.finish();
    }

    // (a) corpus, split over shards
    let items = corpus_items();
    ctx.note("corpus_items_total", json!(items.len()));
    for (i, (k, a)) in items.iter().enumerate() {
        if !ctx.owns(i as u64) {
            continue;
        }
        ctx.count(&format!("corpus_items:{k}"));
        run_corpus_item(&mut ctx, k, a);
    }
    drop(items);
    ctx.note("corpus_complete", json!(true));

    // (b) generated values, round-robin over the types
    let n = ctx.budget(3_000_000, 40_000_000);
    for i in 0..n {
        let me = &rs[(i as usize) % rs.len()];
        let case_seed = ctx.rng.next_u64();
        let mut rng = Rng::new(case_seed);
        (me.run)(&mut ctx, &mut cov, &mut rng, me, case_seed);
    }
    // (c) cross-era reads
    for i in 0..n / 8 {
        let case_seed = ctx.rng.next_u64();
        cross_era(&mut ctx, i, case_seed);
    }
    // every variant / optional field the generators are meant to produce has to have come back
    // from a round trip in this shard; otherwise the run says nothing about it
    if n as usize >= rs.len() * 400 {
        for me in &rs {
            let seen = cov.seen.get(me.name);
            for l in me.expected {
                if !seen.map(|s| s.contains(*l)).unwrap_or(false) {
                    ctx.inconclusive(&format!("variant coverage: {}/{} never came back from a round trip", me.name, l));
                }
            }
        }
        ctx.note("variant_coverage_complete_checked", json!(true));
    }
    ctx.finish();
}
