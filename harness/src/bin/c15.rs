//! C15 — fixed-point exp, ln, pow agree digit-for-digit with the Cardano non-integral reference.
//!
//! This shard only *produces observations*: it generates arguments, calls
//! `FixedDecimal::{exp, ln, pow}` of pallas-math (34 digits) and appends one event per call to
//! `events-<shard>.jsonl`. The verdicts are computed offline by `oracles/nonintegral_ref.py`
//! (reference algorithm on python ints: exact equality of the printed digits; mpmath at 80
//! digits: distance to the true value). Evaluations / non-trivial fingerprints are counted by
//! the oracle, i.e. only for calls that really were checked.
use num_bigint::BigInt;
use pallas_math::math::{FixedDecimal, FixedPrecision};
use pv::fixgen::*;
use pv::*;
use serde_json::Value;

const E_DIGITS: &str = "27182818284590452353602874043083282"; // e * 10^34 (truncated)

fn fd(v: &BigInt) -> FixedDecimal {
    FixedDecimal::from_str(&v.to_string(), 34).expect("from_str on a decimal integer")
}

fn one() -> BigInt {
    pow10(34)
}

/// run one operation on the real code, return the event
fn observe(op: &str, args: &[BigInt]) -> Value {
    let r = pv::panics::catch(|| match op {
        "exp" => fd(&args[0]).exp().to_string(),
        "ln" => fd(&args[0]).ln().to_string(),
        "pow" => fd(&args[0]).pow(&fd(&args[1])).to_string(),
        _ => unreachable!("op"),
    });
    let a: Vec<String> = args.iter().map(|x| x.to_string()).collect();
    match r {
        Ok(s) => json!({"op": op, "args": a, "result": s, "panic": Value::Null}),
        Err(p) => json!({"op": op, "args": a, "result": Value::Null, "panic": p.site()}),
    }
}

fn signed(rng: &mut Rng, v: BigInt, neg_pct: u64) -> BigInt {
    if rng.chance(neg_pct, 100) {
        -v
    } else {
        v
    }
}

fn small_delta(rng: &mut Rng, k: i64) -> BigInt {
    BigInt::from(rng.irange(-k, k))
}

struct Gen {
    /// e^k * 10^34 for k in -70..=14 as computed by pallas (only used to *aim* ln arguments at the
    /// bracket boundaries of find_e; the oracle re-derives everything itself)
    ek: Vec<BigInt>,
}

impl Gen {
    fn new() -> Gen {
        let mut ek = vec![];
        for k in -70i64..=14 {
            let x = BigInt::from(k) * one();
            let s = pv::panics::catch(|| fd(&x).exp().to_string());
            match s {
                Ok(s) => ek.push(unprint(&s)),
                Err(_) => ek.push(one()),
            }
        }
        Gen { ek }
    }

    fn exp_arg(&self, rng: &mut Rng) -> BigInt {
        match rng.below(100) {
            0..=44 => {
                // log-uniform magnitudes 1e-30 .. 1e6; the top decades are rare because one such call
                // costs the python reference about a second (results have up to 434 000 digits)
                let d = match rng.below(1000) {
                    0..=2 => 5,
                    3..=12 => 4,
                    13..=42 => 3,
                    _ => rng.irange(-30, 2) as i32,
                };
                let v = in_decade(rng, 34, d);
                signed(rng, v, 40)
            }
            45..=59 => {
                // leader-election range: x = -sigma * ln(1-f) lies in [0, 1.2]
                let hi = BigInt::from(12u32) * pow10(33);
                let v = uniform_below(rng, &hi);
                signed(rng, v, 30)
            }
            60..=79 => {
                let ip = BigInt::from(rng.range(1, 99)) * one();
                let v = ip + uniform_below(rng, &(one() - 1));
                signed(rng, v, 40)
            }
            _ => {
                let v = match rng.below(7) {
                    0 => BigInt::from(rng.below(3)),
                    // integers and their neighbours: the scaling exponent n = ceil(x) changes here
                    1 | 2 => {
                        let k = if rng.bool() { rng.range(1, 12) } else { rng.range(1, 1000) };
                        BigInt::from(k) * one() + small_delta(rng, 2)
                    }
                    // first Taylor term right at the 1e-24 termination threshold
                    3 => pow10(10) + small_delta(rng, 2),
                    // second term (x^2/2) at the threshold: x ~ sqrt(2e-24)
                    4 => big("14142135623730950488017") + small_delta(rng, 1000),
                    5 => big(E_DIGITS) + small_delta(rng, 2),
                    // multiples of 0.05 (halves, tenths) and their neighbours
                    _ => BigInt::from(rng.range(1, 40)) * pow10(32) * 5u32 + small_delta(rng, 1),
                };
                signed(rng, v, 35)
            }
        }
    }

    fn ln_arg(&self, rng: &mut Rng) -> BigInt {
        match rng.below(100) {
            0..=39 => log_uniform(rng, -30, 5),
            // e^k and neighbours: find_e's bracket flips here
            40..=59 => {
                let i = rng.usize_below(self.ek.len());
                let v = &self.ek[i] + small_delta(rng, 3);
                if v.sign() == num_bigint::Sign::Plus {
                    v
                } else {
                    BigInt::from(1)
                }
            }
            // around 1: ln ~ +-10^-j
            60..=69 => {
                let j = rng.range(1, 34) as u32;
                let d = pow10(34 - j) + small_delta(rng, 1);
                if rng.bool() {
                    one() + d
                } else {
                    one() - d
                }
            }
            // 1 - f for the active-slot coefficients, and (0,1) dense
            70..=79 => {
                if rng.bool() {
                    one() - self.f(rng)
                } else {
                    uniform_below(rng, &(one() - 2)) + 1
                }
            }
            80..=87 => {
                if rng.bool() {
                    BigInt::from(rng.range(2, 1000)) * one()
                } else {
                    pow10(rng.range(4, 40) as u32)
                }
            }
            // [1, e): continued fraction only
            88..=94 => one() + uniform_below(rng, &(big(E_DIGITS) - one() - 1)),
            95..=97 => in_decade(rng, 34, 5),
            // outside the domain: documented panic
            _ => {
                if rng.bool() {
                    BigInt::from(0)
                } else {
                    -log_uniform(rng, -30, 5)
                }
            }
        }
    }

    /// active slot coefficient f as a raw value
    fn f(&self, rng: &mut Rng) -> BigInt {
        match rng.below(10) {
            0..=2 => big("500000000000000000000000000000000"),                       // 0.05 (mainnet)
            3 => pow10(33),                                                           // 0.1
            4 => BigInt::from(2u32) * pow10(33),                                      // 0.2
            5 => BigInt::from(25u32) * pow10(32),                                     // 0.25
            6 => BigInt::from(5u32) * pow10(33),                                      // 0.5
            7 => pow10(32),                                                           // 0.01
            _ => uniform_below(rng, &(one() - 2)) + 1,
        }
    }

    fn pow_args(&self, rng: &mut Rng) -> (BigInt, BigInt) {
        match rng.below(100) {
            // leader check: (1 - f) ^ sigma, sigma = relative stake in (0, 1]
            0..=34 => {
                let b = one() - self.f(rng);
                let s = match rng.below(4) {
                    0 => uniform_below(rng, &(one() - 1)) + 1,
                    1 => log_uniform(rng, -12, -1),
                    2 => {
                        // stake / total stake, truncated division as the caller would do
                        let total = BigInt::from(rng.range(1_000_000, 45_000_000_000_000_000));
                        let stake = uniform_below(rng, &total);
                        stake * one() / total
                    }
                    _ => log_uniform(rng, -30, -1),
                };
                (b, s)
            }
            35..=64 => {
                let limit = if rng.chance(2, 100) { 2.0e5 } else { 2000.0 };
                let mut tries = 0;
                loop {
                    let b0 = log_uniform(rng, -30, 5);
                    let b = signed(rng, b0, 25);
                    let y0 = if rng.chance(20, 100) { BigInt::from(rng.range(2, 1000)) * one() } else { log_uniform(rng, -30, 5) };
                    let mut y = signed(rng, y0, 40);
                    let mut t = (approx_f64(&y) * approx_ln(&b)).abs();
                    tries += 1;
                    if t > limit && tries > 6 {
                        // shrink the exponent instead of rejecting forever
                        while t > limit {
                            y = y / 10;
                            t /= 10.0;
                        }
                    }
                    if t <= limit {
                        return (b, y);
                    }
                }
            }
            65..=79 => {
                // the identities and their immediate neighbours
                let b = match rng.below(8) {
                    0 => BigInt::from(0),
                    1 => one(),
                    2 => -one(),
                    3 => one() + small_delta(rng, 2),
                    4 => BigInt::from(rng.irange(-2, 2)),
                    5 => big(E_DIGITS) + small_delta(rng, 1),
                    _ => {
                        let v = log_uniform(rng, -6, 3);
                        signed(rng, v, 30)
                    }
                };
                let y = match rng.below(8) {
                    0 => BigInt::from(0),
                    1 => one(),
                    2 => -one(),
                    3 => one() + small_delta(rng, 2),
                    4 => BigInt::from(rng.irange(-2, 2)),
                    5 => BigInt::from(2u32) * one(),
                    6 => pow10(33) * 5u32,
                    _ => {
                        let v = log_uniform(rng, -6, 1);
                        signed(rng, v, 40)
                    }
                };
                (b, y)
            }
            _ => {
                let mut b = rng.irange(-5, 5);
                if b == 0 && rng.chance(9, 10) {
                    b = 2;
                }
                let y = rng.irange(-25, 25);
                (BigInt::from(b) * one(), BigInt::from(y) * one())
            }
        }
    }
}

fn args_of(ev: &Value) -> Vec<BigInt> {
    ev["args"].as_array().map(|a| a.iter().map(|x| big(x.as_str().unwrap_or("0"))).collect()).unwrap_or_default()
}

fn main() {
    let mut ctx = Ctx::from_args("C15");
    if let Some(p) = ctx.replay.clone() {
        let v: Value = serde_json::from_slice(&std::fs::read(p).unwrap()).unwrap();
        let old = &v["replay"];
        let op = old["op"].as_str().unwrap_or("exp").to_string();
        let ev = observe(&op, &args_of(old));
        let shown = ev["result"].as_str().map(|s| if s.len() > 300 { format!("{}...({} chars)", &s[..300], s.len()) } else { s.to_string() });
        println!("replayed {op}({}) -> result={:?} panic={}", old["args"], shown, ev["panic"]);
        replay_with_oracle(&ctx.out, "oracles/nonintegral_ref.py", "C15", &ev);
        ctx.finish();
    }
    let g = Gen::new();
    let mut log = EventLog::create(&ctx.out, ctx.shard);
    let n = ctx.budget(20_000, 500_000);
    for _ in 0..n {
        let (op, args) = match ctx.rng.below(100) {
            0..=34 => ("exp", vec![g.exp_arg(&mut ctx.rng)]),
            35..=64 => ("ln", vec![g.ln_arg(&mut ctx.rng)]),
            _ => {
                let (b, y) = g.pow_args(&mut ctx.rng);
                ("pow", vec![b, y])
            }
        };
        let ev = observe(op, &args);
        ctx.count(&format!("calls_{op}"));
        if !ev["panic"].is_null() {
            ctx.count("panics_observed");
        }
        if let Some(s) = ev["result"].as_str() {
            ctx.max("longest_result_chars", s.len() as u64);
        }
        log.log(&ev);
    }
    let written = log.close();
    ctx.add("events_logged", written);
    ctx.finish();
}
