//! C19 — Byron addresses round-trip and corrupted addresses are rejected.
//! Oracle: own CBOR encoder (pv::cbor::Node) builds `[24(h'payload'), crc]` with the own
//! CRC-32/ISO-HDLC (pv::refhash::crc32); own base58 codec; own CBOR parser gives the
//! independent view (payload, stored crc) of a corrupted input. Every single-bit flip of every
//! byte of each valid address is parsed through six entry points; any `Ok(Byron address)` whose
//! stored CRC differs from the own CRC-32 of its payload is a violation.
use pallas_addresses::byron::{AddrAttrProperty, AddrDistr, AddrType, AddressPayload};
use pallas_addresses::{Address, ByronAddress};
use pallas_crypto::hash::Hash;
use pv::cbor::{self, Node};
use pv::refhash::crc32;
use pv::*;
use std::str::FromStr;

// ---------------------------------------------------------------------------------------
// own base58 (bitcoin alphabet)
// ---------------------------------------------------------------------------------------
const B58: &[u8; 58] = b"123456789ABCDEFGHJKLMNPQRSTUVWXYZabcdefghijkmnopqrstuvwxyz";
fn b58_encode(data: &[u8]) -> String {
    let zeros = data.iter().take_while(|b| **b == 0).count();
    let mut digits: Vec<u8> = vec![];
    for b in &data[zeros..] {
        let mut carry = *b as u32;
        for d in digits.iter_mut() {
            carry += (*d as u32) << 8;
            *d = (carry % 58) as u8;
            carry /= 58;
        }
        while carry > 0 {
            digits.push((carry % 58) as u8);
            carry /= 58;
        }
    }
    let mut s = String::with_capacity(zeros + digits.len());
    for _ in 0..zeros {
        s.push('1');
    }
    for d in digits.iter().rev() {
        s.push(B58[*d as usize] as char);
    }
    s
}
fn b58_decode(s: &str) -> Option<Vec<u8>> {
    let ones = s.bytes().take_while(|c| *c == b'1').count();
    let mut bytes: Vec<u8> = vec![];
    for c in s.bytes().skip(ones) {
        let mut carry = B58.iter().position(|x| *x == c)? as u32;
        for b in bytes.iter_mut() {
            carry += (*b as u32) * 58;
            *b = carry as u8;
            carry >>= 8;
        }
        while carry > 0 {
            bytes.push(carry as u8);
            carry >>= 8;
        }
    }
    let mut out = vec![0u8; ones];
    out.extend(bytes.iter().rev());
    Some(out)
}

// ---------------------------------------------------------------------------------------
// generated addresses
// ---------------------------------------------------------------------------------------
#[derive(Clone, Debug, PartialEq)]
enum Attr {
    Distr(Option<[u8; 28]>), // Some = single key distribution, None = bootstrap era
    Path(Vec<u8>),
    Tag(Vec<u8>),
}

#[derive(Clone, Debug)]
struct Structured {
    root: [u8; 28],
    attrs: Vec<Attr>,
    addrtype: u32,
}

impl Structured {
    fn node(&self) -> Node {
        let attrs = self
            .attrs
            .iter()
            .map(|a| match a {
                Attr::Distr(Some(h)) => (Node::u(0), Node::arr(vec![Node::u(0), Node::bytes(h)])),
                Attr::Distr(None) => (Node::u(0), Node::arr(vec![Node::u(1)])),
                Attr::Path(b) => (Node::u(1), Node::bytes(b)),
                Attr::Tag(b) => (Node::u(2), Node::bytes(b)),
            })
            .collect();
        Node::arr(vec![Node::bytes(&self.root), Node::map(attrs), Node::u(self.addrtype as u64)])
    }
    fn attr_combo(&self) -> String {
        if self.attrs.is_empty() {
            return "none".into();
        }
        self.attrs
            .iter()
            .map(|a| match a {
                Attr::Distr(Some(_)) => "distr-single",
                Attr::Distr(None) => "distr-bootstrap",
                Attr::Path(_) => "path",
                Attr::Tag(_) => "tag",
            })
            .collect::<Vec<_>>()
            .join("+")
    }
    fn pallas_payload(&self) -> AddressPayload {
        let attrs: Vec<AddrAttrProperty> = self
            .attrs
            .iter()
            .map(|a| match a {
                Attr::Distr(Some(h)) => AddrAttrProperty::AddrDistr(AddrDistr::SingleKeyDistribution(Hash::<28>::from(*h))),
                Attr::Distr(None) => AddrAttrProperty::AddrDistr(AddrDistr::BootstrapEraDistribution),
                Attr::Path(b) => AddrAttrProperty::DerivationPath(b.clone().into()),
                Attr::Tag(b) => AddrAttrProperty::NetworkTag(b.clone().into()),
            })
            .collect();
        AddressPayload { root: Hash::<28>::from(self.root), attributes: attrs.into(), addrtype: addrtype_of(self.addrtype) }
    }
}

fn addrtype_of(x: u32) -> AddrType {
    match x {
        0 => AddrType::PubKey,
        1 => AddrType::Script,
        2 => AddrType::Redeem,
        x => AddrType::Other(x),
    }
}
fn addrtype_num(t: &AddrType) -> u32 {
    match t {
        AddrType::PubKey => 0,
        AddrType::Script => 1,
        AddrType::Redeem => 2,
        AddrType::Other(x) => *x,
    }
}

fn gen_structured(rng: &mut Rng) -> Structured {
    let root = rng.array::<28>();
    let mut attrs = vec![];
    let path = |rng: &mut Rng| {
        // real derivation paths are bytes-wrapped CBOR of a ChaCha-encrypted blob (~28 bytes)
        let n = *rng.pick(&[0usize, 1, 23, 24, 28, 30, 60]);
        let mut inner = Node::bytes(&rng.bytes(n)).to_vec();
        if rng.chance(1, 4) {
            inner = rng.bytes(n);
        }
        Attr::Path(inner)
    };
    let tag = |rng: &mut Rng| {
        let v = *rng.pick(&[0u64, 1, 2, 23, 24, 255, 256, 1097911063, 764824073, u32::MAX as u64]);
        Attr::Tag(Node::u(v).to_vec())
    };
    let distr = |rng: &mut Rng| if rng.bool() { Attr::Distr(Some(rng.array::<28>())) } else { Attr::Distr(None) };
    match rng.below(8) {
        0 | 1 => {}
        2 => attrs.push(path(rng)),
        3 => attrs.push(tag(rng)),
        4 => {
            attrs.push(path(rng));
            attrs.push(tag(rng));
        }
        5 => attrs.push(distr(rng)),
        6 => {
            attrs.push(distr(rng));
            attrs.push(path(rng));
            attrs.push(tag(rng));
        }
        _ => {
            // arbitrary order / repetition (the container is order preserving)
            for _ in 0..rng.below(4) {
                let a = match rng.below(3) {
                    0 => distr(rng),
                    1 => path(rng),
                    _ => tag(rng),
                };
                attrs.push(a);
            }
        }
    }
    let addrtype = match rng.below(6) {
        0 => 0,
        1 => 1,
        2 => 2,
        3 => *rng.pick(&[3u32, 23, 24, 255, 256, 65535, 65536, u32::MAX]),
        4 => rng.next_u32(),
        _ => rng.below(3) as u32,
    };
    Structured { root, attrs, addrtype }
}

struct Valid {
    bytes: Vec<u8>,   // [24(h'payload'), crc] in shortest-form CBOR
    payload: Vec<u8>, // the payload bytes
    crc: u32,
    off_payload: usize,
    off_crc: usize, // index of the head byte of the crc item
    structured: Option<Structured>,
    kind: &'static str,
}

fn make_valid(payload: Vec<u8>, structured: Option<Structured>, kind: &'static str) -> Valid {
    let crc = crc32(&payload);
    let bytes = Node::arr(vec![Node::tag(24, Node::bytes(&payload)), Node::u(crc as u64)]).to_vec();
    let headlen = if payload.len() < 24 { 1 } else if payload.len() < 256 { 2 } else { 3 };
    let off_payload = 3 + headlen;
    let off_crc = off_payload + payload.len();
    Valid { bytes, payload, crc, off_payload, off_crc, structured, kind }
}

impl Valid {
    fn region(&self, byte: usize) -> &'static str {
        if byte == 0 {
            "array-head"
        } else if byte < 3 {
            "tag-head"
        } else if byte < self.off_payload {
            "bytes-head"
        } else if byte < self.off_crc {
            "payload"
        } else if byte == self.off_crc && self.bytes.len() > self.off_crc + 1 {
            "crc-head"
        } else {
            "crc-value"
        }
    }
}

/// own strict view of an input: exactly `82 <tag>(<definite bytes>) <uint>` with no trailing bytes
fn own_view(b: &[u8]) -> Option<(Vec<u8>, u64)> {
    let it = cbor::parse(b).ok()?;
    if it.major != 4 || it.indef || it.children.len() != 2 {
        return None;
    }
    let t = &it.children[0];
    if t.major != 6 || t.children.len() != 1 {
        return None;
    }
    let s = &t.children[0];
    if s.major != 2 || s.indef {
        return None;
    }
    let c = &it.children[1];
    if c.major != 0 {
        return None;
    }
    Some((s.str_payload(b), c.arg))
}

const ENTRIES: [&str; 8] = ["ByronAddress::from_bytes", "ByronAddress::from_base58", "Address::from_bytes", "Address::from_hex", "Address::from_str(base58)", "Address::from_str(hex)", "Address::try_from(&[u8])", "Address::try_from(&[u8]) of hex-decoded text"];

enum Parsed {
    Byron(ByronAddress),
    NotByron,
    Rejected,
    Panicked(pv::panics::PanicInfo),
}

fn parse_via(entry: usize, bytes: &[u8], b58: &str, hx: &str) -> Parsed {
    let r = pv::panics::catch(|| match entry {
        0 => ByronAddress::from_bytes(bytes).ok().map(Address::Byron),
        1 => ByronAddress::from_base58(b58).ok().map(Address::Byron),
        2 => Address::from_bytes(bytes).ok(),
        3 => Address::from_hex(hx).ok(),
        4 => Address::from_str(b58).ok(),
        5 => Address::from_str(hx).ok(),
        6 => Address::try_from(bytes).ok(),
        _ => hex::decode(hx).ok().and_then(|v| Address::try_from(v.as_slice()).ok()),
    });
    match r {
        Err(p) => Parsed::Panicked(p),
        Ok(None) => Parsed::Rejected,
        Ok(Some(Address::Byron(a))) => Parsed::Byron(a),
        Ok(Some(_)) => Parsed::NotByron,
    }
}

/// one corrupted input through all entry points
fn check_corrupted(ctx: &mut Ctx, v: &Valid, bad: &[u8], how: &str, region: &str, replay: &dyn Fn() -> serde_json::Value) {
    ctx.eval();
    let b58 = b58_encode(bad);
    let hx = hexs(bad);
    let view = own_view(bad);
    ctx.count(&format!("corruptions_{region}"));
    if let Some((p, c)) = &view {
        // the CBOR shape survived: only the checksum can tell this input from a valid address
        if crc32(p) as u64 != *c {
            ctx.count("corruptions_still_wellformed_cbor");
            ctx.nontrivial(fp(bad));
        } else if matches!(region, "payload" | "crc-value" | "crc-replaced") {
            // cannot happen (CRC-32 detects every single-bit error) — would be an oracle bug
            ctx.inconclusive("a payload/checksum corruption produced a checksum-valid address: oracle/generator inconsistency");
            return;
        } else {
            // e.g. a flipped bit in the tag number: payload and checksum untouched, nothing to reject
            ctx.count("corruptions_leaving_payload_and_crc_intact");
        }
    }
    for (ei, entry) in ENTRIES.iter().enumerate() {
        match parse_via(ei, bad, &b58, &hx) {
            Parsed::Rejected => ctx.count("corrupted_rejected"),
            Parsed::NotByron => ctx.count("corrupted_parsed_as_non_byron"),
            Parsed::Panicked(p) if p.in_harness() => ctx.inconclusive(&format!("harness panic at {}:{}: {}", p.file, p.line, p.msg)),
            Parsed::Panicked(p) => ctx.violation(&format!("panic:{entry}:{}", p.site()), &format!("{entry} panicked on {hx}: {}", p.msg), replay()),
            Parsed::Byron(a) => {
                let got_payload: &[u8] = a.payload.0.as_slice();
                let want = crc32(got_payload);
                if a.crc != want {
                    ctx.count("corrupted_accepted_with_wrong_crc");
                    ctx.violation(
                        &format!("crc-mismatch-accepted:{entry}"),
                        &format!(
                            "{entry} returned Ok for {} (valid {} address {} with {how} in {region}): stored crc {:#010x}, CRC-32 of its payload is {want:#010x}",
                            if ei == 1 || ei == 4 { b58.clone() } else { hx.clone() },
                            v.kind,
                            hex_short(&v.bytes),
                            a.crc
                        ),
                        replay(),
                    );
                } else if let Some((p, c)) = &view {
                    // checksum-consistent result from a strictly well-formed input whose own view is inconsistent:
                    // pallas read something else than what is on the wire
                    if p.as_slice() != got_payload || *c != a.crc as u64 {
                        ctx.violation(
                            &format!("decoded-fields-differ-from-wire:{entry}"),
                            &format!("{entry}({hx}) yielded payload {} crc {:#x}; the wire has payload {} crc {c:#x}", hex_short(got_payload), a.crc, hex_short(p)),
                            replay(),
                        );
                    }
                } else {
                    // malformed outer shape yet a checksum-valid address came out (e.g. trailing bytes ignored): not a CRC matter
                    ctx.count("corrupted_shape_accepted_with_consistent_crc");
                }
            }
        }
    }
}

fn check_valid(ctx: &mut Ctx, v: &Valid, replay: &dyn Fn() -> serde_json::Value) -> bool {
    ctx.eval();
    let b58 = b58_encode(&v.bytes);
    let hx = hexs(&v.bytes);
    let mut ok = true;
    let mut fail = |ctx: &mut Ctx, rule: &str, what: String| {
        ctx.violation(rule, &format!("{what} [valid {} address {}]", v.kind, hex_short(&v.bytes)), replay());
        ok = false;
    };
    // every entry point accepts the valid address and yields the same fields
    let mut first: Option<ByronAddress> = None;
    for (ei, entry) in ENTRIES.iter().enumerate() {
        match parse_via(ei, &v.bytes, &b58, &hx) {
            Parsed::Byron(a) => {
                let p: &[u8] = a.payload.0.as_slice();
                if p != v.payload.as_slice() || a.crc != v.crc {
                    fail(ctx, &format!("valid:decoded-fields-differ:{entry}"), format!("{entry} yielded payload {} crc {:#x}, built with payload {} crc {:#x}", hex_short(p), a.crc, hex_short(&v.payload), v.crc));
                }
                if first.is_none() {
                    first = Some(a);
                }
            }
            Parsed::Rejected => {
                // input class: the base58 decoder of the pinned tree has a fixed 132-byte output buffer
                let cls = if v.bytes.len() > 132 { ":address-longer-than-132-bytes" } else { "" };
                ctx.count("valid_rejected");
                fail(ctx, &format!("valid:rejected:{entry}{cls}"), format!("{entry} rejected a checksum-valid {}-byte address (base58 {b58})", v.bytes.len()))
            }
            Parsed::NotByron => fail(ctx, &format!("valid:not-byron:{entry}"), format!("{entry} parsed a Byron address as another kind")),
            Parsed::Panicked(p) if p.in_harness() => ctx.inconclusive(&format!("harness panic at {}:{}: {}", p.file, p.line, p.msg)),
            Parsed::Panicked(p) => fail(ctx, &format!("panic:{entry}:{}", p.site()), format!("{entry} panicked: {}", p.msg)),
        }
    }
    let Some(a) = first else { return false };
    // re-encoding: bytes, hex, base58, Display
    let r = pv::panics::catch(|| {
        let mut out: Vec<(String, String)> = vec![];
        let bytes = a.to_vec();
        if bytes != v.bytes {
            out.push(("roundtrip:to_vec".into(), format!("to_vec() = {}", hexs(&bytes))));
        }
        if a.to_hex() != hx {
            out.push(("roundtrip:to_hex".into(), format!("to_hex() = {}", a.to_hex())));
        }
        let s = a.to_base58();
        if s != b58 {
            out.push(("roundtrip:to_base58".into(), format!("to_base58() = {s}, own base58 = {b58}")));
        }
        // (parsing the base58 / Display string back is covered by the entry-point loop above: the
        //  strings are required to be identical to the own base58 string used there)
        let wrapped = Address::Byron(a.clone());
        if wrapped.to_string() != b58 || wrapped.to_vec() != v.bytes || wrapped.to_hex() != hx {
            out.push(("roundtrip:address-wrapper".into(), format!("Address::Byron to_string/to_vec/to_hex = {} / {} / {}", wrapped.to_string(), hexs(&wrapped.to_vec()), wrapped.to_hex())));
        }
        if ByronAddress::new(&v.payload, v.crc) != a {
            out.push(("roundtrip:new".into(), "ByronAddress::new(payload, crc) differs from the parsed address".into()));
        }
        // payload level: decode() + from_decoded
        match (&v.structured, a.decode()) {
            (Some(st), Ok(pl)) => {
                let want = st.pallas_payload();
                if pl != want {
                    out.push(("payload:decode-differs".into(), format!("decode() = {pl:?}, built {want:?}")));
                }
                if addrtype_num(&pl.addrtype) != st.addrtype || pl.attributes.len() != st.attrs.len() {
                    out.push(("payload:decode-fields".into(), format!("decode() addrtype {:?} / {} attributes, built {} / {}", pl.addrtype, pl.attributes.len(), st.addrtype, st.attrs.len())));
                }
                let again = ByronAddress::from_decoded(pl);
                let ap: &[u8] = again.payload.0.as_slice();
                if again.crc != crc32(ap) {
                    out.push(("from_decoded:crc-not-crc32-of-payload".into(), format!("from_decoded() stored crc {:#010x}, CRC-32/ISO-HDLC of its payload {} is {:#010x}", again.crc, hex_short(ap), crc32(ap))));
                } else if v.kind == "structured" && again != a {
                    out.push(("roundtrip:decode+from_decoded".into(), format!("from_decoded(decode()) = {} , original {}", hexs(&again.to_vec()), hx)));
                }
                // the same through the public fields, without decode()
                let direct = ByronAddress::from_decoded(want);
                let dp: &[u8] = direct.payload.0.as_slice();
                if direct.crc != crc32(dp) {
                    out.push(("from_decoded:crc-not-crc32-of-payload".into(), format!("from_decoded() stored crc {:#010x}, CRC-32/ISO-HDLC of its payload {} is {:#010x}", direct.crc, hex_short(dp), crc32(dp))));
                } else if direct.to_vec() != Node::arr(vec![Node::tag(24, Node::bytes(&st.node().to_vec())), Node::u(crc32(&st.node().to_vec()) as u64)]).to_vec() {
                    out.push(("from_decoded:bytes-differ-from-own-encoding".into(), format!("from_decoded(AddressPayload{{..}}).to_vec() = {}", hexs(&direct.to_vec()))));
                }
            }
            // a non-minimal (restyled) payload being refused by decode() is not a round-trip failure
            (Some(_), Err(e)) if v.kind == "structured" => out.push(("payload:decode-rejected".into(), format!("decode() failed on a generated canonical payload: {e}"))),
            (Some(_), Err(_)) => {}
            (None, _) => {}
        }
        out
    });
    match r {
        Ok(fs) => {
            for (rule, what) in fs {
                fail(ctx, &rule, what);
            }
        }
        Err(p) if p.in_harness() => ctx.inconclusive(&format!("harness panic at {}:{}: {}", p.file, p.line, p.msg)),
        Err(p) => fail(ctx, &format!("panic:roundtrip:{}", p.site()), format!("panicked: {}", p.msg)),
    }
    ok
}

fn run_address(ctx: &mut Ctx, v: &Valid, only_flip: Option<i64>) {
    let base = hexs(&v.bytes);
    let st = v.structured.clone();
    let kind = v.kind;
    let rp = move |flip: i64| {
        let base = base.clone();
        move || json!({"address": base, "flip": flip, "kind": kind})
    };
    let _ = st;
    if only_flip.is_none() || only_flip == Some(-1) {
        let ok = check_valid(ctx, v, &rp(-1));
        ctx.count("valid_addresses");
        ctx.count(&format!("valid_{}", v.kind));
        if let Some(s) = &v.structured {
            ctx.set_insert("attribute_combinations", &s.attr_combo());
            ctx.set_insert("addrtype_classes", match s.addrtype { 0 => "PubKey", 1 => "Script", 2 => "Redeem", _ => "Other" });
        }
        ctx.max("max_address_len", v.bytes.len() as u64);
        if v.bytes.len() > 132 {
            ctx.count("valid_addresses_longer_than_132_bytes");
        }
        let _ = ok; // the corruptions are checked regardless of the round-trip outcome
    }
    // every single-bit flip of every byte
    for bit in 0..(v.bytes.len() * 8) as i64 {
        if only_flip.is_some() && only_flip != Some(bit) {
            continue;
        }
        let mut bad = v.bytes.clone();
        bad[(bit / 8) as usize] ^= 1 << (bit % 8);
        let region = v.region((bit / 8) as usize);
        check_corrupted(ctx, v, &bad, &format!("bit {} of byte {} flipped", bit % 8, bit / 8), region, &rp(bit));
    }
    // replaced checksum values (codes -2..-5)
    for (code, newcrc) in [(-2i64, v.crc.wrapping_add(1)), (-3, !v.crc), (-4, 0u32), (-5, v.crc.rotate_left(16))] {
        if only_flip.is_some() && only_flip != Some(code) {
            continue;
        }
        if newcrc == v.crc {
            continue;
        }
        let bad = Node::arr(vec![Node::tag(24, Node::bytes(&v.payload)), Node::u(newcrc as u64)]).to_vec();
        check_corrupted(ctx, v, &bad, &format!("checksum replaced by {newcrc:#010x}"), "crc-replaced", &rp(code));
    }
}

const VECTORS: [&str; 3] = [
    "37btjrVyb4KDXBNC4haBVPCrro8AQPHwvCMp3RFhhSVWwfFmZ6wwzSK6JK1hY6wHNmtrpTf1kdbva8TCneM2YsiXT7mrzT21EacHnPpz5YyUdj64na",
    "DdzFFzCqrht7PQiAhzrn6rNNoADJieTWBt8KeK9BZdUsGyX9ooYD9NpMCTGjQoUKcHN47g8JMXhvKogsGpQHtiQ65fZwiypjrC6d3a4Q",
    "Ae2tdPwUPEZLs4HtbuNey7tK4hTKrwNwYtGqp7bDfCy2WdR3P6735W5Yfpe",
];

fn valid_from_bytes(b: &[u8], kind: &'static str) -> Option<Valid> {
    let (p, c) = own_view(b)?;
    let v = make_valid(p, None, kind);
    if v.bytes != b || v.crc as u64 != c {
        return None;
    }
    Some(v)
}

fn main() {
    let mut ctx = Ctx::from_args("C19");
    if let Some(p) = ctx.replay.clone() {
        let j: serde_json::Value = serde_json::from_slice(&std::fs::read(p).unwrap()).unwrap();
        let b = hex::decode(j["replay"]["address"].as_str().unwrap()).unwrap();
        let flip = j["replay"]["flip"].as_i64().unwrap();
        match valid_from_bytes(&b, "replayed") {
            Some(v) => {
                run_address(&mut ctx, &v, Some(flip));
                println!("replayed address {} flip {flip}: violations={}", hexs(&b), ctx.n_violations());
            }
            None => println!("replay file does not hold a checksum-valid address"),
        }
        ctx.finish();
    }
    // self-test of the own codecs against the mainnet vectors (base58 <-> bytes, CRC-32, CBOR view)
    let mut vectors = vec![];
    for s in VECTORS {
        let ok = b58_decode(s).and_then(|b| if b58_encode(&b) == s { valid_from_bytes(&b, "mainnet-vector") } else { None });
        match ok {
            Some(v) => vectors.push(v),
            None => {
                ctx.inconclusive("own base58 / CRC-32 / CBOR view failed its self-test on a mainnet vector");
                ctx.finish();
            }
        }
    }
    if crc32(b"123456789") != 0xcbf43926 {
        ctx.inconclusive("own CRC-32 failed the check value");
        ctx.finish();
    }
    for (i, v) in vectors.iter().enumerate() {
        if ctx.owns(i as u64) {
            run_address(&mut ctx, v, None);
            ctx.count("mainnet_vectors");
        }
    }
    let n = ctx.budget(2_000, 60_000);
    for i in 0..n {
        let mut rng = ctx.rng.clone();
        let v = match rng.below(20) {
            0 | 1 => {
                // arbitrary payload bytes (not an AddressPayload): the outer address must still round-trip
                let len = *rng.pick(&[0usize, 1, 23, 24, 40, 80, 255, 256, 300]);
                make_valid(rng.bytes(len), None, "opaque-payload")
            }
            2 | 3 => {
                // structured payload in a non-canonical but equivalent CBOR style
                let st = gen_structured(&mut rng);
                let (node, _) = cbor::restyle(&st.node(), &mut rng, &cbor::Restyle::widths(40));
                make_valid(node.to_vec(), Some(st), "structured-restyled")
            }
            _ => {
                let st = gen_structured(&mut rng);
                make_valid(st.node().to_vec(), Some(st), "structured")
            }
        };
        ctx.rng = rng;
        run_address(&mut ctx, &v, None);
        if i < 1 && ctx.want_sample() {
            ctx.sample(json!({"address_hex": hexs(&v.bytes), "base58": b58_encode(&v.bytes), "kind": v.kind, "crc": format!("{:#010x}", v.crc), "corruptions": v.bytes.len() * 8 + 4}));
        }
    }
    ctx.finish();
}
