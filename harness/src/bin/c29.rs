//! C29 — P2P behaviours never panic on peer-driven input.
//!
//! Panic watch over `handle_io`, `execute` and polling of the output stream of
//! `InitiatorBehavior` and `ResponderBehavior`. Event sequences (<= 300 events, 1..5 peers)
//! come in two labelled classes:
//!   * `consistent` — per peer: Connected, then traffic (Recv / Sent / Error), then
//!     Disconnected, nothing until the next Connected; the only Connected events for a peer that
//!     is already connected are answers to a Connect command the initiator itself emitted for it
//!     (a real interface then opens a second connection);
//!   * `arbitrary`  — any event for any peer at any time.
//! Inbound (and "Sent") messages are arbitrary messages of all eight protocols regardless of
//! state, with a bias that lets handshakes complete so that the code behind `is_initialized()`
//! runs; Sent events were never emitted; commands of every kind are interleaved.
use pallas_network2::behavior::responder::{
    connection::{ConnectionResponder, ConnectionResponderConfig},
    handshake::{HandshakeResponder, HandshakeResponderConfig},
    txsubmission::{TxSubmissionResponder, TxSubmissionResponderConfig},
    ResponderBehavior, ResponderCommand, ResponderState,
};
use pallas_network2::behavior::{AnyMessage, Config as HandshakeConfig, HandshakeBehavior, InitiatorBehavior, InitiatorCommand, InitiatorState, PromotionBehavior, PromotionConfig};
use pallas_network2::{Behavior, BehaviorOutput, InterfaceCommand, InterfaceError, InterfaceEvent, PeerId};
use pv::p2pdrive;
use pv::p2pgen;
use pv::p2pspec::{self, Agency, ConnSpec, Proto, Verdict};
use pv::*;
use serde_json::Value;

/// a message named by (protocol, kind, payload seed); `canon` = well-formed standard payload
/// for the handshake messages (so that negotiations succeed)
#[derive(Clone, Debug)]
struct MsgRef {
    proto: u8,
    kind: u8,
    seed: u64,
    canon: bool,
}

impl MsgRef {
    fn build(&self) -> AnyMessage {
        let pr = p2pspec::ALL_PROTOS[self.proto as usize % 8];
        let ks = p2pgen::kinds_of(pr);
        let k = ks[self.kind as usize % ks.len()];
        if self.canon && pr == Proto::Handshake {
            match k {
                "Propose" => return p2pdrive::propose_msg(if self.seed % 3 == 0 { &[13] } else { &[13, 15] }),
                "Accept" => return p2pdrive::accept_msg(if self.seed % 2 == 0 { 13 } else { 15 }),
                _ => {}
            }
        }
        p2pgen::msg_kind_from_seed(pr, k, self.seed)
    }
    fn to_json(&self) -> Value {
        json!([self.proto, self.kind, self.seed.to_string(), self.canon])
    }
    fn from_json(v: &Value) -> MsgRef {
        MsgRef { proto: v[0].as_u64().unwrap() as u8, kind: v[1].as_u64().unwrap() as u8, seed: v[2].as_str().unwrap().parse().unwrap(), canon: v[3].as_bool().unwrap() }
    }
    fn of(pr: Proto, kind: &str, seed: u64, canon: bool) -> MsgRef {
        let ks = p2pgen::kinds_of(pr);
        MsgRef { proto: pr.index() as u8, kind: ks.iter().position(|k| *k == kind).unwrap() as u8, seed, canon }
    }
    fn random(r: &mut Rng) -> MsgRef {
        MsgRef { proto: r.below(8) as u8, kind: r.below(8) as u8, seed: r.next_u64(), canon: r.chance(1, 3) }
    }
}

#[derive(Clone, Debug)]
enum Ev {
    Connected(usize),
    Disconnected(usize),
    Error(usize),
    Idle,
    Recv(usize, Vec<MsgRef>),
    Sent(usize, MsgRef),
    /// command number `kind` (see `init_cmd` / `resp_cmd`) aimed at peer, payload from seed
    Cmd(u8, usize, u64),
}

impl Ev {
    fn to_json(&self) -> Value {
        match self {
            Ev::Connected(p) => json!(["Connected", p]),
            Ev::Disconnected(p) => json!(["Disconnected", p]),
            Ev::Error(p) => json!(["Error", p]),
            Ev::Idle => json!(["Idle"]),
            Ev::Recv(p, ms) => json!(["Recv", p, ms.iter().map(|m| m.to_json()).collect::<Vec<_>>()]),
            Ev::Sent(p, m) => json!(["Sent", p, m.to_json()]),
            Ev::Cmd(k, p, s) => json!(["Cmd", k, p, s.to_string()]),
        }
    }
    fn from_json(v: &Value) -> Ev {
        let p = || v[1].as_u64().unwrap() as usize;
        match v[0].as_str().unwrap() {
            "Connected" => Ev::Connected(p()),
            "Disconnected" => Ev::Disconnected(p()),
            "Error" => Ev::Error(p()),
            "Idle" => Ev::Idle,
            "Recv" => Ev::Recv(p(), v[2].as_array().unwrap().iter().map(MsgRef::from_json).collect()),
            "Sent" => Ev::Sent(p(), MsgRef::from_json(&v[2])),
            "Cmd" => Ev::Cmd(v[1].as_u64().unwrap() as u8, v[2].as_u64().unwrap() as usize, v[3].as_str().unwrap().parse().unwrap()),
            o => panic!("unknown event {o}"),
        }
    }
    fn label(&self, initiator: bool) -> String {
        match self {
            Ev::Connected(_) => "handle_io(Connected)".into(),
            Ev::Disconnected(_) => "handle_io(Disconnected)".into(),
            Ev::Error(_) => "handle_io(Error)".into(),
            Ev::Idle => "handle_io(Idle)".into(),
            Ev::Recv(..) => "handle_io(Recv)".into(),
            Ev::Sent(..) => "handle_io(Sent)".into(),
            Ev::Cmd(k, ..) => format!("execute({})", if initiator { INIT_CMDS[*k as usize % INIT_CMDS.len()] } else { RESP_CMDS[*k as usize % RESP_CMDS.len()] }),
        }
    }
}

const INIT_CMDS: [&str; 10] = ["IncludePeer", "Housekeeping", "StartSync", "ContinueSync", "RequestBlocks", "SendTx", "FetchEb", "FetchEbTxs", "BanPeer", "DemotePeer"];
const RESP_CMDS: [&str; 14] = [
    "Housekeeping",
    "ProvideIntersection",
    "ProvideHeader",
    "ProvideRollback",
    "ProvideBlocks",
    "ProvidePeers",
    "ProvideEbAnnouncement",
    "ProvideEbOffer",
    "ProvideEbTxsOffer",
    "ProvideVotes",
    "ProvideEb",
    "ProvideEbTxs",
    "BanPeer",
    "DisconnectPeer",
];

fn init_cmd(kind: u8, pid: PeerId, seed: u64) -> InitiatorCommand {
    let mut r = Rng::new(seed);
    match kind as usize % INIT_CMDS.len() {
        0 => InitiatorCommand::IncludePeer(pid),
        1 => InitiatorCommand::Housekeeping,
        2 => {
            let n = p2pgen::small_len(&mut r).min(20);
            InitiatorCommand::StartSync((0..n).map(|_| p2pgen::point(&mut r)).collect())
        }
        3 => InitiatorCommand::ContinueSync(pid),
        4 => InitiatorCommand::RequestBlocks((p2pgen::point(&mut r), p2pgen::point(&mut r))),
        5 => InitiatorCommand::SendTx(pid, p2pgen::era_tx_id(&mut r), p2pgen::era_tx_body(&mut r)),
        6 => InitiatorCommand::FetchEb(pid, p2pgen::point(&mut r)),
        7 => InitiatorCommand::FetchEbTxs(pid, p2pgen::point(&mut r), p2pgen::bitmaps(&mut r)),
        8 => InitiatorCommand::BanPeer(pid),
        _ => InitiatorCommand::DemotePeer(pid),
    }
}

fn resp_cmd(kind: u8, pid: PeerId, seed: u64) -> ResponderCommand {
    let mut r = Rng::new(seed);
    let r = &mut r;
    match kind as usize % RESP_CMDS.len() {
        0 => ResponderCommand::Housekeeping,
        1 => ResponderCommand::ProvideIntersection(pid, p2pgen::point(r), p2pgen::tip(r)),
        2 => ResponderCommand::ProvideHeader(pid, p2pgen::header(r), p2pgen::tip(r)),
        3 => ResponderCommand::ProvideRollback(pid, p2pgen::point(r), p2pgen::tip(r)),
        4 => {
            let n = p2pgen::small_len(r).min(30);
            ResponderCommand::ProvideBlocks(pid, (0..n).map(|_| p2pgen::blob(r)).collect())
        }
        5 => {
            let n = p2pgen::small_len(r).min(30);
            ResponderCommand::ProvidePeers(pid, (0..n).map(|_| p2pgen::peer_address(r)).collect())
        }
        6 => ResponderCommand::ProvideEbAnnouncement(pid, p2pgen::any_cbor(r)),
        7 => ResponderCommand::ProvideEbOffer(pid, p2pgen::point(r), r.edgy_u64() as u32),
        8 => ResponderCommand::ProvideEbTxsOffer(pid, p2pgen::point(r)),
        9 => {
            let n = p2pgen::small_len(r).min(20);
            ResponderCommand::ProvideVotes(pid, (0..n).map(|_| p2pgen::any_cbor(r)).collect())
        }
        10 => ResponderCommand::ProvideEb(pid, p2pgen::any_cbor(r)),
        11 => {
            let n = p2pgen::small_len(r).min(20);
            ResponderCommand::ProvideEbTxs(pid, p2pgen::point(r), p2pgen::bitmaps(r), (0..n).map(|_| p2pgen::any_cbor(r)).collect())
        }
        12 => ResponderCommand::BanPeer(pid),
        _ => ResponderCommand::DisconnectPeer(pid),
    }
}

/// behaviour configuration, reproducible from a seed
#[derive(Clone, Debug)]
struct Cfg {
    initiator: bool,
    peers: usize,
    seed: u64,
}

enum Beh {
    I(Box<InitiatorBehavior>),
    R(Box<ResponderBehavior>),
}

struct Built {
    beh: Beh,
    ids: Vec<PeerId>,
    desc: String,
}

fn build(cfg: &Cfg) -> Built {
    let mut r = Rng::new(cfg.seed);
    // one id more than `peers`: index `peers` is a peer the interface may mention although it never connected
    let n = cfg.peers + 1;
    let table = match r.below(4) {
        0 => p2pdrive::version_table(&[13]),
        1 => p2pdrive::version_table(&[13, 15]),
        2 => p2pdrive::version_table(&[]),
        _ => p2pgen::version_table(&mut r),
    };
    if cfg.initiator {
        let (peers, ids) = p2pdrive::ordered_peers(n, &InitiatorState::new, &mut r);
        let pc = PromotionConfig { max_peers: *r.pick(&[0usize, 1, 2, 3, 100]), max_warm_peers: *r.pick(&[0usize, 1, 2, 50]), max_hot_peers: *r.pick(&[0usize, 1, 2, 10]), max_error_count: *r.pick(&[0u32, 1, 3]) };
        let desc = format!("initiator {:?} versions {:?}", pc, { let mut v: Vec<_> = table.values.keys().copied().collect(); v.sort(); v });
        let b = InitiatorBehavior { promotion: PromotionBehavior::new(pc), handshake: if r.chance(1, 3) { HandshakeBehavior::default() } else { HandshakeBehavior::new(HandshakeConfig { supported_version: table }) }, peers, ..Default::default() };
        Built { beh: Beh::I(Box::new(b)), ids, desc }
    } else {
        let (peers, ids) = p2pdrive::ordered_peers(n, &ResponderState::new, &mut r);
        let cc = ConnectionResponderConfig { max_error_count: *r.pick(&[0u32, 1, 3]), max_connections_per_ip: *r.pick(&[0usize, 1, 2, 10]) };
        let tx = TxSubmissionResponderConfig { max_tx_request: *r.pick(&[0u16, 1, 10, u16::MAX]) };
        let desc = format!("responder max_error_count {} max_connections_per_ip {} max_tx_request {} versions {:?}", cc.max_error_count, cc.max_connections_per_ip, tx.max_tx_request, { let mut v: Vec<_> = table.values.keys().copied().collect(); v.sort(); v });
        let mut b = ResponderBehavior::default();
        b.connection = ConnectionResponder::new(cc);
        b.txsubmission = TxSubmissionResponder::new(tx);
        if !r.chance(1, 3) {
            b.handshake = HandshakeResponder::new(HandshakeResponderConfig { supported_version: table });
        }
        b.peers = peers;
        Built { beh: Beh::R(Box::new(b)), ids, desc }
    }
}

#[derive(Default)]
struct Obs {
    events: u64,
    outputs: u64,
    sends: u64,
    connects: u64,
    disconnects: u64,
    ext_events: u64,
    violating_inbound: u64,
    legal_inbound: u64,
    err_or_disc: u64,
    initialized_seen: bool,
    flagged_peers: u64,
    reconnects_injected: u64,
}

/// runs one sequence; returns Some((signature, what, index of the failing event)) on a panic
fn run(cfg: &Cfg, class: &str, evs: &[Ev], obs: &mut Obs, kinds_seen: &mut Vec<String>, trace: bool, inject: bool, executed: &mut Vec<Ev>) -> Option<(String, String, usize)> {
    let mut built = build(cfg);
    // `consistent` class, initiator: a real interface answers every Connect command with a Connected
    // event, also when the initiator asks again for a peer it is already connected to (second TCP
    // connection). Such Connected events are injected a few events after the command was emitted.
    let mut conn: Vec<bool> = vec![false; built.ids.len()];
    let mut due: Vec<(usize, u64)> = vec![];
    let mut inj_rng = Rng::new(cfg.seed ^ 0x5eed);
    let mut queue: std::collections::VecDeque<Ev> = evs.iter().cloned().collect();
    let who = if cfg.initiator { "initiator" } else { "responder" };
    // harness-side automata only classify inbound messages (legal / spec-violating) for the evidence
    let mut spec: Vec<ConnSpec> = vec![ConnSpec::new(); built.ids.len()];
    let (inbound_side, outbound_side) = if cfg.initiator { (Agency::Server, Agency::Client) } else { (Agency::Client, Agency::Server) };
    let mut i = 0usize;
    loop {
        // injected events first
        let ev_owned = if let Some(k) = due.iter().position(|d| d.1 == 0) {
            let (q, _) = due.remove(k);
            Ev::Connected(q)
        } else if let Some(e) = queue.pop_front() {
            for d in due.iter_mut() {
                d.1 = d.1.saturating_sub(1);
            }
            e
        } else {
            break;
        };
        let ev = &ev_owned;
        executed.push(ev.clone());
        if executed.len() > 1 {
            i += 1;
        }
        match ev {
            Ev::Connected(p) => conn[*p % built.ids.len()] = true,
            Ev::Disconnected(p) => conn[*p % built.ids.len()] = false,
            _ => {}
        }
        obs.events += 1;
        let pid = |p: &usize| built.ids[*p % built.ids.len()].clone();
        match ev {
            Ev::Connected(p) | Ev::Disconnected(p) => {
                let n = spec.len();
                spec[*p % n] = ConnSpec::new();
                if matches!(ev, Ev::Disconnected(_)) {
                    obs.err_or_disc += 1;
                }
            }
            Ev::Error(_) => obs.err_or_disc += 1,
            Ev::Recv(p, ms) => {
                let n = spec.len();
                for m in ms {
                    let msg = m.build();
                    let (pr, k) = p2pspec::kind_of(&msg);
                    if kinds_seen.len() < 200 {
                        let d = format!("{}:{k}", pr.name());
                        if !kinds_seen.contains(&d) {
                            kinds_seen.push(d);
                        }
                    }
                    match spec[*p % n].advance(pr, inbound_side, k) {
                        Verdict::Ok(_) => obs.legal_inbound += 1,
                        _ => obs.violating_inbound += 1,
                    }
                }
            }
            Ev::Sent(p, m) => {
                let n = spec.len();
                let msg = m.build();
                let (pr, k) = p2pspec::kind_of(&msg);
                let _ = spec[*p % n].advance(pr, outbound_side, k);
            }
            _ => {}
        }
        let io: Option<InterfaceEvent<AnyMessage>> = match ev {
            Ev::Connected(p) => Some(InterfaceEvent::Connected(pid(p))),
            Ev::Disconnected(p) => Some(InterfaceEvent::Disconnected(pid(p))),
            Ev::Error(p) => Some(InterfaceEvent::Error(pid(p), InterfaceError::Other("boom".into()))),
            Ev::Idle => Some(InterfaceEvent::Idle),
            Ev::Recv(p, ms) => Some(InterfaceEvent::Recv(pid(p), ms.iter().map(|m| m.build()).collect())),
            Ev::Sent(p, m) => Some(InterfaceEvent::Sent(pid(p), m.build())),
            Ev::Cmd(..) => None,
        };
        let label = ev.label(cfg.initiator);
        let res = match (&mut built.beh, io, ev) {
            (Beh::I(b), Some(e), _) => pv::panics::catch(move || b.handle_io(e)),
            (Beh::R(b), Some(e), _) => pv::panics::catch(move || b.handle_io(e)),
            (Beh::I(b), None, Ev::Cmd(k, p, s)) => {
                let c = init_cmd(*k, pid(p), *s);
                pv::panics::catch(move || b.execute(c))
            }
            (Beh::R(b), None, Ev::Cmd(k, p, s)) => {
                let c = resp_cmd(*k, pid(p), *s);
                pv::panics::catch(move || b.execute(c))
            }
            _ => unreachable!(),
        };
        if let Err(p) = res {
            return Some((format!("panic:{who}:{class}:{label}:{}", p.site()), format!("{who} ({}) panicked in {label}: {} [{}:{}]", built.desc, p.msg, p.rel_file(), p.line), i));
        }
        // keep producing outputs
        let polled = match &mut built.beh {
            Beh::I(b) => pv::panics::catch(|| {
                let o = p2pdrive::drain(&mut **b);
                let mut c = (0u64, 0u64, 0u64, 0u64);
                for x in &o {
                    match x {
                        BehaviorOutput::InterfaceCommand(InterfaceCommand::Send(..)) => c.0 += 1,
                        BehaviorOutput::InterfaceCommand(InterfaceCommand::Connect(q)) => {
                            c.1 += 1;
                            if inject && class == "consistent" {
                                if let Some(qi) = built.ids.iter().position(|x| x == q) {
                                    if conn[qi] && !due.iter().any(|d| d.0 == qi) {
                                        due.push((qi, inj_rng.below(4)));
                                        obs.reconnects_injected += 1;
                                    }
                                }
                            }
                        }
                        BehaviorOutput::InterfaceCommand(InterfaceCommand::Disconnect(_)) => c.2 += 1,
                        BehaviorOutput::ExternalEvent(_) => c.3 += 1,
                    }
                }
                (o.len() as u64, c)
            }),
            Beh::R(b) => pv::panics::catch(move || {
                let o = p2pdrive::drain(&mut **b);
                let mut c = (0u64, 0u64, 0u64, 0u64);
                for x in &o {
                    match x {
                        BehaviorOutput::InterfaceCommand(InterfaceCommand::Send(..)) => c.0 += 1,
                        BehaviorOutput::InterfaceCommand(InterfaceCommand::Connect(_)) => c.1 += 1,
                        BehaviorOutput::InterfaceCommand(InterfaceCommand::Disconnect(_)) => c.2 += 1,
                        BehaviorOutput::ExternalEvent(_) => c.3 += 1,
                    }
                }
                (o.len() as u64, c)
            }),
        };
        match polled {
            Err(p) => {
                return Some((format!("panic:{who}:{class}:poll_next after {label}:{}", p.site()), format!("{who} ({}) panicked while its output stream was polled after {label}: {}", built.desc, p.msg), i));
            }
            Ok((n, c)) => {
                if n >= 100_000 {
                    return Some((format!("C29:{who}:{class}:output stream never runs dry after {label}"), format!("{who}: more than 100000 outputs were ready after a single {label}"), i));
                }
                obs.outputs += n;
                obs.sends += c.0;
                obs.connects += c.1;
                obs.disconnects += c.2;
                obs.ext_events += c.3;
            }
        }
        if trace {
            println!("event {i}: {:?} ok", ev);
        }
    }
    match &built.beh {
        Beh::I(b) => {
            obs.initialized_seen |= b.peers.values().any(|s| s.is_initialized());
            obs.flagged_peers += b.promotion.banned_peers.len() as u64;
        }
        Beh::R(b) => {
            obs.initialized_seen |= b.peers.values().any(|s| s.is_initialized());
            obs.flagged_peers += b.peers.values().filter(|s| format!("{:?}", s).contains("violation: true")).count() as u64;
        }
    }
    None
}

/// generator of one sequence; tracks only what it needs to honour the class
fn gen_sequence(cfg: &Cfg, consistent: bool, r: &mut Rng) -> Vec<Ev> {
    let n = cfg.peers;
    let len = 1 + r.usize_below(300);
    // per-sequence weights
    let wv = |r: &mut Rng, base: u64| match r.below(6) {
        0 => 0,
        1 => base * 4,
        _ => base,
    };
    let w_conn = wv(r, 6).max(1);
    let w_disc = wv(r, 2);
    let w_err = wv(r, 2);
    let w_idle = wv(r, 3);
    let w_recv = wv(r, 14).max(2);
    let w_sent = wv(r, 8);
    let w_cmd = wv(r, 8).max(1);
    let friendly = r.below(4); // 0: purely arbitrary messages .. 3: mostly plausible traffic
    let mut connected = vec![false; n + 1];
    let mut fresh = vec![0u8; n + 1]; // progress of the scripted opening after Connected
    let mut out = Vec::with_capacity(len);
    let ncmd = if cfg.initiator { INIT_CMDS.len() } else { RESP_CMDS.len() } as u64;
    while out.len() < len {
        let total = w_conn + w_disc + w_err + w_idle + w_recv + w_sent + w_cmd;
        let mut x = r.below(total);
        let mut pick = 0;
        for (i, w) in [w_conn, w_disc, w_err, w_idle, w_recv, w_sent, w_cmd].iter().enumerate() {
            if x < *w {
                pick = i;
                break;
            }
            x -= *w;
        }
        // in the arbitrary class the extra id `n` (never announced) is used now and then
        let any_peer = |r: &mut Rng| if !consistent && r.chance(1, 12) { n } else { r.usize_below(n) };
        let conn_peer = |r: &mut Rng, want: bool, connected: &Vec<bool>| -> Option<usize> {
            let c: Vec<usize> = (0..n).filter(|i| connected[*i] == want).collect();
            if c.is_empty() {
                None
            } else {
                Some(c[r.usize_below(c.len())])
            }
        };
        let ev = match pick {
            0 => {
                let p = if consistent { conn_peer(r, false, &connected) } else { Some(any_peer(r)) };
                let Some(p) = p else { continue };
                connected[p] = true;
                fresh[p] = 0;
                // an initiator only hears Connected for peers it asked for: include + housekeeping first (mostly)
                if cfg.initiator && r.chance(5, 6) {
                    out.push(Ev::Cmd(0, p, 0));
                    out.push(Ev::Cmd(1, p, 0));
                }
                Ev::Connected(p)
            }
            1 => {
                let p = if consistent { conn_peer(r, true, &connected) } else { Some(any_peer(r)) };
                let Some(p) = p else { continue };
                connected[p] = false;
                Ev::Disconnected(p)
            }
            2 => {
                let p = if consistent { conn_peer(r, true, &connected) } else { Some(any_peer(r)) };
                let Some(p) = p else { continue };
                Ev::Error(p)
            }
            3 => Ev::Idle,
            4 | 5 => {
                let p = if consistent { conn_peer(r, true, &connected) } else { Some(any_peer(r)) };
                let Some(p) = p else { continue };
                // scripted opening: lets the handshake complete so that initialised-only code runs
                if r.below(4) < friendly && fresh[p] < 2 {
                    let step = fresh[p];
                    fresh[p] += 1;
                    if cfg.initiator {
                        if step == 0 {
                            Ev::Sent(p, MsgRef::of(Proto::Handshake, "Propose", r.next_u64(), true))
                        } else {
                            Ev::Recv(p, vec![MsgRef::of(Proto::Handshake, "Accept", r.next_u64(), true)])
                        }
                    } else if step == 0 {
                        Ev::Recv(p, vec![MsgRef::of(Proto::Handshake, "Propose", r.next_u64(), true)])
                    } else {
                        Ev::Sent(p, MsgRef::of(Proto::Handshake, "Accept", r.next_u64(), true))
                    }
                } else if pick == 4 {
                    let k = 1 + if r.chance(1, 4) { r.usize_below(3) } else { 0 };
                    Ev::Recv(p, (0..k).map(|_| MsgRef::random(r)).collect())
                } else {
                    Ev::Sent(p, MsgRef::random(r))
                }
            }
            _ => Ev::Cmd(r.below(ncmd) as u8, any_peer(r), r.next_u64()),
        };
        out.push(ev);
    }
    out.truncate(300);
    out
}

fn replay_json(cfg: &Cfg, class: &str, evs: &[Ev]) -> Value {
    json!({"initiator": cfg.initiator, "peers": cfg.peers, "cfg_seed": cfg.seed.to_string(), "class": class, "events": evs.iter().map(|e| e.to_json()).collect::<Vec<_>>()})
}

fn main() {
    let mut ctx = Ctx::from_args("C29");
    if let Some(p) = ctx.replay.clone() {
        let v: Value = serde_json::from_slice(&std::fs::read(p).unwrap()).unwrap();
        let rp = &v["replay"];
        let cfg = Cfg { initiator: rp["initiator"].as_bool().unwrap(), peers: rp["peers"].as_u64().unwrap() as usize, seed: rp["cfg_seed"].as_str().unwrap().parse().unwrap() };
        let class = rp["class"].as_str().unwrap().to_string();
        let evs: Vec<Ev> = rp["events"].as_array().unwrap().iter().map(Ev::from_json).collect();
        let mut obs = Obs::default();
        let mut ks = vec![];
        println!("{}", build(&cfg).desc);
        let mut executed = vec![];
        match run(&cfg, &class, &evs, &mut obs, &mut ks, true, false, &mut executed) {
            Some((sig, what, at)) => {
                println!("PANIC at event {at}: {sig} :: {what}");
                ctx.violation(&sig, &what, json!(null));
            }
            None => println!("no panic"),
        }
        println!("replayed: violations={}", ctx.n_violations());
        ctx.finish();
    }

    let cases = ctx.budget(5_000, 1_000_000);
    let mut kinds_seen: Vec<String> = vec![];
    for case in 0..cases {
        let mut r = ctx.sub_rng("c29", case);
        let initiator = case % 2 == 0;
        let consistent = (case / 2) % 2 == 0;
        let class = if consistent { "consistent" } else { "arbitrary" };
        let cfg = Cfg { initiator, peers: 1 + r.usize_below(5), seed: r.next_u64() };
        let evs = gen_sequence(&cfg, consistent, &mut r);
        let who = if initiator { "initiator" } else { "responder" };
        ctx.begin_case(&format!("{who}:{class}\n{}", replay_json(&cfg, class, &evs)), 60);
        let mut obs = Obs::default();
        let mut executed: Vec<Ev> = Vec::with_capacity(evs.len() + 8);
        let res = run(&cfg, class, &evs, &mut obs, &mut kinds_seen, false, true, &mut executed);
        ctx.end_case();
        ctx.eval();
        ctx.count(&format!("sequences_{who}_{class}"));
        ctx.add("events_delivered", obs.events);
        ctx.add("outputs_drained", obs.outputs);
        ctx.add("out_send", obs.sends);
        ctx.add("out_connect", obs.connects);
        ctx.add("out_disconnect", obs.disconnects);
        ctx.add("out_external_events", obs.ext_events);
        ctx.add("inbound_spec_violating", obs.violating_inbound);
        ctx.add("inbound_spec_legal", obs.legal_inbound);
        ctx.add("errors_and_disconnects", obs.err_or_disc);
        ctx.add("peers_flagged_or_banned_at_end", obs.flagged_peers);
        ctx.add("connected_events_injected_for_repeated_connect", obs.reconnects_injected);
        if obs.initialized_seen {
            ctx.count(&format!("sequences_with_initialized_peer_{who}"));
        }
        ctx.max("longest_sequence", evs.len() as u64);
        if let Some((sig, what, at)) = res {
            ctx.count("panics_seen");
            let at = at.min(executed.len() - 1);
            ctx.violation(&sig, &format!("{what}; failing event #{at}: {:?}", executed[at]), replay_json(&cfg, class, &executed[..=at]));
        }
        if obs.violating_inbound > 0 && obs.err_or_disc > 0 {
            ctx.nontrivial(fp(replay_json(&cfg, class, &evs[..evs.len().min(40)]).to_string().as_bytes()) ^ case);
        }
        if case < 4 {
            ctx.sample(json!({"behaviour": who, "class": class, "config": build(&cfg).desc, "events": evs.len(), "first_events": evs.iter().take(12).map(|e| format!("{:?}", e)).collect::<Vec<_>>()}));
        }
    }
    for k in &kinds_seen {
        ctx.set_insert("inbound_message_kinds", k);
    }
    ctx.add("message_kinds_total", p2pgen::n_kinds() as u64 / ctx.nshards.max(1) as u64);
    ctx.finish();
}
