//! C05 — ledger identity hashes are taken over the original on-wire bytes.
//! Oracle: own CBOR walker (`pv::cbor`, `pv::spans`) locates the span of each header / tx body /
//! datum / script in the input bytes; reference Blake2b (`pv::refhash`) over exactly that span
//! (Byron `[0|1, header]` prefix, script language tag prefix). Neither pallas, minicbor nor
//! cryptoxide take part in locating spans or hashing.
//! Workload: every corpus block / tx / header as is, then semantics-preserving re-encodings
//! (point-wise style changes, `cbor::restyle` of whole items or of one header / body / witness set,
//! re-encoding of tag-24 embedded CBOR, tag 258 added on Conway sets). Variants pallas refuses to
//! decode are `rejected`, not evaluations.
use pallas_codec::minicbor;
use pallas_primitives::conway;
use pallas_traverse::{ComputeHash, Era, MultiEraBlock, MultiEraHeader, MultiEraOutput, MultiEraTx, OriginalHash};
use pv::cbor::{Item, Node, Restyle};
use pv::spans::{self, Step};
use pv::*;

struct Mon<'c> {
    ctx: &'c mut Ctx,
    kind: String,
    replay: serde_json::Value,
}

impl Mon<'_> {
    /// one identity-hash observation: `got` (pallas) vs reference hash of `span` (with `prefix`)
    /// `reenc` = pallas' own re-encoding of the decoded value (classification only: non-trivial
    /// when it differs from the span); `nontrivial` overrides that rule where the hashed bytes are
    /// the payload of a byte string rather than a CBOR item.
    fn hash(&mut self, object: &str, fam: &str, got: &[u8], prefix: &[u8], span: &[u8], reenc: Option<Vec<u8>>) {
        self.hash2(object, fam, got, prefix, span, reenc, None)
    }
    fn hash2(&mut self, object: &str, fam: &str, got: &[u8], prefix: &[u8], span: &[u8], reenc: Option<Vec<u8>>, nontrivial: Option<bool>) {
        let mut data = prefix.to_vec();
        data.extend_from_slice(span);
        let want = if got.len() == 28 { pv::refhash::blake2b_224(&data).to_vec() } else { pv::refhash::blake2b_256(&data).to_vec() };
        self.ctx.eval();
        self.ctx.count(&format!("hashes_{object}"));
        let nontrivial = nontrivial.unwrap_or_else(|| reenc.as_ref().map(|r| r.as_slice() != span).unwrap_or(false));
        if nontrivial {
            self.ctx.nontrivial(fp_mix(fp(object.as_bytes()), fp(span)));
            self.ctx.count(&format!("nontrivial_{object}"));
            if !self.kind.starts_with("restyled") {
                self.ctx.count(&format!("nontrivial_as_found_in_corpus_{object}"));
            }
        }
        if got != want.as_slice() {
            let h_of = |bytes: &[u8]| -> Vec<u8> {
                let mut d = prefix.to_vec();
                d.extend_from_slice(bytes);
                if got.len() == 28 {
                    pv::refhash::blake2b_224(&d).to_vec()
                } else {
                    pv::refhash::blake2b_256(&d).to_vec()
                }
            };
            let mut cls = "other";
            if let Some(r) = &reenc {
                if h_of(r) == got {
                    cls = "hash-of-reencoding";
                }
            }
            if cls == "other" {
                for k in 1..=3usize {
                    if span.len() > k && h_of(&span[..span.len() - k]) == got {
                        cls = "hash-of-truncated-span";
                    }
                }
            }
            // one defect, one signature: a datum containing `#6.102([_ ...])` (indefinite-length
            // constructor array) whose reported hash covers the span without its last bytes
            if cls == "hash-of-truncated-span" && object.contains("datum_hash") && has_constr102_indef(span) {
                let what = format!(
                    "[{}] {object} ({fam}): datum {} contains #6.102 with an indefinite-length array; library reports {} = Blake2b of the span without its final break byte(s); Blake2b of the on-wire bytes is {}",
                    self.kind,
                    hex_short(span),
                    hexs(got),
                    hexs(&want)
                );
                self.ctx.count("seen_constr102_truncated_datum_hash");
                self.ctx.violation("C05:datum_hash:truncated-span:constr102-indefinite-array", &what, self.replay.clone());
                return;
            }
            let what = format!(
                "[{}] {object} ({fam}): library reports {} but Blake2b of the on-wire bytes ({} prefix bytes + span {}) is {}; {cls}",
                self.kind,
                hexs(got),
                prefix.len(),
                hex_short(span),
                hexs(&want)
            );
            self.ctx.violation(&format!("C05:{object}:{cls}:{fam}"), &what, self.replay.clone());
        }
    }
    fn pairing_failed(&mut self, object: &str) {
        self.ctx.count(&format!("pairing_failed_{object}"));
    }
}

/// does the CBOR item contain tag 102 applied to an indefinite-length array?
fn has_constr102_indef(span: &[u8]) -> bool {
    fn rec(it: &Item) -> bool {
        (it.major == 6 && it.arg == 102 && it.children[0].major == 4 && it.children[0].indef) || it.children.iter().any(rec)
    }
    cbor::parse(span).map(|it| rec(&it)).unwrap_or(false)
}

fn enc<T: minicbor::Encode<()>>(x: &T) -> Option<Vec<u8>> {
    minicbor::to_vec(x).ok()
}

/// pallas' own re-encoding of the decoded body (classification only)
fn body_reenc(tx: &MultiEraTx) -> Option<Vec<u8>> {
    if let Some(x) = tx.as_conway() {
        return enc(&*x.transaction_body);
    }
    if let Some(x) = tx.as_babbage() {
        return enc(&*x.transaction_body);
    }
    if let Some(x) = tx.as_alonzo() {
        return enc(&*x.transaction_body);
    }
    if let Some(x) = tx.as_byron() {
        return enc(&*x.transaction);
    }
    None
}

fn header_reenc(h: &MultiEraHeader) -> Option<Vec<u8>> {
    if let Some(x) = h.as_eb() {
        return enc(x);
    }
    if let Some(x) = h.as_byron() {
        return enc(x);
    }
    if let Some(x) = h.as_alonzo() {
        return enc(x);
    }
    if let Some(x) = h.as_babbage() {
        return enc(x);
    }
    None
}

/// datum / script carried by one output (map form): key 2 = [1, #6.24(bytes)], key 3 = #6.24(bytes .cbor [k, script])
fn check_output(m: &mut Mon, fam: &str, src: &[u8], own: &Item, out: &MultiEraOutput, place: &str) {
    if own.major != 5 {
        return;
    }
    if let Some(d) = own.map_get_uint(2) {
        if d.major == 4 && d.children.len() == 2 && d.children[0].major == 0 && d.children[0].arg == 1 && d.children[1].major == 6 && d.children[1].children[0].major == 2 {
            let payload = d.children[1].children[0].str_payload(src);
            match out.datum() {
                Some(conway::DatumOption::Data(w)) => {
                    let k = &w.0;
                    m.hash(&format!("inline_datum_hash({place})"), fam, k.original_hash().as_ref(), &[], &payload, enc(&**k));
                }
                _ => m.pairing_failed("inline_datum"),
            }
        }
    }
    if let Some(s) = own.map_get_uint(3) {
        if s.major == 6 && s.children[0].major == 2 {
            let payload = s.children[0].str_payload(src);
            if let Ok(it) = cbor::parse(&payload) {
                if it.major == 4 && it.children.len() == 2 && it.children[0].major == 0 {
                    let lang = it.children[0].arg;
                    let sc = &it.children[1];
                    match (lang, out.script_ref()) {
                        (0, Some(conway::ScriptRef::NativeScript(k))) => {
                            m.hash(&format!("native_script_hash(ref,{place})"), fam, k.original_hash().as_ref(), &[0], sc.bytes(&payload), enc(&*k))
                        }
                        (1, Some(conway::ScriptRef::PlutusV1Script(p))) if sc.major == 2 => {
                            m.hash2(&format!("plutus_script_hash(ref,v1,{place})"), fam, p.compute_hash().as_ref(), &[1], &sc.str_payload(&payload), None, Some(enc(&p).map(|r| r.as_slice() != sc.bytes(&payload)).unwrap_or(false)))
                        }
                        (2, Some(conway::ScriptRef::PlutusV2Script(p))) if sc.major == 2 => {
                            m.hash2(&format!("plutus_script_hash(ref,v2,{place})"), fam, p.compute_hash().as_ref(), &[2], &sc.str_payload(&payload), None, Some(enc(&p).map(|r| r.as_slice() != sc.bytes(&payload)).unwrap_or(false)))
                        }
                        (3, Some(conway::ScriptRef::PlutusV3Script(p))) if sc.major == 2 => {
                            m.hash2(&format!("plutus_script_hash(ref,v3,{place})"), fam, p.compute_hash().as_ref(), &[3], &sc.str_payload(&payload), None, Some(enc(&p).map(|r| r.as_slice() != sc.bytes(&payload)).unwrap_or(false)))
                        }
                        _ => m.pairing_failed("script_ref"),
                    }
                }
            }
        }
    }
}

/// all identity hashes of one traversed transaction against the spans `body` / `wits` in `src`
fn check_tx_hashes(m: &mut Mon, tx: &MultiEraTx, src: &[u8], body: &Item, wits: &Item) {
    let fam = format!("{:?}", tx.era());
    let fam = fam.as_str();
    m.hash("tx_id", fam, tx.hash().as_ref(), &[], body.bytes(src), body_reenc(tx));
    if tx.era() == Era::Byron || wits.major != 5 || body.major != 5 {
        return;
    }
    // witness-set datums (key 4)
    let pd = tx.plutus_data();
    let own_pd: Vec<&Item> = wits.map_get_uint(4).map(|x| spans::untag(x).children.iter().collect()).unwrap_or_default();
    if pd.len() != own_pd.len() {
        m.pairing_failed("witness_datum");
    } else {
        for (k, it) in pd.iter().zip(own_pd) {
            m.hash("datum_hash(witness)", fam, k.original_hash().as_ref(), &[], it.bytes(src), enc(&**k));
        }
    }
    // native scripts (key 1)
    let ns = tx.native_scripts();
    let own_ns: Vec<&Item> = wits.map_get_uint(1).map(|x| spans::untag(x).children.iter().collect()).unwrap_or_default();
    if ns.len() != own_ns.len() {
        m.pairing_failed("witness_native_script");
    } else {
        for (k, it) in ns.iter().zip(own_ns) {
            m.hash("native_script_hash(witness)", fam, k.original_hash().as_ref(), &[0], it.bytes(src), enc(&**k));
        }
    }
    // plutus scripts (keys 3, 6, 7): language tag + the script bytes carried by the byte string
    let own_ps = |key: u64| -> Vec<&Item> { wits.map_get_uint(key).map(|x| spans::untag(x).children.iter().collect()).unwrap_or_default() };
    macro_rules! plutus {
        ($list:expr, $key:expr, $lang:expr, $name:expr) => {
            let l = $list;
            let own = own_ps($key);
            if l.len() != own.len() {
                m.pairing_failed($name);
            } else {
                for (s, it) in l.iter().zip(own) {
                    if it.major == 2 {
                        // non-trivial when the byte string on the wire is not what pallas would write
                        let nt = enc(s).map(|r| r.as_slice() != it.bytes(src)).unwrap_or(false);
                        m.hash2($name, fam, s.compute_hash().as_ref(), &[$lang], &it.str_payload(src), None, Some(nt));
                    }
                }
            }
        };
    }
    plutus!(tx.plutus_v1_scripts(), 3, 1u8, "plutus_script_hash(witness,v1)");
    plutus!(tx.plutus_v2_scripts(), 6, 2u8, "plutus_script_hash(witness,v2)");
    plutus!(tx.plutus_v3_scripts(), 7, 3u8, "plutus_script_hash(witness,v3)");
    // outputs: inline datums and reference scripts
    if let Some(outs) = body.map_get_uint(1) {
        let po = tx.outputs();
        if po.len() != outs.children.len() {
            m.pairing_failed("outputs");
        } else {
            for (o, it) in po.iter().zip(outs.children.iter()) {
                check_output(m, fam, src, it, o, "output");
            }
        }
    }
    if let (Some(own), Some(o)) = (body.map_get_uint(16), tx.collateral_return()) {
        check_output(m, fam, src, own, &o, "collateral-return");
    }
}

/// (tag for MultiEraHeader::decode, subtag) from the block wrapper tag
fn header_tags(block_tag: u64) -> (u8, Option<u8>) {
    match block_tag {
        0 => (0, Some(0)),
        1 => (0, Some(1)),
        t => ((t - 1) as u8, None),
    }
}

fn check_header_standalone(ctx: &mut Ctx, block_tag: u64, bytes: &[u8], kind: &str) -> bool {
    if cbor::parse(bytes).is_err() {
        ctx.count("own_model_does_not_apply");
        return false;
    }
    let fam = spans::era_name(block_tag);
    let (t, st) = header_tags(block_tag);
    let replay = json!({"what": "header", "tag": block_tag, "kind": kind, "bytes": hexs(bytes)});
    let r = pv::panics::catch(|| MultiEraHeader::decode(t, st, bytes).map(|h| (h.hash().to_vec(), header_reenc(&h))));
    match r {
        Err(p) => {
            ctx.violation(&format!("panic:MultiEraHeader::decode:{}", p.site()), &format!("header decode/hash panicked: {}", p.msg), replay);
            false
        }
        Ok(Err(_)) => {
            ctx.count("rejected");
            ctx.count(&format!("rejected_header-{kind}"));
            false
        }
        Ok(Ok((got, re))) => {
            ctx.count(&format!("accepted_header-{kind}"));
            let mut m = Mon { ctx, kind: kind.to_string(), replay };
            let prefix: Vec<u8> = if block_tag <= 1 { vec![0x82, block_tag as u8] } else { vec![] };
            m.hash("header_hash(standalone)", fam, &got, &prefix, bytes, re);
            true
        }
    }
}

/// Fault injection between identity hashes: a value whose `Encode` writes a few bytes and then panics is
/// pushed through the library's CBOR hashing entry points under `catch_unwind`, on the thread that
/// computes the next identifiers. A failed hash of something else must leave no trace in them.
struct FaultyEncode(u8);
impl<C> minicbor::Encode<C> for FaultyEncode {
    fn encode<W: minicbor::encode::Write>(&self, e: &mut minicbor::Encoder<W>, _ctx: &mut C) -> Result<(), minicbor::encode::Error<W::Error>> {
        e.array(3)?.u8(self.0)?.bytes(&[self.0; 9])?;
        panic!("pv: injected encoder fault");
    }
}
fn inject_hash_fault(ctx: &mut Ctx) {
    let k = ctx.rng.next_u8();
    let _ = pv::panics::catch(|| match k % 3 {
        0 => { let _ = pallas_crypto::hash::Hasher::<256>::hash_cbor(&FaultyEncode(k)); }
        1 => { let _ = pallas_crypto::hash::Hasher::<256>::hash_tagged_cbor(&FaultyEncode(k), k); }
        _ => { let _ = pallas_crypto::hash::Hasher::<224>::hash_tagged_cbor(&FaultyEncode(k), 0); }
    });
    ctx.count("injected_encoder_faults_before_identity_hash");
}

fn check_block(ctx: &mut Ctx, bytes: &[u8], kind: &str) -> bool {
    if ctx.rng.chance(1, 6) {
        inject_hash_fault(ctx);
    }
    let sp = match spans::block_spans(bytes) {
        Ok(s) => s,
        Err(_) => {
            ctx.count("own_model_does_not_apply");
            return false;
        }
    };
    let fam = spans::era_name(sp.tag);
    let replay = json!({"what": "block", "kind": kind, "bytes": hexs(bytes)});
    let block = match pv::panics::catch(|| MultiEraBlock::decode(bytes)) {
        Err(p) => {
            ctx.violation(&format!("panic:MultiEraBlock::decode:{}", p.site()), &format!("decode of a {fam} block panicked: {}", p.msg), replay);
            return false;
        }
        Ok(Err(_)) => {
            ctx.count("rejected");
            ctx.count(&format!("rejected_block-{kind}"));
            return false;
        }
        Ok(Ok(b)) => b,
    };
    ctx.count(&format!("accepted_block-{kind}"));
    ctx.set_insert("wrapper_tags", &format!("{}", sp.tag));
    let mut m = Mon { ctx, kind: kind.to_string(), replay: replay.clone() };
    let r = pv::panics::catch(std::panic::AssertUnwindSafe(|| {
        let hb = sp.header.bytes(bytes);
        let prefix: Vec<u8> = if sp.tag <= 1 { vec![0x82, sp.tag as u8] } else { vec![] };
        let header = block.header();
        let re = header_reenc(&header);
        m.hash("block_hash", fam, block.hash().as_ref(), &prefix, hb, re.clone());
        m.hash("header_hash", fam, header.hash().as_ref(), &prefix, hb, re);
        if header.cbor() != hb {
            m.ctx.violation(&format!("C05:header_cbor:{fam}"), &format!("[{kind}] header().cbor() is not the header span of the block"), replay.clone());
        }
        let txs = block.txs();
        if txs.len() != sp.txs.len() || sp.n_bodies != sp.n_wits {
            m.pairing_failed("block_txs");
        } else {
            for (tx, own) in txs.iter().zip(sp.txs.iter()) {
                check_tx_hashes(&mut m, tx, bytes, &own.body, &own.wits);
            }
        }
    }));
    if let Err(p) = r {
        ctx.violation(&format!("panic:hashes:{}", p.site()), &format!("hashing an accepted {fam} block panicked: {}", p.msg), replay);
    }
    true
}

fn check_tx_standalone(ctx: &mut Ctx, bytes: &[u8], era: Option<Era>, kind: &str) -> bool {
    if ctx.rng.chance(1, 6) {
        inject_hash_fault(ctx);
    }
    let Ok(top) = cbor::parse(bytes) else {
        ctx.count("own_model_does_not_apply");
        return false;
    };
    if top.major != 4 || !(top.children.len() == 2 || top.children.len() == 4) {
        ctx.count("own_model_does_not_apply");
        return false;
    }
    let era_s = era.map(|e| format!("{e:?}")).unwrap_or("auto".into());
    let replay = json!({"what": "tx", "era": era_s, "kind": kind, "bytes": hexs(bytes)});
    let dec = pv::panics::catch(|| match era {
        Some(e) => MultiEraTx::decode_for_era(e, bytes).map_err(|_| ()),
        None => MultiEraTx::decode(bytes).map_err(|_| ()),
    });
    let tx = match dec {
        Err(p) => {
            ctx.violation(&format!("panic:MultiEraTx::decode:{}", p.site()), &format!("tx decode panicked: {}", p.msg), replay);
            return false;
        }
        Ok(Err(())) => {
            ctx.count("rejected");
            ctx.count(&format!("rejected_tx-{kind}"));
            return false;
        }
        Ok(Ok(t)) => t,
    };
    if (tx.era() == Era::Byron) != (top.children.len() == 2) {
        ctx.count("own_model_does_not_apply");
        return false;
    }
    ctx.count(&format!("accepted_tx-{kind}"));
    let mut m = Mon { ctx, kind: kind.to_string(), replay: replay.clone() };
    let r = pv::panics::catch(std::panic::AssertUnwindSafe(|| check_tx_hashes(&mut m, &tx, bytes, &top.children[0], &top.children[1])));
    if let Err(p) = r {
        ctx.violation(&format!("panic:hashes:{}", p.site()), &format!("hashing an accepted tx panicked: {}", p.msg), replay);
    }
    true
}

// ---------------------------------------------------------------------------------------
// semantics-preserving variants
// ---------------------------------------------------------------------------------------

fn random_profile(rng: &mut Rng) -> (Restyle, &'static str) {
    let p = *rng.pick(&[3u64, 8, 20, 45]);
    match rng.below(7) {
        0 => (Restyle::widths(p), "widths"),
        1 => (Restyle { width_pct: p, int_heads_only: true, ..Restyle::NONE }, "int-heads"),
        2 => (Restyle::containers(p), "containers"),
        3 => (Restyle { chunk_pct: p, ..Restyle::NONE }, "chunked-strings"),
        4 => (Restyle { permute_pct: p.max(20), ..Restyle::NONE }, "permuted-maps"),
        5 => (Restyle { tag258_pct: 60, ..Restyle::NONE }, "tag258-dropped"),
        _ => (Restyle { width_pct: p, indef_pct: p, chunk_pct: p / 2, permute_pct: p, tag258_pct: p, min_depth: 0, int_heads_only: false }, "mixed"),
    }
}

/// re-encode CBOR embedded in `#6.24(bytes)` items (inline datums, reference scripts, Byron addresses / inputs)
fn restyle_embedded(n: &mut Node, rng: &mut Rng, st: &Restyle, pct: u64, done: &mut usize) {
    match n {
        Node::Tag(24, _, inner) => {
            if let Node::Bytes(b, _) = &mut **inner {
                if rng.below(100) < pct {
                    if let Ok(it) = cbor::parse(b) {
                        let node = cbor::to_node(b, &it);
                        let (r, k) = cbor::restyle(&node, rng, st);
                        if k > 0 {
                            *b = r.to_vec();
                            *done += 1;
                        }
                    }
                }
            }
        }
        Node::Array(xs, _) | Node::ArrayIndef(xs) => xs.iter_mut().for_each(|x| restyle_embedded(x, rng, st, pct, done)),
        Node::Map(xs, _) | Node::MapIndef(xs) => xs.iter_mut().for_each(|(_, v)| restyle_embedded(v, rng, st, pct, done)),
        Node::Tag(_, _, x) => restyle_embedded(x, rng, st, pct, done),
        _ => {}
    }
}

/// One variant of a block / tx / header node. `parts` = paths of the sub-items worth targeting
/// (header, bodies, witness sets). Returns the label of the transformation.
fn make_variant(root: &Node, parts: &[Vec<Step>], set_paths: &[Vec<Step>], rng: &mut Rng, bias_embedded: bool) -> Option<(Vec<u8>, String)> {
    let mut n = root.clone();
    let label;
    let choice = if bias_embedded && rng.bool() { 7 } else { rng.below(10) };
    match choice {
        0..=2 => {
            let k = 1 + rng.usize_below(6);
            let applied = spans::restyle_points(&mut n, rng, k);
            if applied.is_empty() {
                return None;
            }
            label = format!("points:{}", applied.join("+"));
        }
        3..=6 if !parts.is_empty() => {
            let path = rng.pick(parts);
            let (st, name) = random_profile(rng);
            let target = spans::node_at(&mut n, path)?;
            let (r, k) = cbor::restyle(target, rng, &st);
            if k == 0 {
                return None;
            }
            *target = r;
            label = format!("part:{name}");
        }
        7 => {
            let (st, name) = random_profile(rng);
            let mut done = 0;
            restyle_embedded(&mut n, rng, &st, 50, &mut done);
            if done == 0 {
                return None;
            }
            label = format!("embedded:{name}");
        }
        8 if !set_paths.is_empty() => {
            let path = rng.pick(set_paths);
            if !spans::add_tag258(&mut n, path) {
                return None;
            }
            label = "tag258-added".to_string();
        }
        _ => {
            // whole item, low density
            let p = *rng.pick(&[1u64, 2, 4]);
            let st = Restyle { width_pct: p, indef_pct: p, chunk_pct: p, permute_pct: p, tag258_pct: p, min_depth: 1, int_heads_only: false };
            let (r, k) = cbor::restyle(&n, rng, &st);
            if k == 0 {
                return None;
            }
            n = r;
            label = "whole:mixed".to_string();
        }
    }
    Some((n.to_vec(), label))
}

/// datums / scripts found in the corpus witness sets (raw bytes), used to give standalone txs
/// outputs with inline datums and reference scripts of every kind
#[derive(Default)]
struct Pools {
    datums: Vec<Vec<u8>>,
    natives: Vec<Vec<u8>>,
    plutus: [Vec<Vec<u8>>; 3],
}

fn collect_pools(blocks: &[pv::corpus::Artefact]) -> Pools {
    let mut p = Pools::default();
    for a in blocks {
        let Ok(sp) = spans::block_spans(&a.bytes) else { continue };
        if sp.tag < 5 {
            // native scripts exist from Allegra on
            if sp.tag < 3 {
                continue;
            }
        }
        for t in &sp.txs {
            if t.wits.major != 5 {
                continue;
            }
            let items = |k: u64| -> Vec<&Item> { t.wits.map_get_uint(k).map(|x| spans::untag(x).children.iter().collect()).unwrap_or_default() };
            for it in items(4) {
                if p.datums.len() < 300 && it.end - it.start < 4000 {
                    p.datums.push(it.bytes(&a.bytes).to_vec());
                }
            }
            for it in items(1) {
                if p.natives.len() < 200 {
                    p.natives.push(it.bytes(&a.bytes).to_vec());
                }
            }
            for (slot, k) in [(0usize, 3u64), (1, 6), (2, 7)] {
                for it in items(k) {
                    if it.major == 2 && p.plutus[slot].len() < 24 {
                        p.plutus[slot].push(it.str_payload(&a.bytes));
                    }
                }
            }
        }
    }
    p
}

/// append outputs carrying an inline datum and / or a reference script to a standalone tx node
fn enrich(root: &Node, rng: &mut Rng, pools: &Pools, era: Era) -> Option<Node> {
    let mut n = root.clone();
    let outs = spans::node_at(&mut n, &[Step::Idx(0), Step::Key(1)])?;
    let xs = match outs {
        Node::Array(xs, _) | Node::ArrayIndef(xs) => xs,
        _ => return None,
    };
    let k = 1 + rng.usize_below(3);
    for _ in 0..k {
        let mut addr = vec![0x61u8];
        addr.extend(rng.bytes(28));
        let mut e = vec![(Node::u(0), Node::bytes(&addr)), (Node::u(1), Node::u(1_000_000 + rng.below(1 << 30)))];
        if rng.chance(1, 4) {
            // general-constructor form #6.102([index, fields]) in a random container style
            let fields: Vec<Node> = (0..rng.usize_below(3)).map(|_| Node::u(rng.below(1000))).collect();
            let fields = if rng.bool() { Node::ArrayIndef(fields) } else { Node::arr(fields) };
            let pair = vec![Node::u(rng.below(300)), fields];
            let d = Node::tag(102, if rng.bool() { Node::ArrayIndef(pair) } else { Node::arr(pair) }).to_vec();
            e.push((Node::u(2), Node::arr(vec![Node::u(1), Node::tag(24, Node::bytes(&d))])));
        } else if !pools.datums.is_empty() && rng.chance(3, 4) {
            let d: &Vec<u8> = rng.pick(&pools.datums);
            e.push((Node::u(2), Node::arr(vec![Node::u(1), Node::tag(24, Node::bytes(d))])));
        }
        if rng.chance(3, 4) {
            let max_lang = if era >= Era::Conway { 4 } else { 3 };
            let lang = rng.below(max_lang);
            let script = if lang == 0 {
                if pools.natives.is_empty() {
                    continue;
                }
                let s: &Vec<u8> = rng.pick(&pools.natives);
                Node::raw(s)
            } else {
                let pool = &pools.plutus[(lang - 1) as usize];
                let pool = if pool.is_empty() { &pools.plutus[0] } else { pool };
                if pool.is_empty() {
                    continue;
                }
                let s: &Vec<u8> = rng.pick(pool);
                Node::bytes(s)
            };
            let inner = Node::arr(vec![Node::u(lang), script]).to_vec();
            e.push((Node::u(3), Node::tag(24, Node::bytes(&inner))));
        }
        xs.push(Node::map(e));
    }
    Some(n)
}

fn label_class(l: &str) -> &str {
    l.split(':').next().unwrap_or(l)
}

fn main() {
    let mut ctx = Ctx::from_args("C05");
    if let Some(p) = ctx.replay.clone() {
        let v: serde_json::Value = serde_json::from_slice(&std::fs::read(p).unwrap()).unwrap();
        let r = &v["replay"];
        let b = hex::decode(r["bytes"].as_str().unwrap()).unwrap();
        let ok = match r["what"].as_str().unwrap_or("") {
            "block" => check_block(&mut ctx, &b, "replay"),
            "header" => check_header_standalone(&mut ctx, r["tag"].as_u64().unwrap(), &b, "replay"),
            _ => {
                let era = match r["era"].as_str().unwrap_or("auto") {
                    "Byron" => Some(Era::Byron),
                    "Shelley" => Some(Era::Shelley),
                    "Allegra" => Some(Era::Allegra),
                    "Mary" => Some(Era::Mary),
                    "Alonzo" => Some(Era::Alonzo),
                    "Babbage" => Some(Era::Babbage),
                    "Conway" => Some(Era::Conway),
                    _ => None,
                };
                check_tx_standalone(&mut ctx, &b, era, "replay")
            }
        };
        println!("replayed: accepted={ok} violations={}", ctx.n_violations());
        ctx.finish();
    }
    let quick = ctx.quick();
    let scale = ctx.scale;
    let nvar = |q: usize, t: usize| -> usize { (((if quick { q } else { t }) as f64) * scale).ceil() as usize };
    let mut idx = 0u64;

    let blocks = pv::corpus::all_blocks(1);
    let pools = collect_pools(&blocks);
    ctx.max("pool_datums", pools.datums.len() as u64);
    ctx.max("pool_native_scripts", pools.natives.len() as u64);
    ctx.max("pool_plutus_scripts", pools.plutus.iter().map(|p| p.len() as u64).sum());

    // 1. blocks (and the headers / txs they carry, standalone)
    for a in blocks.iter() {
        idx += 1;
        if !ctx.owns(idx) {
            continue;
        }
        if !check_block(&mut ctx, &a.bytes, "corpus") {
            continue;
        }
        let Ok(top) = cbor::parse(&a.bytes) else { continue };
        let Ok(sp) = spans::block_spans_of(&top) else { continue };
        let root = cbor::to_node(&a.bytes, &top);
        // paths of header / bodies / witness sets inside the wrapped block node
        let mut parts: Vec<Vec<Step>> = vec![vec![Step::Idx(1), Step::Idx(0)]];
        let mut set_paths: Vec<Vec<Step>> = vec![];
        for i in 0..sp.txs.len() {
            if sp.tag == 1 {
                parts.push(vec![Step::Idx(1), Step::Idx(1), Step::Idx(0), Step::Idx(i), Step::Idx(0)]);
                parts.push(vec![Step::Idx(1), Step::Idx(1), Step::Idx(0), Step::Idx(i), Step::Idx(1)]);
            } else {
                parts.push(vec![Step::Idx(1), Step::Idx(1), Step::Idx(i)]);
                parts.push(vec![Step::Idx(1), Step::Idx(1), Step::Idx(i)]);
                parts.push(vec![Step::Idx(1), Step::Idx(2), Step::Idx(i)]);
                if sp.tag == 7 {
                    for k in [0u64, 13, 18] {
                        if sp.txs[i].body.map_get_uint(k).is_some() {
                            set_paths.push(vec![Step::Idx(1), Step::Idx(1), Step::Idx(i), Step::Key(k)]);
                        }
                    }
                    for k in [0u64, 1, 3, 4, 6, 7] {
                        if sp.txs[i].wits.map_get_uint(k).is_some() {
                            set_paths.push(vec![Step::Idx(1), Step::Idx(2), Step::Idx(i), Step::Key(k)]);
                        }
                    }
                }
            }
        }
        let rich = sp.tag != 6 || a.name.ends_with(".block");
        let nv = if rich { nvar(40, 400) } else { nvar(6, 64) };
        for _ in 0..nv {
            let mut rng = Rng::new(ctx.rng.next_u64());
            let Some((b, label)) = make_variant(&root, &parts, &set_paths, &mut rng, false) else { continue };
            ctx.count("variants_made");
            let kind = format!("restyled-{}", label_class(&label));
            if check_block(&mut ctx, &b, &kind) {
                for k in label.split(':').nth(1).unwrap_or("").split('+') {
                    ctx.set_insert("accepted_style_changes", k);
                }
                if ctx.want_sample() && label.starts_with("part") {
                    ctx.sample(json!({"what": "block", "source": a.name, "variant": label, "bytes": hex_short(&b)}));
                }
            }
        }
        // standalone header
        let hb = sp.header.bytes(&a.bytes).to_vec();
        if check_header_standalone(&mut ctx, sp.tag, &hb, "corpus-block-header") {
            if let Ok(hit) = cbor::parse(&hb) {
                let hroot = cbor::to_node(&hb, &hit);
                for _ in 0..if rich { nvar(10, 100) } else { nvar(2, 16) } {
                    let mut rng = Rng::new(ctx.rng.next_u64());
                    let Some((b, label)) = make_variant(&hroot, &[vec![]], &[], &mut rng, false) else { continue };
                    ctx.count("variants_made");
                    check_header_standalone(&mut ctx, sp.tag, &b, &format!("restyled-{}", label_class(&label)));
                }
            }
        }
        // standalone txs of this block
        if rich {
            let era = match sp.tag {
                1 => Era::Byron,
                2 => Era::Shelley,
                3 => Era::Allegra,
                4 => Era::Mary,
                5 => Era::Alonzo,
                6 => Era::Babbage,
                _ => Era::Conway,
            };
            for t in sp.txs.iter().take(12) {
                let node = if sp.tag == 1 {
                    Node::arr(vec![Node::raw(t.body.bytes(&a.bytes)), Node::raw(t.wits.bytes(&a.bytes))])
                } else {
                    let aux = t.aux.as_ref().map(|x| Node::raw(x.bytes(&a.bytes))).unwrap_or(Node::Null);
                    Node::arr(vec![Node::raw(t.body.bytes(&a.bytes)), Node::raw(t.wits.bytes(&a.bytes)), Node::Bool(t.valid), aux])
                };
                let b = node.to_vec();
                tx_with_variants(&mut ctx, &b, Some(era), "corpus-block-tx", nvar(6, 60), &pools);
            }
        }
    }
    // 2. tx files
    for t in pv::corpus::txs() {
        idx += 1;
        if !ctx.owns(idx) {
            continue;
        }
        for era in [None, Some(Era::Byron), Some(Era::Alonzo), Some(Era::Babbage), Some(Era::Conway)] {
            tx_with_variants(&mut ctx, &t.bytes, era, "corpus-file", nvar(30, 300), &pools);
        }
    }
    // 3. header files
    for h in pv::corpus::headers() {
        idx += 1;
        if !ctx.owns(idx) {
            continue;
        }
        let tag = if h.name.starts_with("byron") { 1 } else { 5 };
        if check_header_standalone(&mut ctx, tag, &h.bytes, "corpus-file") {
            if let Ok(hit) = cbor::parse(&h.bytes) {
                let hroot = cbor::to_node(&h.bytes, &hit);
                for _ in 0..nvar(200, 2000) {
                    let mut rng = Rng::new(ctx.rng.next_u64());
                    let Some((b, label)) = make_variant(&hroot, &[vec![]], &[], &mut rng, false) else { continue };
                    ctx.count("variants_made");
                    check_header_standalone(&mut ctx, tag, &b, &format!("restyled-{}", label_class(&label)));
                }
            }
        }
    }
    ctx.finish();
}

fn tx_with_variants(ctx: &mut Ctx, bytes: &[u8], era: Option<Era>, kind: &str, nv: usize, pools: &Pools) {
    if !check_tx_standalone(ctx, bytes, era, kind) {
        return;
    }
    let Ok(top) = cbor::parse(bytes) else { return };
    let root = cbor::to_node(bytes, &top);
    let mut parts: Vec<Vec<Step>> = vec![vec![Step::Idx(0)], vec![Step::Idx(0)], vec![Step::Idx(1)]];
    if top.children.len() == 4 && top.children[0].major == 5 && top.children[1].major == 5 {
        // the places identity hashes are taken from: datums, native scripts, plutus scripts, outputs
        for k in [1u64, 4, 4, 3, 6, 7] {
            if top.children[1].map_get_uint(k).is_some() {
                parts.push(vec![Step::Idx(1), Step::Key(k)]);
            }
        }
        parts.push(vec![Step::Idx(0), Step::Key(1)]);
    }
    let mut set_paths: Vec<Vec<Step>> = vec![];
    if era == Some(Era::Conway) && top.children.len() == 4 {
        for k in [0u64, 13, 18] {
            if top.children[0].map_get_uint(k).is_some() {
                set_paths.push(vec![Step::Idx(0), Step::Key(k)]);
            }
        }
        for k in [0u64, 1, 3, 4, 6, 7] {
            if top.children[1].map_get_uint(k).is_some() {
                set_paths.push(vec![Step::Idx(1), Step::Key(k)]);
            }
        }
    }
    for _ in 0..nv {
        let mut rng = Rng::new(ctx.rng.next_u64());
        let Some((b, label)) = make_variant(&root, &parts, &set_paths, &mut rng, false) else { continue };
        ctx.count("variants_made");
        let k = format!("restyled-{}", label_class(&label));
        if check_tx_standalone(ctx, &b, era, &k) {
            for c in label.split(':').nth(1).unwrap_or("").split('+') {
                ctx.set_insert("accepted_style_changes", c);
            }
            if ctx.want_sample() && label.starts_with("part") {
                ctx.sample(json!({"what": "tx", "era": era.map(|e| format!("{e:?}")), "variant": label, "bytes": hex_short(&b)}));
            }
        }
    }
    // the same tx with extra outputs carrying inline datums / reference scripts from the corpus pools
    let e = match era {
        Some(e) if e >= Era::Babbage => e,
        _ => return,
    };
    if top.children.len() != 4 {
        return;
    }
    for _ in 0..(nv / 6).max(1) {
        let mut rng = Rng::new(ctx.rng.next_u64());
        let Some(rich) = enrich(&root, &mut rng, pools, e) else { return };
        let rb = rich.to_vec();
        if !check_tx_standalone(ctx, &rb, era, "enriched") {
            continue;
        }
        for _ in 0..6 {
            let Some((b, label)) = make_variant(&rich, &parts, &set_paths, &mut rng, true) else { continue };
            ctx.count("variants_made");
            let k = format!("restyled-enriched-{}", label_class(&label));
            check_tx_standalone(ctx, &b, era, &k);
        }
    }
}
