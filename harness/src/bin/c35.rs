//! C35 — accepted transactions carry only valid signatures and all needed ones.
//!
//! Oracle (independent of pallas): tx id = reference Blake2b-256 of the body span (own walker); every vkey
//! witness of witness-set key 0 is verified with ed25519-dalek against that id; the needed key hashes are the
//! payment key hashes (reference Blake2b-224 of the vkey) of the key-locked spent and collateral inputs, looked up
//! in the harness-owned UTxO table, plus the required signers of the body (Alonzo and later).
//! Accepted  =>  all witnesses valid  AND  every needed hash has a valid witness.
//!
//! Workload: the 22 re-keyed post-Byron fixtures with 1..3 witness-level operations: extra unrelated witnesses
//! (valid / invalid) at any position, duplicates, reorder, drop, corruption of any position (signature bit,
//! key bit, signature over another id, signature by another key, zeroed), required signers added (with / without
//! witness) or removed (body re-signed).
use pallas_traverse::Era;
use pv::cbor::Node;
use pv::fixtures::*;
use pv::*;

#[derive(Clone, Debug)]
struct W {
    vk: Vec<u8>,
    sig: Vec<u8>,
}

fn era_group(e: Era) -> &'static str {
    match e {
        Era::Shelley | Era::Allegra | Era::Mary => "shelley_ma",
        Era::Alonzo => "alonzo",
        Era::Babbage => "babbage",
        _ => "conway",
    }
}

struct Facts {
    id: [u8; 32],
    wits: Vec<W>,
    valid: Vec<bool>,
    /// (kind, hash, satisfied)
    needs: Vec<(&'static str, [u8; 28], bool)>,
}

fn facts(f: &Fixture, tx: &[u8]) -> Facts {
    facts_with(f, tx, &f.utxo)
}

fn facts_with(f: &Fixture, tx: &[u8], utxo: &[UtxoEntry]) -> Facts {
    let id = tx_id(tx);
    let wits: Vec<W> = vkey_witnesses(tx).into_iter().map(|(vk, sig)| W { vk, sig }).collect();
    let valid: Vec<bool> = wits.iter().map(|w| dalek_verify(&w.vk, &id, &w.sig)).collect();
    let has_valid = |h: &[u8; 28]| wits.iter().zip(valid.iter()).any(|(w, ok)| *ok && w.vk.len() == 32 && key_hash(&w.vk) == *h);
    let mut needs = vec![];
    for (key, kind) in [(0u64, "input"), (13, "collateral")] {
        for (h, ix) in body_inputs(tx, key) {
            if let Some(e) = utxo.iter().rev().find(|e| e.tx_hash == h && e.index == ix) {
                if let Some((true, kh)) = e.out.payment_cred() {
                    needs.push((kind, kh, has_valid(&kh)));
                }
            }
        }
    }
    if !matches!(f.era, Era::Shelley | Era::Allegra | Era::Mary) {
        if let Some(rs) = body_get(tx, 14) {
            for r in elems(&rs).cloned().unwrap_or_default() {
                if let Some(b) = node_bytes(&r) {
                    if let Ok(kh) = <[u8; 28]>::try_from(b.as_slice()) {
                        needs.push(("required-signer", kh, has_valid(&kh)));
                    }
                }
            }
        }
    }
    Facts { id, wits, valid, needs }
}

fn fresh_key(rng: &mut Rng) -> ([u8; 32], [u8; 32]) {
    let sk: [u8; 32] = rng.array();
    (sk, vk_of(&sk))
}

/// an invalid signature for `vk` over `id`, of the right length
fn bad_sig(rng: &mut Rng, sk: &[u8; 32], id: &[u8; 32], ops: &mut Vec<String>) -> Vec<u8> {
    let good = sign(sk, id);
    match rng.below(5) {
        0 => {
            ops.push("sig-bitflip".into());
            let mut s = good.to_vec();
            let i = rng.usize_below(64);
            s[i] ^= 1 << rng.below(8);
            s
        }
        1 => {
            ops.push("sig-over-other-id".into());
            let mut other = *id;
            other[rng.usize_below(32)] ^= 1 << rng.below(8);
            sign(sk, &other).to_vec()
        }
        2 => {
            ops.push("sig-by-other-key".into());
            let (sk2, _) = fresh_key(rng);
            sign(&sk2, id).to_vec()
        }
        3 => {
            ops.push("sig-zero".into());
            vec![0u8; 64]
        }
        _ => {
            ops.push("sig-random".into());
            rng.bytes(64)
        }
    }
}

struct Mutant {
    tx: Vec<u8>,
    ops: Vec<String>,
    /// UTxO entries added by the mutation (on top of the fixture's)
    extra_utxo: Vec<UtxoEntry>,
}

fn mutate(f: &Fixture, rng: &mut Rng) -> Mutant {
    let mut ops: Vec<String> = vec![];
    let mut tx = f.tx_bytes.clone();
    let post_alonzo = !matches!(f.era, Era::Shelley | Era::Allegra | Era::Mary);
    let mut extra_utxo: Vec<UtxoEntry> = vec![];
    // --- body changed but the witnesses are those of the original transaction (a witness replayed onto
    //     another transaction id); the original was validated on this thread just before
    if rng.chance(1, 10) {
        let outs = pv::fixmut::outputs(&tx);
        if !outs.is_empty() {
            let i = rng.usize_below(outs.len());
            tx = pv::fixmut::edit_output(&tx, i, |o| {
                if let Some(Node::Bytes(a, _)) = pv::fixmut::out_address_mut(o) {
                    if a.len() > 8 {
                        let k = 1 + rng.usize_below(a.len().min(29) - 1);
                        a[k] ^= 1 << rng.below(8);
                    }
                }
            });
            ops.push(format!("output{i}-redirected-witnesses-not-renewed"));
            return Mutant { tx, ops, extra_utxo };
        }
    }
    // --- an additional collateral input that is another output of the transaction a spent input comes
    //     from, locked by a key that does not sign
    if post_alonzo && !body_inputs(&tx, 13).is_empty() && rng.chance(1, 8) {
        let ins = body_inputs(&tx, 0);
        if let Some((h, ix)) = ins.first().copied() {
            let (_, vk) = fresh_key(rng);
            let like = f.utxo.iter().find(|e| e.role == Role::Collateral).map(|e| e.out.clone());
            if let Some(mut out) = like {
                let mut addr = vec![0x60 | (out.address.first().copied().unwrap_or(0x61) & 0x0f)];
                addr.extend_from_slice(&key_hash(&vk));
                out.address = addr;
                out.coin = 7_000_000;
                out.assets = vec![];
                let nix = ix + 1 + rng.below(3);
                let mut coll = body_inputs(&tx, 13);
                coll.push((h, nix));
                let nodes: Vec<Node> = coll.iter().map(|(h, i)| Node::arr(vec![Node::bytes(h), Node::u(*i)])).collect();
                let like_node = body_get(&tx, 13);
                tx = body_set(&tx, 13, Some(pv::fixmut::list_like(like_node.as_ref(), nodes)));
                if let Some(t) = body_get(&tx, 17).and_then(|n| node_u64(&n)) {
                    tx = body_set(&tx, 17, Some(Node::u(t + out.coin)));
                }
                extra_utxo.push(UtxoEntry { role: Role::Collateral, tx_hash: h, index: nix, out });
                tx = f.resign(&tx);
                ops.push("sibling-collateral-of-unsigned-key".into());
            }
        }
    }
    // --- body-level: required signers
    let mut extra_signer: Option<([u8; 32], [u8; 32])> = None;
    if post_alonzo && rng.chance(1, 4) {
        match rng.below(3) {
            0 => {
                // add a required signer, with its witness
                let k = fresh_key(rng);
                tx = add_required_signer(&tx, &key_hash(&k.1));
                extra_signer = Some(k);
                ops.push("req-signer-added+witness".into());
            }
            1 => {
                let k = fresh_key(rng);
                tx = add_required_signer(&tx, &key_hash(&k.1));
                ops.push("req-signer-added-no-witness".into());
            }
            _ => {
                if body_get(&tx, 14).is_some() {
                    tx = body_set(&tx, 14, None);
                    ops.push("req-signers-removed".into());
                }
            }
        }
        tx = f.resign(&tx);
    }
    let id = tx_id(&tx);
    let mut ws: Vec<W> = vkey_witnesses(&tx).into_iter().map(|(vk, sig)| W { vk, sig }).collect();
    if let Some((sk, vk)) = extra_signer {
        let at = rng.usize_below(ws.len() + 1);
        ws.insert(at, W { vk: vk.to_vec(), sig: sign(&sk, &id).to_vec() });
    }
    // --- witness-level operations
    let nops = 1 + rng.usize_below(3);
    for _ in 0..nops {
        match rng.below(9) {
            0 | 1 => {
                // extra unrelated valid witness
                let (sk, vk) = fresh_key(rng);
                let at = rng.usize_below(ws.len() + 1);
                ws.insert(at, W { vk: vk.to_vec(), sig: sign(&sk, &id).to_vec() });
                ops.push(format!("extra-valid@{at}"));
            }
            2 | 3 => {
                // extra unrelated invalid witness
                let (sk, vk) = fresh_key(rng);
                let at = rng.usize_below(ws.len() + 1);
                let s = bad_sig(rng, &sk, &id, &mut ops);
                ws.insert(at, W { vk: vk.to_vec(), sig: s });
                ops.push(format!("extra-invalid@{at}"));
            }
            4 => {
                if !ws.is_empty() {
                    let i = rng.usize_below(ws.len());
                    let at = rng.usize_below(ws.len() + 1);
                    let w = ws[i].clone();
                    ws.insert(at, w);
                    ops.push(format!("duplicate {i}@{at}"));
                }
            }
            5 => {
                rng.shuffle(&mut ws);
                ops.push("reorder".into());
            }
            6 => {
                if !ws.is_empty() {
                    let i = rng.usize_below(ws.len());
                    ws.remove(i);
                    ops.push(format!("drop@{i}"));
                }
            }
            _ => {
                // corrupt an existing witness in place
                if !ws.is_empty() {
                    let i = rng.usize_below(ws.len());
                    if rng.chance(1, 4) {
                        let k = rng.usize_below(ws[i].vk.len().max(1));
                        if !ws[i].vk.is_empty() {
                            ws[i].vk[k] ^= 1 << rng.below(8);
                        }
                        ops.push(format!("vkey-bitflip@{i}"));
                    } else {
                        let sk = f.key_for_vk(&ws[i].vk).map(|k| k.sk);
                        match sk {
                            Some(sk) => {
                                ws[i].sig = bad_sig(rng, &sk, &id, &mut ops);
                            }
                            None => {
                                let k = rng.usize_below(64.min(ws[i].sig.len().max(1)));
                                if !ws[i].sig.is_empty() {
                                    ws[i].sig[k] ^= 1 << rng.below(8);
                                }
                                ops.push("sig-bitflip".into());
                            }
                        }
                        ops.push(format!("corrupt@{i}"));
                    }
                }
            }
        }
    }
    let pairs: Vec<(Vec<u8>, Vec<u8>)> = ws.into_iter().map(|w| (w.vk, w.sig)).collect();
    Mutant { tx: set_vkey_witnesses(&tx, &pairs), ops, extra_utxo }
}

fn add_required_signer(tx: &[u8], h: &[u8; 28]) -> Vec<u8> {
    let mut rs = body_get(tx, 14).unwrap_or(Node::arr(vec![]));
    if let Some(xs) = elems_mut(&mut rs) {
        xs.push(Node::bytes(h));
    }
    body_set(tx, 14, Some(rs))
}

fn check(ctx: &mut Ctx, f: &Fixture, m: &Mutant) {
    let mut utxo = f.utxo.clone();
    utxo.extend(m.extra_utxo.iter().cloned());
    let fa = facts_with(f, &m.tx, &utxo);
    // extra witnesses make the transaction larger than its fee pays for: the fee and size rules (C36) are taken out
    // of the way in the environment so that the witness rules decide
    let mut env = f.env.clone();
    env.set_minfee(0, 0);
    env.set_max_tx_size(1 << 24);
    let v = f.validate_with(&m.tx, &utxo, &env);
    ctx.eval();
    let grp = era_group(f.era);
    let n = fa.wits.len();
    let invalid_pos: Vec<usize> = fa.valid.iter().enumerate().filter(|(_, ok)| !**ok).map(|(i, _)| i).collect();
    let missing: Vec<&(&'static str, [u8; 28], bool)> = fa.needs.iter().filter(|x| !x.2).collect();
    let replay = json!({"fixture": f.name, "tx": hexs(&m.tx), "ops": m.ops});
    ctx.max("max_witnesses", n as u64);
    ctx.count(&format!("cases_{grp}"));
    if !invalid_pos.is_empty() {
        ctx.count("mutants_with_invalid_witness");
        if invalid_pos.iter().any(|i| *i > 0) {
            ctx.count("mutants_with_invalid_witness_not_first");
            ctx.nontrivial(fp_mix(fp(f.name.as_bytes()), fp(&m.tx)));
        }
    }
    if !missing.is_empty() {
        ctx.count("mutants_with_missing_needed_witness");
    }
    match &v {
        Verdict::Panicked(p) => {
            ctx.violation(&format!("panic:validate_tx:{}", p.site()), &format!("{}: validate_tx panicked ({}) after witness operations {:?}", f.name, p.msg, m.ops), replay);
        }
        Verdict::Undecodable(e) => {
            ctx.count("undecodable");
            ctx.set_insert("undecodable", &format!("{}: {e}", f.name));
        }
        Verdict::Rejected(e) => {
            ctx.count("rejected");
            let short = e.split('(').nth(1).unwrap_or(e).trim_end_matches(')').to_string();
            ctx.set_insert("rejection_reasons", &format!("{grp}:{short}"));
            if invalid_pos.is_empty() && missing.is_empty() {
                // the oracle sees nothing wrong: not a C35 matter (stricter bookkeeping, e.g. first-match-only), recorded
                ctx.count("rejected_although_oracle_clean");
                ctx.set_insert("rejected_although_oracle_clean", &format!("{grp}:{short}"));
            }
        }
        Verdict::Accepted => {
            ctx.count("accepted");
            if n >= 2 {
                ctx.count("accepted_with_2_or_more_witnesses");
                ctx.nontrivial(fp_mix(fp(f.name.as_bytes()), fp(&m.tx) ^ 1));
            }
            if !invalid_pos.is_empty() {
                let at = if invalid_pos.contains(&0) { "first" } else { "later" };
                ctx.violation(
                    &format!("C35:accepted-invalid-witness:era={grp}:invalid-at={at}"),
                    &format!(
                        "{}: accepted with {n} vkey witnesses of which those at positions {:?} do not verify (ed25519-dalek) against the tx id {}; operations {:?}; witness keys {:?}",
                        f.name,
                        invalid_pos,
                        hexs(&fa.id),
                        m.ops,
                        fa.wits.iter().map(|w| hex_short(&w.vk[..w.vk.len().min(6)])).collect::<Vec<_>>()
                    ),
                    replay.clone(),
                );
            }
            if let Some((kind, h, _)) = missing.first() {
                ctx.violation(
                    &format!("C35:accepted-missing-witness:era={grp}:need={kind}"),
                    &format!("{}: accepted although the {kind} key hash {} has no valid vkey witness (tx id {}); operations {:?}", f.name, hexs(h), hexs(&fa.id), m.ops),
                    replay,
                );
            }
        }
    }
    if ctx.want_sample() && !m.ops.is_empty() {
        ctx.sample(json!({"fixture": f.name, "ops": m.ops, "witnesses": n, "invalid_positions": invalid_pos, "needed": fa.needs.len(), "missing": missing.len(), "verdict": v.label()}));
    }
}

/// deterministic grid: for every fixture and every position p of a list extended to >= 3 witnesses, exactly one
/// invalid witness at p (all others valid) — "corrupted in every position"
fn position_grid(ctx: &mut Ctx, f: &Fixture) {
    let id = tx_id(&f.tx_bytes);
    let base: Vec<(Vec<u8>, Vec<u8>)> = vkey_witnesses(&f.tx_bytes);
    let mut rng = ctx.sub_rng(f.name, 0);
    let mut ext = base.clone();
    let mut sks: Vec<Option<[u8; 32]>> = base.iter().map(|(vk, _)| f.key_for_vk(vk).map(|k| k.sk)).collect();
    while ext.len() < 4 {
        let (sk, vk) = fresh_key(&mut rng);
        ext.push((vk.to_vec(), sign(&sk, &id).to_vec()));
        sks.push(Some(sk));
    }
    // rotate so that every original / extra witness visits every position
    for rot in 0..ext.len() {
        let mut ws = ext.clone();
        let mut ks = sks.clone();
        ws.rotate_left(rot);
        ks.rotate_left(rot);
        for p in 0..ws.len() {
            let Some(sk) = ks[p] else { continue };
            let mut w2 = ws.clone();
            let mut ops = vec![format!("grid rot={rot}")];
            w2[p].1 = bad_sig(&mut rng, &sk, &id, &mut ops);
            ops.push(format!("corrupt@{p}"));
            let m = Mutant { tx: set_vkey_witnesses(&f.tx_bytes, &w2), ops, extra_utxo: vec![] };
            check(ctx, f, &m);
            ctx.count("grid_cases");
        }
    }
}

fn main() {
    let mut ctx = Ctx::from_args("C35");
    let fixtures = usable_rekeyed();
    if let Some(p) = ctx.replay.clone() {
        let v: serde_json::Value = serde_json::from_slice(&std::fs::read(p).unwrap()).unwrap();
        let r = &v["replay"];
        let f = fixtures.iter().find(|f| f.name == r["fixture"].as_str().unwrap_or("")).expect("fixture");
        let tx = hex::decode(r["tx"].as_str().unwrap()).unwrap();
        let m = Mutant { tx, ops: vec!["replay".into()], extra_utxo: vec![] };
        let fa = facts(f, &m.tx);
        check(&mut ctx, f, &m);
        println!("replayed {}: witnesses={} valid={:?} needs={:?} verdict={} violations={}", f.name, fa.wits.len(), fa.valid, fa.needs.iter().map(|x| (x.0, x.2)).collect::<Vec<_>>(), { let mut e = f.env.clone(); e.set_minfee(0, 0); e.set_max_tx_size(1 << 24); f.validate_with(&m.tx, &f.utxo, &e).label() }, ctx.n_violations());
        ctx.finish();
    }
    if fixtures.len() < 20 {
        ctx.inconclusive(&format!("only {} re-keyed fixtures are usable", fixtures.len()));
    }
    for (i, f) in fixtures.iter().enumerate() {
        if !ctx.owns(i as u64) {
            continue;
        }
        // unmutated: oracle and validator must agree that nothing is wrong
        check(&mut ctx, f, &Mutant { tx: f.tx_bytes.clone(), ops: vec![], extra_utxo: vec![] });
        position_grid(&mut ctx, f);
        ctx.count("fixtures");
    }
    ctx.note("position_grid_complete", json!(true));
    let n = ctx.budget(30_000, 2_000_000);
    for _ in 0..n {
        let f = &fixtures[ctx.rng.usize_below(fixtures.len())];
        // the 8-witness MIR fixture costs 8 verifications per call: sample it less often
        if f.tx_bytes.len() > 6000 && ctx.rng.chance(2, 3) {
            continue;
        }
        let mut rng = ctx.rng.clone();
        let m = mutate(f, &mut rng);
        ctx.rng = rng;
        for o in &m.ops {
            let k = o.split(|c| c == '@' || c == ' ').next().unwrap_or("");
            ctx.count(&format!("op_{k}"));
        }
        check(&mut ctx, f, &m);
    }
    ctx.finish();
}
