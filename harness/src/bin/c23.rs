//! C23 — pallas-network client/server agents follow the mini-protocol state machines.
//!
//! Oracle: `pv::specs` automata (written from the Ouroboros network specification) run in
//! lock-step with the real agents. Each agent sits on a real `Plexer` connected through a Unix
//! socket pair to a second `Plexer` whose `AgentChannel` is scripted by the harness: inbound
//! messages are injected as bytes built by the harness' own CBOR encoder from the CDDL, outbound
//! messages are observed as bytes.
//!   part 1 (complete in both tiers): for every agent (protocol x role), every spec state (reached
//!     through the high-level methods along a shortest path), every message kind of the protocol
//!     and every way of presenting it {send via send_message, send via the high-level method,
//!     inject + high-level receive of the state, inject + recv_message}: one fresh agent pair;
//!   part 2: random walks over the spec (length <= 30) with illegal attempts at every step.
//! Judged: accept/reject agrees with the spec; after an accepted high-level exchange the agent's
//! state is the spec's next state; after a rejection the state is unchanged; an accepted send puts
//! a message with the spec's label on the wire, a rejected send puts nothing on the wire.
//! Low-level `send_message`/`recv_message` never advance the agent state by design: for them only
//! the permission (and state-unchanged-on-reject) is judged.
use pallas_codec::utils::AnyCbor;
use pallas_network::miniprotocols::{blockfetch as bf, chainsync as cs, handshake as hs, keepalive as ka, localstate as ls, localtxsubmission as lt, peersharing as ps, txmonitor as tm, txsubmission as tx, Point};
use pallas_network::multiplexer::{AgentChannel, Bearer, Plexer, RunningPlexer};
use pv::cbor::{self, Node};
use pv::specs::{self, Agency, MsgKind, Proto, Spec, St};
use pv::*;
use std::time::Duration;

const OP_TIMEOUT: Duration = Duration::from_secs(30);

#[derive(Clone, Copy, PartialEq, Eq, Debug)]
enum Mode {
    SendLow,
    SendHigh,
    RecvHigh,
    RecvLow,
}
impl Mode {
    fn is_send(self) -> bool {
        matches!(self, Mode::SendLow | Mode::SendHigh)
    }
    fn is_high(self) -> bool {
        matches!(self, Mode::SendHigh | Mode::RecvHigh)
    }
    fn name(self) -> &'static str {
        match self {
            Mode::SendLow => "send_message",
            Mode::SendHigh => "high-level send",
            Mode::RecvHigh => "high-level receive",
            Mode::RecvLow => "recv_message",
        }
    }
}

#[derive(Debug, Clone, PartialEq)]
enum Res {
    Ok,
    /// rejected with this error variant
    Rej(String),
    /// transport problem (not an observation)
    Infra(String),
    /// the agent has no public method for this
    NoApi,
}

fn cls<T, E: std::fmt::Debug>(r: Result<Result<T, E>, tokio::time::error::Elapsed>) -> Res {
    match r {
        Err(_) => Res::Infra("operation did not return within 30 s".into()),
        Ok(Ok(_)) => Res::Ok,
        Ok(Err(e)) => {
            let s = format!("{e:?}");
            let head: String = s.chars().take_while(|c| c.is_alphanumeric()).collect();
            if head.starts_with("AcquirePoint") {
                // local-state-query client: MsgFailure was accepted and is reported to the caller as an error value
                Res::Ok
            } else if (head == "Plexer" || head == "ChannelError") && !s.contains("Decoding") {
                Res::Infra(s.chars().take(120).collect())
            } else if head == "Plexer" || head == "ChannelError" {
                Res::Rej("DecodeError".into())
            } else {
                Res::Rej(head)
            }
        }
    }
}
macro_rules! t {
    ($fut:expr) => {
        cls(tokio::time::timeout(OP_TIMEOUT, $fut).await)
    };
}

// ---------------------------------------------------------------------------------------
// payloads: pallas values for the send side
// ---------------------------------------------------------------------------------------
fn g_point(rng: &mut Rng) -> Point {
    if rng.chance(1, 6) {
        Point::Origin
    } else {
        Point::Specific(rng.edgy_u64(), rng.bytes(32))
    }
}
fn g_blob(rng: &mut Rng, big: bool) -> Vec<u8> {
    let n = match rng.below(10) {
        0 => 0,
        1 if big => 65_530 + rng.usize_below(12),
        2 if big => 70_000 + rng.usize_below(70_000),
        _ => rng.usize_below(200),
    };
    rng.bytes(n)
}
fn g_tip(rng: &mut Rng) -> cs::Tip {
    cs::Tip(g_point(rng), rng.edgy_u64())
}
fn g_header(rng: &mut Rng, big: bool) -> cs::HeaderContent {
    let variant = rng.below(8) as u8;
    cs::HeaderContent { variant, byron_prefix: if variant == 0 { Some((rng.next_u8(), rng.edgy_u64())) } else { None }, cbor: g_blob(rng, big) }
}
fn g_vdata(rng: &mut Rng) -> hs::n2n::VersionData {
    let ext = rng.bool();
    hs::n2n::VersionData::new(rng.edgy_u64(), rng.bool(), if ext { Some(rng.below(2) as u8) } else { None }, if ext { Some(rng.bool()) } else { None })
}
fn g_vtable(rng: &mut Rng) -> hs::VersionTable<hs::n2n::VersionData> {
    hs::VersionTable { values: (0..rng.below(6)).map(|_| (rng.below(20), g_vdata(rng))).collect() }
}
fn g_refuse(rng: &mut Rng) -> hs::RefuseReason {
    match rng.below(3) {
        0 => hs::RefuseReason::VersionMismatch((0..rng.below(5)).map(|_| rng.below(30)).collect()),
        1 => hs::RefuseReason::HandshakeDecodeError(rng.below(30), "decode".into()),
        _ => hs::RefuseReason::Refused(rng.below(30), "refused".into()),
    }
}
fn g_txid(rng: &mut Rng) -> tx::EraTxId {
    tx::EraTxId(rng.below(8) as u16, rng.bytes(32))
}
fn g_anycbor(rng: &mut Rng) -> AnyCbor {
    AnyCbor::from_raw_bytes(cbor::gen_node(rng, 2).to_vec())
}

fn mk_hs(k: &str, rng: &mut Rng) -> hs::Message<hs::n2n::VersionData> {
    match k {
        "Propose" => hs::Message::Propose(g_vtable(rng)),
        "Accept" => hs::Message::Accept(rng.below(20), g_vdata(rng)),
        "Refuse" => hs::Message::Refuse(g_refuse(rng)),
        _ => hs::Message::QueryReply(g_vtable(rng)),
    }
}
fn mk_cs(k: &str, rng: &mut Rng, big: bool) -> cs::Message<cs::HeaderContent> {
    match k {
        "RequestNext" => cs::Message::RequestNext,
        "AwaitReply" => cs::Message::AwaitReply,
        "RollForward" => cs::Message::RollForward(g_header(rng, big), g_tip(rng)),
        "RollBackward" => cs::Message::RollBackward(g_point(rng), g_tip(rng)),
        "FindIntersect" => cs::Message::FindIntersect((0..rng.below(5)).map(|_| g_point(rng)).collect()),
        "IntersectFound" => cs::Message::IntersectFound(g_point(rng), g_tip(rng)),
        "IntersectNotFound" => cs::Message::IntersectNotFound(g_tip(rng)),
        _ => cs::Message::Done,
    }
}
fn mk_bf(k: &str, rng: &mut Rng, big: bool) -> bf::Message {
    match k {
        "RequestRange" => bf::Message::RequestRange { range: (g_point(rng), g_point(rng)) },
        "ClientDone" => bf::Message::ClientDone,
        "StartBatch" => bf::Message::StartBatch,
        "NoBlocks" => bf::Message::NoBlocks,
        "Block" => bf::Message::Block { body: g_blob(rng, big) },
        _ => bf::Message::BatchDone,
    }
}
fn mk_tx(k: &str, rng: &mut Rng, big: bool) -> tx::Message<tx::EraTxId, tx::EraTxBody> {
    match k {
        "Init" => tx::Message::Init,
        "RequestTxIdsBlocking" => tx::Message::RequestTxIds(true, rng.next_u32() as u16, rng.next_u32() as u16),
        "RequestTxIdsNonBlocking" => tx::Message::RequestTxIds(false, rng.next_u32() as u16, rng.next_u32() as u16),
        "ReplyTxIds" => tx::Message::ReplyTxIds((0..rng.below(4)).map(|_| tx::TxIdAndSize(g_txid(rng), rng.next_u32())).collect()),
        "RequestTxs" => tx::Message::RequestTxs((0..rng.below(4)).map(|_| g_txid(rng)).collect()),
        "ReplyTxs" => tx::Message::ReplyTxs((0..rng.below(3)).map(|_| tx::EraTxBody(rng.below(8) as u16, g_blob(rng, big))).collect()),
        _ => tx::Message::Done,
    }
}
fn mk_ka(k: &str, cookie: u16) -> ka::Message {
    match k {
        "KeepAlive" => ka::Message::KeepAlive(cookie),
        "ResponseKeepAlive" => ka::Message::ResponseKeepAlive(cookie),
        _ => ka::Message::Done,
    }
}
fn g_peers(rng: &mut Rng) -> Vec<ps::PeerAddress> {
    // IPv4 only: the IPv6 form is mis-encoded by pallas (property C22), which is not this property's business
    (0..rng.below(5)).map(|_| ps::PeerAddress::V4(std::net::Ipv4Addr::from(rng.next_u32()), rng.below(65536) as u32)).collect()
}
fn mk_ps(k: &str, rng: &mut Rng) -> ps::Message {
    match k {
        "ShareRequest" => ps::Message::ShareRequest(rng.next_u8()),
        "SharePeers" => ps::Message::SharePeers(g_peers(rng)),
        _ => ps::Message::Done,
    }
}
fn mk_ls(k: &str, rng: &mut Rng) -> ls::Message {
    let pt = |rng: &mut Rng| if rng.bool() { Some(g_point(rng)) } else { None };
    match k {
        "Acquire" => ls::Message::Acquire(pt(rng)),
        "Acquired" => ls::Message::Acquired,
        "Failure" => ls::Message::Failure(if rng.bool() { ls::AcquireFailure::PointTooOld } else { ls::AcquireFailure::PointNotOnChain }),
        "Query" => ls::Message::Query(g_anycbor(rng)),
        "Result" => ls::Message::Result(g_anycbor(rng)),
        "ReAcquire" => ls::Message::ReAcquire(pt(rng)),
        "Release" => ls::Message::Release,
        _ => ls::Message::Done,
    }
}
fn mk_tm(k: &str, rng: &mut Rng) -> tm::Message {
    match k {
        // MsgAcquire and MsgAwaitAcquire are the same wire message [1]
        "Acquire" | "AwaitAcquire" => tm::Message::Acquire,
        // pallas-only variant with label 4, unknown to the specification
        "AwaitAcquire#4" => tm::Message::AwaitAcquire,
        "Acquired" => tm::Message::Acquired(rng.edgy_u64()),
        "NextTx" => tm::Message::RequestNextTx,
        "HasTx" => tm::Message::RequestHasTx(hex::encode(rng.bytes(32))),
        "GetSizes" => tm::Message::RequestSizeAndCapacity,
        "ReplyNextTx" => tm::Message::ResponseNextTx(if rng.bool() { Some((rng.below(8) as u8, pallas_codec::utils::TagWrap(rng.bytes(40).into()))) } else { None }),
        "ReplyHasTx" => tm::Message::ResponseHasTx(rng.bool()),
        "ReplyGetSizes" => tm::Message::ResponseSizeAndCapacity(tm::MempoolSizeAndCapacity { capacity_in_bytes: rng.next_u32(), size_in_bytes: rng.next_u32(), number_of_txs: rng.next_u32() }),
        "Release" => tm::Message::Release,
        _ => tm::Message::Done,
    }
}

// ---------------------------------------------------------------------------------------
// wire forms for injection: own encoder, from the CDDL of the specification
// ---------------------------------------------------------------------------------------
fn w_point(rng: &mut Rng) -> Node {
    if rng.chance(1, 6) {
        Node::arr(vec![])
    } else {
        Node::arr(vec![Node::u(rng.edgy_u64()), Node::bytes(&rng.bytes(32))])
    }
}
fn w_tip(rng: &mut Rng) -> Node {
    Node::arr(vec![w_point(rng), Node::u(rng.edgy_u64())])
}
fn w_list(xs: Vec<Node>, rng: &mut Rng) -> Node {
    if rng.bool() {
        Node::ArrayIndef(xs)
    } else {
        Node::arr(xs)
    }
}
fn w_vdata(rng: &mut Rng) -> Node {
    if rng.bool() {
        Node::arr(vec![Node::u(rng.edgy_u64()), Node::Bool(rng.bool()), Node::u(rng.below(2)), Node::Bool(rng.bool())])
    } else {
        Node::arr(vec![Node::u(rng.edgy_u64()), Node::Bool(rng.bool())])
    }
}
fn w_vtable(rng: &mut Rng) -> Node {
    let mut ks: Vec<u64> = (0..rng.below(6)).map(|_| rng.below(20)).collect();
    ks.sort();
    ks.dedup();
    Node::map(ks.into_iter().map(|k| (Node::u(k), w_vdata(rng))).collect())
}
fn w_txid(rng: &mut Rng) -> Node {
    Node::arr(vec![Node::u(rng.below(8)), Node::bytes(&rng.bytes(32))])
}
fn w_era_tx(rng: &mut Rng, big: bool) -> Node {
    Node::arr(vec![Node::u(rng.below(8)), Node::tag(24, Node::bytes(&g_blob(rng, big)))])
}

fn wire(p: Proto, kind: &str, rng: &mut Rng, cookie: u16, big: bool) -> Vec<u8> {
    let tag = specs::wire_tag(p, kind).map(|t| t as u64);
    let m = |rest: Vec<Node>| -> Vec<u8> {
        let mut v = vec![Node::u(tag.expect("spec message"))];
        v.extend(rest);
        Node::arr(v).to_vec()
    };
    match (p, kind) {
        (Proto::Handshake, "Propose" | "QueryReply") => m(vec![w_vtable(rng)]),
        (Proto::Handshake, "Accept") => m(vec![Node::u(rng.below(20)), w_vdata(rng)]),
        (Proto::Handshake, "Refuse") => m(vec![match rng.below(3) {
            0 => Node::arr(vec![Node::u(0), Node::arr((0..rng.below(5)).map(|_| Node::u(rng.below(30))).collect())]),
            1 => Node::arr(vec![Node::u(1), Node::u(rng.below(30)), Node::text("decode error")]),
            _ => Node::arr(vec![Node::u(2), Node::u(rng.below(30)), Node::text("refused")]),
        }]),
        (Proto::ChainSync, "RollForward") => {
            let variant = rng.below(8);
            let body = Node::tag(24, Node::bytes(&g_blob(rng, big)));
            let header = if variant == 0 { Node::arr(vec![Node::u(0), Node::arr(vec![Node::arr(vec![Node::u(rng.below(2)), Node::u(rng.edgy_u64())]), body])]) } else { Node::arr(vec![Node::u(variant), body]) };
            m(vec![header, w_tip(rng)])
        }
        (Proto::ChainSync, "RollBackward" | "IntersectFound") => m(vec![w_point(rng), w_tip(rng)]),
        (Proto::ChainSync, "FindIntersect") => m(vec![Node::arr((0..rng.below(5)).map(|_| w_point(rng)).collect())]),
        (Proto::ChainSync, "IntersectNotFound") => m(vec![w_tip(rng)]),
        (Proto::BlockFetch, "RequestRange") => m(vec![w_point(rng), w_point(rng)]),
        (Proto::BlockFetch, "Block") => m(vec![Node::tag(24, Node::bytes(&g_blob(rng, big)))]),
        (Proto::TxSubmission, "RequestTxIdsBlocking") => m(vec![Node::Bool(true), Node::u(rng.below(65536)), Node::u(rng.below(65536))]),
        (Proto::TxSubmission, "RequestTxIdsNonBlocking") => m(vec![Node::Bool(false), Node::u(rng.below(65536)), Node::u(rng.below(65536))]),
        (Proto::TxSubmission, "ReplyTxIds") => {
            let xs = (0..rng.below(4)).map(|_| Node::arr(vec![w_txid(rng), Node::u(rng.next_u32() as u64)])).collect();
            m(vec![w_list(xs, rng)])
        }
        (Proto::TxSubmission, "RequestTxs") => {
            let xs = (0..rng.below(4)).map(|_| w_txid(rng)).collect();
            m(vec![w_list(xs, rng)])
        }
        (Proto::TxSubmission, "ReplyTxs") => {
            let xs = (0..rng.below(3)).map(|_| w_era_tx(rng, big)).collect();
            m(vec![w_list(xs, rng)])
        }
        (Proto::KeepAlive, "KeepAlive" | "ResponseKeepAlive") => m(vec![Node::u(cookie as u64)]),
        (Proto::PeerSharing, "ShareRequest") => m(vec![Node::u(rng.below(256))]),
        (Proto::PeerSharing, "SharePeers") => {
            let xs = (0..rng.below(5)).map(|_| Node::arr(vec![Node::u(0), Node::u(rng.next_u32() as u64), Node::u(rng.below(65536))])).collect();
            m(vec![w_list(xs, rng)])
        }
        (Proto::LocalStateQuery, "Acquire") => {
            if rng.bool() {
                m(vec![w_point(rng)])
            } else {
                Node::arr(vec![Node::u(8)]).to_vec()
            }
        }
        (Proto::LocalStateQuery, "ReAcquire") => {
            if rng.bool() {
                m(vec![w_point(rng)])
            } else {
                Node::arr(vec![Node::u(9)]).to_vec()
            }
        }
        (Proto::LocalStateQuery, "Failure") => m(vec![Node::u(rng.below(2))]),
        (Proto::LocalStateQuery, "Query" | "Result") => m(vec![cbor::gen_node(rng, 2)]),
        (Proto::LocalTxSubmission, "SubmitTx") => m(vec![w_era_tx(rng, big)]),
        (Proto::LocalTxSubmission, "RejectTx") => m(vec![Node::arr(vec![Node::arr(vec![Node::u(1 + rng.below(6)), Node::arr(vec![])])])]),
        (Proto::LocalTxMonitor, "Acquired") => m(vec![Node::u(rng.edgy_u64())]),
        (Proto::LocalTxMonitor, "HasTx") => m(vec![Node::text(&hex::encode(rng.bytes(32)))]),
        (Proto::LocalTxMonitor, "ReplyNextTx") => {
            if rng.bool() {
                m(vec![])
            } else {
                m(vec![Node::arr(vec![Node::u(rng.below(8)), Node::tag(24, Node::bytes(&rng.bytes(60)))])])
            }
        }
        (Proto::LocalTxMonitor, "ReplyHasTx") => m(vec![Node::Bool(rng.bool())]),
        (Proto::LocalTxMonitor, "ReplyGetSizes") => m(vec![Node::arr(vec![Node::u(rng.next_u32() as u64), Node::u(rng.next_u32() as u64), Node::u(rng.next_u32() as u64)])]),
        // every remaining message is the bare `[label]`
        _ => m(vec![]),
    }
}

// ---------------------------------------------------------------------------------------
// the agents
// ---------------------------------------------------------------------------------------
enum Agent {
    HsC(hs::N2NClient),
    HsS(hs::N2NServer),
    CsC(cs::N2NClient),
    CsS(cs::N2NServer),
    BfC(bf::Client),
    BfS(bf::Server),
    TxC(tx::Client),
    TxS(tx::Server),
    KaC(ka::Client),
    KaS(ka::Server),
    PsC(ps::Client),
    PsS(ps::Server),
    LsC(ls::Client),
    LsS(ls::Server),
    LtC(lt::Client),
    LtS(lt::Server),
    TmC(tm::Client),
}

const AGENTS: [(Proto, Agency); 17] = [
    (Proto::Handshake, Agency::Client),
    (Proto::Handshake, Agency::Server),
    (Proto::ChainSync, Agency::Client),
    (Proto::ChainSync, Agency::Server),
    (Proto::BlockFetch, Agency::Client),
    (Proto::BlockFetch, Agency::Server),
    (Proto::TxSubmission, Agency::Client),
    (Proto::TxSubmission, Agency::Server),
    (Proto::KeepAlive, Agency::Client),
    (Proto::KeepAlive, Agency::Server),
    (Proto::PeerSharing, Agency::Client),
    (Proto::PeerSharing, Agency::Server),
    (Proto::LocalStateQuery, Agency::Client),
    (Proto::LocalStateQuery, Agency::Server),
    (Proto::LocalTxSubmission, Agency::Client),
    (Proto::LocalTxSubmission, Agency::Server),
    (Proto::LocalTxMonitor, Agency::Client),
];

impl Agent {
    fn new(p: Proto, role: Agency, ch: AgentChannel) -> Agent {
        use Agency::{Client as C, Server as S};
        match (p, role) {
            (Proto::Handshake, C) => Agent::HsC(hs::Client::new(ch)),
            (Proto::Handshake, S) => Agent::HsS(hs::Server::new(ch)),
            (Proto::ChainSync, C) => Agent::CsC(cs::Client::new(ch)),
            (Proto::ChainSync, S) => Agent::CsS(cs::Server::new(ch)),
            (Proto::BlockFetch, C) => Agent::BfC(bf::Client::new(ch)),
            (Proto::BlockFetch, S) => Agent::BfS(bf::Server::new(ch)),
            (Proto::TxSubmission, C) => Agent::TxC(tx::Client::new(ch)),
            (Proto::TxSubmission, S) => Agent::TxS(tx::Server::new(ch)),
            (Proto::KeepAlive, C) => Agent::KaC(ka::Client::new(ch)),
            (Proto::KeepAlive, S) => Agent::KaS(ka::Server::new(ch)),
            (Proto::PeerSharing, C) => Agent::PsC(ps::Client::new(ch)),
            (Proto::PeerSharing, S) => Agent::PsS(ps::Server::new(ch)),
            (Proto::LocalStateQuery, C) => Agent::LsC(ls::Client::new(ch)),
            (Proto::LocalStateQuery, S) => Agent::LsS(ls::Server::new(ch)),
            (Proto::LocalTxSubmission, C) => Agent::LtC(lt::Client::new(ch)),
            (Proto::LocalTxSubmission, S) => Agent::LtS(lt::Server::new(ch)),
            (Proto::LocalTxMonitor, C) => Agent::TmC(tm::Client::new(ch)),
            _ => panic!("no such agent in pallas-network"),
        }
    }

    /// name of the agent's current state (data discarded)
    fn state(&self) -> String {
        let s = match self {
            Agent::HsC(a) => format!("{:?}", a.state()),
            Agent::HsS(a) => format!("{:?}", a.state()),
            Agent::CsC(a) => format!("{:?}", a.state()),
            Agent::CsS(a) => format!("{:?}", a.state()),
            Agent::BfC(a) => format!("{:?}", a.state()),
            Agent::BfS(a) => format!("{:?}", a.state()),
            Agent::TxC(a) => format!("{:?}", a.state()),
            Agent::TxS(a) => format!("{:?}", a.state()),
            Agent::KaC(a) => format!("{:?}", a.state()),
            Agent::KaS(a) => format!("{:?}", a.state()),
            Agent::PsC(a) => format!("{:?}", a.state()),
            Agent::PsS(a) => format!("{:?}", a.state()),
            Agent::LsC(a) => format!("{:?}", a.state()),
            Agent::LsS(a) => format!("{:?}", a.state()),
            Agent::LtC(a) => format!("{:?}", a.state()),
            Agent::LtS(a) => format!("{:?}", a.state()),
            Agent::TmC(a) => format!("{:?}", a.state()),
        };
        s.chars().take_while(|c| c.is_alphanumeric()).collect()
    }

    /// cookie the keep-alive agent is waiting for / has to echo
    fn cookie(&self) -> Option<u16> {
        match self {
            Agent::KaC(a) => match a.state() {
                ka::State::Server(c) => Some(*c),
                _ => None,
            },
            Agent::KaS(a) => match a.state() {
                ka::State::Server(c) => Some(*c),
                _ => None,
            },
            _ => None,
        }
    }

    /// low-level `send_message` with a message of kind `k`
    async fn send_low(&mut self, k: &str, rng: &mut Rng, big: bool) -> Res {
        match self {
            Agent::HsC(a) => t!(a.send_message(&mk_hs(k, rng))),
            Agent::HsS(a) => t!(a.send_message(&mk_hs(k, rng))),
            Agent::CsC(a) => t!(a.send_message(&mk_cs(k, rng, big))),
            Agent::CsS(a) => t!(a.send_message(&mk_cs(k, rng, big))),
            Agent::BfC(a) => t!(a.send_message(&mk_bf(k, rng, big))),
            Agent::BfS(a) => t!(a.send_message(&mk_bf(k, rng, big))),
            Agent::TxC(a) => t!(a.send_message(&mk_tx(k, rng, big))),
            Agent::TxS(a) => t!(a.send_message(&mk_tx(k, rng, big))),
            Agent::KaC(a) => t!(a.send_message(&mk_ka(k, rng.next_u32() as u16))),
            Agent::KaS(a) => {
                let c = match a.state() {
                    ka::State::Server(c) => *c,
                    _ => rng.next_u32() as u16,
                };
                t!(a.send_message(&mk_ka(k, c)))
            }
            Agent::PsC(a) => t!(a.send_message(&mk_ps(k, rng))),
            Agent::PsS(a) => t!(a.send_message(&mk_ps(k, rng))),
            Agent::LsC(a) => t!(a.send_message(&mk_ls(k, rng))),
            Agent::LsS(a) => t!(a.send_message(&mk_ls(k, rng))),
            Agent::LtC(_) | Agent::LtS(_) => Res::NoApi, // send_message is private there
            Agent::TmC(a) => t!(a.send_message(&mk_tm(k, rng))),
        }
    }

    /// the high-level method whose purpose is to send a message of kind `k`
    async fn send_high(&mut self, k: &str, rng: &mut Rng, big: bool) -> Res {
        match (self, k) {
            (Agent::HsC(a), "Propose") => t!(a.send_propose(g_vtable(rng))),
            (Agent::HsS(a), "Accept") => t!(a.accept_version(rng.below(20), g_vdata(rng))),
            (Agent::HsS(a), "Refuse") => t!(a.refuse(g_refuse(rng))),
            (Agent::CsC(a), "RequestNext") => t!(a.send_request_next()),
            (Agent::CsC(a), "FindIntersect") => t!(a.send_find_intersect((0..rng.below(5)).map(|_| g_point(rng)).collect())),
            (Agent::CsC(a), "Done") => t!(a.send_done()),
            (Agent::CsS(a), "AwaitReply") => t!(a.send_await_reply()),
            (Agent::CsS(a), "RollForward") => t!(a.send_roll_forward(g_header(rng, big), g_tip(rng))),
            (Agent::CsS(a), "RollBackward") => t!(a.send_roll_backward(g_point(rng), g_tip(rng))),
            (Agent::CsS(a), "IntersectFound") => t!(a.send_intersect_found(g_point(rng), g_tip(rng))),
            (Agent::CsS(a), "IntersectNotFound") => t!(a.send_intersect_not_found(g_tip(rng))),
            (Agent::BfC(a), "RequestRange") => t!(a.send_request_range((g_point(rng), g_point(rng)))),
            (Agent::BfC(a), "ClientDone") => t!(a.send_done()),
            (Agent::BfS(a), "StartBatch") => t!(a.send_start_batch()),
            (Agent::BfS(a), "NoBlocks") => t!(a.send_no_blocks()),
            (Agent::BfS(a), "Block") => t!(a.send_block(g_blob(rng, big))),
            (Agent::BfS(a), "BatchDone") => t!(a.send_batch_done()),
            (Agent::TxC(a), "Init") => t!(a.send_init()),
            (Agent::TxC(a), "ReplyTxIds") => t!(a.reply_tx_ids((0..rng.below(4)).map(|_| tx::TxIdAndSize(g_txid(rng), rng.next_u32())).collect())),
            (Agent::TxC(a), "ReplyTxs") => t!(a.reply_txs((0..rng.below(3)).map(|_| tx::EraTxBody(rng.below(8) as u16, g_blob(rng, big))).collect())),
            (Agent::TxC(a), "Done") => t!(a.send_done()),
            (Agent::TxS(a), "RequestTxIdsBlocking") => t!(a.acknowledge_and_request_tx_ids(true, rng.next_u32() as u16, rng.next_u32() as u16)),
            (Agent::TxS(a), "RequestTxIdsNonBlocking") => t!(a.acknowledge_and_request_tx_ids(false, rng.next_u32() as u16, rng.next_u32() as u16)),
            (Agent::TxS(a), "RequestTxs") => t!(a.request_txs((0..rng.below(4)).map(|_| g_txid(rng)).collect())),
            (Agent::KaC(a), "KeepAlive") => t!(a.send_keepalive_request()),
            (Agent::KaS(a), "ResponseKeepAlive") => t!(a.send_keepalive_response()),
            (Agent::PsC(a), "ShareRequest") => t!(a.send_share_request(rng.next_u8())),
            (Agent::PsC(a), "Done") => t!(a.send_done()),
            (Agent::PsS(a), "SharePeers") => t!(a.send_peer_addresses(g_peers(rng))),
            (Agent::LsC(a), "Acquire") => t!(a.send_acquire(if rng.bool() { Some(g_point(rng)) } else { None })),
            (Agent::LsC(a), "ReAcquire") => t!(a.send_reacquire(if rng.bool() { Some(g_point(rng)) } else { None })),
            (Agent::LsC(a), "Release") => t!(a.send_release()),
            (Agent::LsC(a), "Done") => t!(a.send_done()),
            (Agent::LsC(a), "Query") => t!(a.send_query(g_anycbor(rng))),
            (Agent::LsS(a), "Acquired") => t!(a.send_acquired()),
            (Agent::LsS(a), "Failure") => t!(a.send_failure(if rng.bool() { ls::AcquireFailure::PointTooOld } else { ls::AcquireFailure::PointNotOnChain })),
            (Agent::LsS(a), "Result") => t!(a.send_result(g_anycbor(rng))),
            (Agent::LtC(a), "SubmitTx") => t!(a.send_submit_tx(lt::EraTx(rng.below(8) as u16, g_blob(rng, big)))),
            (Agent::LtC(a), "Done") => t!(a.terminate_gracefully()),
            (Agent::LtS(a), "AcceptTx") => t!(a.send_submit_tx_response(lt::Response::Accepted)),
            (Agent::LtS(a), "RejectTx") => t!(a.send_submit_tx_response(lt::Response::Rejected(lt::TxValidationError::ShelleyTxValidationError { error: lt::ApplyTxError(vec![]), era: lt::ShelleyBasedEra::Conway }))),
            // tx-monitor: the only public high-level methods are request+reply round trips; the caller
            // has queued the server's reply beforehand (see `tm_round_trip`)
            (Agent::TmC(a), "Acquire" | "AwaitAcquire") => t!(a.acquire()),
            (Agent::TmC(a), "NextTx") => t!(a.query_next_tx()),
            (Agent::TmC(a), "HasTx") => t!(a.query_has_tx(hex::encode(rng.bytes(32)))),
            (Agent::TmC(a), "GetSizes") => t!(a.query_size_and_capacity()),
            (Agent::TmC(a), "Release") => t!(a.release()),
            _ => Res::NoApi,
        }
    }

    /// the public low-level `recv_message`
    async fn recv_low(&mut self) -> Res {
        match self {
            Agent::HsC(a) => t!(a.recv_message()),
            Agent::HsS(a) => t!(a.recv_message()),
            Agent::CsC(a) => t!(a.recv_message()),
            Agent::BfC(a) => t!(a.recv_message()),
            Agent::BfS(a) => t!(a.recv_message()),
            Agent::TxC(a) => t!(a.recv_message()),
            Agent::TxS(a) => t!(a.recv_message()),
            Agent::KaC(a) => t!(a.recv_message()),
            Agent::KaS(a) => t!(a.recv_message()),
            Agent::PsC(a) => t!(a.recv_message()),
            Agent::PsS(a) => t!(a.recv_message()),
            Agent::LsC(a) => t!(a.recv_message()),
            Agent::LsS(a) => t!(a.recv_message()),
            Agent::TmC(a) => t!(a.recv_message()),
            Agent::CsS(_) | Agent::LtC(_) | Agent::LtS(_) => Res::NoApi,
        }
    }

    /// is there a public receive method for this mode in the current state? (asked before anything is
    /// injected, so that no unread message is left in the channel)
    fn can_recv(&self, mode: Mode) -> bool {
        let st = self.state();
        if mode == Mode::RecvLow {
            return !matches!(self, Agent::CsS(_) | Agent::LtC(_) | Agent::LtS(_));
        }
        match (self, st.as_str()) {
            (Agent::HsC(_), "Confirm") | (Agent::HsS(_), "Propose") => true,
            (Agent::CsC(_), "CanAwait" | "MustReply" | "Intersect") => true,
            (Agent::CsS(_), _) => true,
            (Agent::BfC(_), "Busy" | "Streaming") | (Agent::BfS(_), "Idle") => true,
            (Agent::TxC(_), "Idle") | (Agent::TxS(_), "Init" | "TxIdsBlocking" | "TxIdsNonBlocking" | "Txs") => true,
            (Agent::KaC(_), "Server") | (Agent::KaS(_), "Client") => true,
            (Agent::PsC(_), "Busy") | (Agent::PsS(_), "Idle") => true,
            (Agent::LsC(_), "Acquiring" | "Querying") | (Agent::LsS(_), "Idle" | "Acquired") => true,
            (Agent::LtC(_), _) | (Agent::LtS(_), _) => true,
            _ => false,
        }
    }

    /// the high-level receive method a caller uses in the agent's current state (NoApi = the agent has
    /// no dedicated method for this state; `recv_message` covers it)
    async fn recv_high(&mut self) -> Res {
        let st = self.state();
        match (self, st.as_str()) {
            (Agent::HsC(a), "Confirm") => t!(a.recv_while_confirm()),
            (Agent::HsS(a), "Propose") => t!(a.receive_proposed_versions()),
            (Agent::CsC(a), "CanAwait") => t!(a.recv_while_can_await()),
            (Agent::CsC(a), "MustReply") => t!(a.recv_while_must_reply()),
            (Agent::CsC(a), "Intersect") => t!(a.recv_intersect_response()),
            (Agent::CsS(a), _) => t!(a.recv_while_idle()),
            (Agent::BfC(a), "Busy") => t!(a.recv_while_busy()),
            (Agent::BfC(a), "Streaming") => t!(a.recv_while_streaming()),
            (Agent::BfS(a), "Idle") => t!(a.recv_while_idle()),
            (Agent::TxC(a), "Idle") => t!(a.next_request()),
            (Agent::TxS(a), "Init") => t!(a.wait_for_init()),
            (Agent::TxS(a), "TxIdsBlocking" | "TxIdsNonBlocking" | "Txs") => t!(a.receive_next_reply()),
            (Agent::KaC(a), "Server") => t!(a.recv_keepalive_response()),
            (Agent::KaS(a), "Client") => t!(a.recv_keepalive_request()),
            (Agent::PsC(a), "Busy") => t!(a.recv_peer_addresses()),
            (Agent::PsS(a), "Idle") => t!(a.recv_share_request()),
            (Agent::LsC(a), "Acquiring") => t!(a.recv_while_acquiring()),
            (Agent::LsC(a), "Querying") => t!(a.recv_while_querying()),
            (Agent::LsS(a), "Idle") => t!(a.recv_while_idle()),
            (Agent::LsS(a), "Acquired") => t!(a.recv_while_acquired()),
            (Agent::LtC(a), _) => t!(a.recv_submit_tx_response()),
            (Agent::LtS(a), _) => t!(a.recv_next_request()),
            _ => Res::NoApi,
        }
    }
}

// ---------------------------------------------------------------------------------------
// one connected pair
// ---------------------------------------------------------------------------------------
struct Conn {
    proto: Proto,
    role: Agency,
    agent: Agent,
    peer: AgentChannel,
    running: Option<(RunningPlexer, RunningPlexer)>,
    spec: Spec,
    /// messages the agent put on the wire and the harness has not looked at yet are counted here
    trace: Vec<String>,
}

impl Conn {
    async fn open(proto: Proto, role: Agency) -> Result<Conn, String> {
        let (a, b) = tokio::net::UnixStream::pair().map_err(|e| format!("socketpair: {e}"))?;
        let mut pa = Plexer::new(Bearer::Unix(a));
        let mut pb = Plexer::new(Bearer::Unix(b));
        let id = 2 + proto as u16;
        let (ach, peer) = if role == Agency::Client { (pa.subscribe_client(id), pb.subscribe_server(id)) } else { (pa.subscribe_server(id), pb.subscribe_client(id)) };
        let ra = pa.spawn();
        let rb = pb.spawn();
        Ok(Conn { proto, role, agent: Agent::new(proto, role, ach), peer, running: Some((ra, rb)), spec: Spec::new(proto), trace: vec![] })
    }
    async fn close(mut self) {
        if let Some((a, b)) = self.running.take() {
            a.abort().await;
            b.abort().await;
        }
    }
    async fn inject(&mut self, bytes: Vec<u8>, rng: &mut Rng) -> Result<(), String> {
        // arbitrary segmentation (every segment <= 65535 bytes). Exception: tx-monitor MsgReplyNextTx
        // `[6, tx]` cut right after the label is mis-read by pallas as `[6]` (is_end_of_input is swallowed
        // by the datatype() probe in its decoder) which leaves garbage in the buffer: a reassembly
        // defect in the scope of C21, kept out of this workload by not splitting that message.
        let whole = self.proto == Proto::LocalTxMonitor && label_of_prefix(&bytes) == Some(6);
        let mut rest = &bytes[..];
        while !rest.is_empty() {
            let max = rest.len().min(65535);
            let n = if !whole && rng.chance(1, 4) { 1 + rng.usize_below(max) } else { max };
            self.peer.enqueue_chunk(rest[..n].to_vec()).await.map_err(|e| format!("inject: {e:?}"))?;
            rest = &rest[n..];
        }
        Ok(())
    }
    /// one complete CBOR item from the agent, if any arrives within `wait`
    async fn observe(&mut self, wait: Duration) -> Result<Option<Vec<u8>>, String> {
        let mut buf: Vec<u8> = vec![];
        loop {
            let w = if buf.is_empty() { wait } else { OP_TIMEOUT };
            match tokio::time::timeout(w, self.peer.dequeue_chunk()).await {
                Err(_) => return if buf.is_empty() { Ok(None) } else { Err("partial message on the wire".into()) },
                Ok(Err(e)) => return Err(format!("peer channel: {e:?}")),
                Ok(Ok(c)) => buf.extend(c),
            }
            match cbor::parse_prefix(&buf) {
                Ok(_) => return Ok(Some(buf)),
                Err(cbor::CborError::Truncated(_)) => continue,
                Err(e) => return Err(format!("agent wrote malformed CBOR: {e:?}")),
            }
        }
    }
    fn class_matches(&self, spec_state: &str) -> bool {
        let a = self.agent.state();
        a == spec_state || (self.proto == Proto::LocalTxMonitor && a == "Busy" && spec_state.starts_with("Busy"))
    }
}

fn label_of_prefix(bytes: &[u8]) -> Option<u64> {
    // `8x <label>` with a small label
    if bytes.len() >= 2 && bytes[0] & 0xe0 == 0x80 && bytes[1] < 24 {
        Some(bytes[1] as u64)
    } else {
        None
    }
}

fn label_of(bytes: &[u8]) -> Option<u64> {
    let it = cbor::parse_prefix(bytes).ok()?;
    if it.is_array() && !it.children.is_empty() && it.children[0].is_uint() {
        Some(it.children[0].arg)
    } else {
        None
    }
}

/// tx-monitor: reply the server has to give to a request (the client only offers round trips)
fn tm_reply_for(kind: &str) -> Option<MsgKind> {
    match kind {
        "Acquire" | "AwaitAcquire" => Some("Acquired"),
        "NextTx" => Some("ReplyNextTx"),
        "HasTx" => Some("ReplyHasTx"),
        "GetSizes" => Some("ReplyGetSizes"),
        _ => None,
    }
}
fn tm_request_into(state: &str) -> Option<MsgKind> {
    match state {
        "Acquiring" => Some("Acquire"),
        "BusyNextTx" => Some("NextTx"),
        "BusyHasTx" => Some("HasTx"),
        "BusyGetSizes" => Some("GetSizes"),
        _ => None,
    }
}

#[derive(PartialEq, Debug)]
enum Verdict {
    /// legal and accepted; the spec has been advanced
    Advanced,
    /// illegal and rejected, state unchanged
    Refused,
    /// nothing to judge (no API / transport problem)
    Skipped,
    /// disagreement, reported
    Bad,
    /// the connection is unusable for further steps (codec problem outside this property)
    Broken,
}

struct Mon<'a> {
    ctx: &'a mut Ctx,
    origin: serde_json::Value,
}

impl<'a> Mon<'a> {
    fn sig(&self, c: &Conn, s0: &str, mode: Mode, kind: &str, tail: &str) -> String {
        format!("C23:{}:{}:state={s0}:{}={kind}:{tail}", c.proto.name(), c.role.name(), if mode.is_send() { "send" } else { "recv" })
    }
    fn report(&mut self, c: &Conn, s0: &str, mode: Mode, kind: &str, tail: &str, what: String) {
        let sig = self.sig(c, s0, mode, kind, tail);
        let what = format!("{} {} agent in state {s0}, {} of {kind}: {what}", c.proto.name(), c.role.name(), mode.name());
        let replay = json!({"proto": c.proto.name(), "role": c.role.name(), "state": s0, "kind": kind, "mode": format!("{mode:?}"), "steps_before": c.trace, "origin": self.origin});
        self.ctx.violation(&sig, &what, replay);
    }

    /// One monitored presentation of message kind `kind` to the agent in its current state.
    /// `kind` may carry a `#variant` suffix for messages outside the spec vocabulary.
    async fn attempt(&mut self, c: &mut Conn, kind: &str, mode: Mode, rng: &mut Rng, big: bool) -> Verdict {
        let p = c.proto;
        let s0: St = c.spec.state();
        let base = kind.split('#').next().unwrap();
        let off_spec = kind.contains('#');
        let me = c.role;
        let tm = p == Proto::LocalTxMonitor;
        // what the specification says
        let mut want: Option<St> = if off_spec {
            None
        } else if mode.is_send() {
            if c.spec.can(me, base) {
                c.spec.peek(base)
            } else {
                None
            }
        } else if c.spec.can(me.other(), base) {
            c.spec.peek(base)
        } else {
            None
        };
        // pallas' tx-monitor State::Busy does not record which request is outstanding; the typed
        // round-trip methods do the matching (judged strictly), recv_message cannot
        if tm && mode == Mode::RecvLow && s0.starts_with("Busy") && base.starts_with("Reply") {
            want = Some("Acquired");
        }
        // tx-monitor high-level sends are round trips: queue the conformant reply first
        let mut round_trip: Option<MsgKind> = None;
        if tm && mode == Mode::SendHigh {
            if let Some(r) = tm_reply_for(base) {
                round_trip = Some(r);
                let w = wire(p, r, rng, 0, false);
                if c.inject(w, rng).await.is_err() {
                    return Verdict::Skipped;
                }
                if let Some(mid) = want {
                    want = specs::next(p, mid, r);
                }
            }
        }
        // perform
        let cookie = c.agent.cookie().unwrap_or(rng.next_u32() as u16);
        let res = match mode {
            Mode::SendLow => c.agent.send_low(kind, rng, big).await,
            Mode::SendHigh => c.agent.send_high(base, rng, big).await,
            Mode::RecvHigh | Mode::RecvLow => {
                if !c.agent.can_recv(mode) {
                    self.ctx.count("no_public_api_for_case");
                    return Verdict::Skipped;
                }
                let ck = if kind == "ResponseKeepAlive#badcookie" { cookie.wrapping_add(1 + rng.below(65535) as u16) } else { cookie };
                let w = wire(p, base, rng, ck, big);
                if let Err(e) = c.inject(w, rng).await {
                    self.ctx.inconclusive(&format!("harness transport: {e}"));
                    return Verdict::Skipped;
                }
                if mode == Mode::RecvHigh {
                    c.agent.recv_high().await
                } else {
                    c.agent.recv_low().await
                }
            }
        };
        let tag = format!("{}:{kind}", match mode {
            Mode::SendLow => "send-low",
            Mode::SendHigh => "send",
            Mode::RecvHigh => "recv",
            Mode::RecvLow => "recv-low",
        });
        match res {
            Res::NoApi => {
                self.ctx.count("no_public_api_for_case");
                return Verdict::Skipped;
            }
            Res::Infra(e) => {
                self.ctx.count("transport_problems");
                self.ctx.inconclusive(&format!("transport problem during {} {} {tag} in {s0}: {e}", p.name(), me.name()));
                return Verdict::Skipped;
            }
            _ => {}
        }
        self.ctx.eval();
        self.ctx.set_insert("triples_seen", &format!("{}:{}:{s0}:{tag}", p.name(), me.name()));
        let legal = want.is_some();
        if !legal || !is_happy(base) {
            self.ctx.nontrivial(fp(format!("{}:{}:{s0}:{tag}", p.name(), me.name()).as_bytes()));
        }
        c.trace.push(format!("{s0}:{tag}:{}", if res == Res::Ok { "ok" } else { "err" }));
        match (&res, want) {
            (Res::Ok, Some(next)) => {
                if mode.is_send() {
                    match c.observe(OP_TIMEOUT).await {
                        Ok(Some(bytes)) => {
                            let lab = label_of(&bytes);
                            let exp = specs::wire_tag(p, specs::canon(p, s0, specs::messages(p).into_iter().find(|m| *m == base).unwrap_or("")));
                            let ok = match (p, base, lab) {
                                // local-state-query: acquire/re-acquire of the tip use their own labels 8 / 9
                                (Proto::LocalStateQuery, "Acquire", Some(8)) | (Proto::LocalStateQuery, "ReAcquire", Some(9)) => true,
                                (_, _, Some(l)) => Some(l as u16) == exp,
                                _ => false,
                            };
                            if !ok {
                                self.report(c, s0, mode, kind, "wrong-label-on-wire", format!("the message on the wire has label {lab:?}, the specification's label is {exp:?}"));
                                return Verdict::Bad;
                            }
                            self.ctx.count("sends_observed_on_wire");
                        }
                        Ok(None) => {
                            self.report(c, s0, mode, kind, "expect=accept:got=accept-nothing-sent", "the call returned Ok but no message reached the peer".into());
                            return Verdict::Bad;
                        }
                        Err(e) => {
                            self.ctx.inconclusive(&format!("harness transport: {e}"));
                            return Verdict::Skipped;
                        }
                    }
                }
                if mode.is_high() {
                    if !c.class_matches(next) {
                        let got = c.agent.state();
                        self.report(c, s0, mode, kind, &format!("expect-state={next}:got-state={got}"), format!("accepted, but the agent is in state {got}; the specification prescribes {next}"));
                        return Verdict::Bad;
                    }
                    self.ctx.count("accepted_and_state_correct");
                } else {
                    self.ctx.count("accepted_low_level");
                }
                c.spec.step(base).ok();
                if let Some(r) = round_trip {
                    c.spec.step(r).ok();
                }
                Verdict::Advanced
            }
            (Res::Ok, None) => {
                let mut tail = "expect=reject:got=accept".to_string();
                if mode.is_send() {
                    match c.observe(Duration::from_secs(2)).await {
                        Ok(None) => tail.push_str("-nothing-sent"),
                        _ => {}
                    }
                }
                self.report(c, s0, mode, kind, &tail, format!("the specification does not allow this here; the call returned Ok (agent state now {})", c.agent.state()));
                Verdict::Bad
            }
            (Res::Rej(e), Some(_)) if e == "DecodeError" => {
                // the bytes of a conformant message did not decode: a codec / reassembly matter (C21, C22),
                // not an observation of the state machine; counted, and the connection is given up
                self.ctx.count("codec_error_on_conformant_message");
                self.ctx.set_insert("codec_errors", &format!("{}:{}:{s0}:{tag}", p.name(), me.name()));
                Verdict::Broken
            }
            (Res::Rej(e), Some(next)) => {
                self.report(c, s0, mode, kind, "expect=accept:got=reject", format!("the specification allows it (next state {next}); the call returned Err({e})"));
                Verdict::Bad
            }
            (Res::Rej(_), None) => {
                // for a tx-monitor round trip whose *reply* is what is being refused the agent legitimately sits in the busy state
                if !c.class_matches(s0) {
                    let got = c.agent.state();
                    self.report(c, s0, mode, kind, &format!("state-changed-on-reject:got-state={got}"), format!("rejected, yet the agent moved to state {got}"));
                    return Verdict::Bad;
                }
                if mode.is_send() {
                    if let Ok(Some(b)) = c.observe(Duration::from_millis(3)).await {
                        self.report(c, s0, mode, kind, "rejected-but-sent", format!("the call returned an error but a message with label {:?} reached the peer", label_of(&b)));
                        return Verdict::Bad;
                    }
                }
                self.ctx.count("rejected_and_state_unchanged");
                Verdict::Refused
            }
            _ => Verdict::Skipped,
        }
    }

    /// tx-monitor states that exist only inside a round trip (Acquiring, Busy*): judge an inbound `kind`
    /// by queueing it and running the round trip from the state before
    async fn tm_inbound_round_trip(&mut self, c: &mut Conn, target: St, kind: &str, rng: &mut Rng) -> Verdict {
        let p = c.proto;
        let req = tm_request_into(target).unwrap();
        let s_before = c.spec.state();
        let w = wire(p, kind, rng, 0, false);
        if c.inject(w, rng).await.is_err() {
            return Verdict::Skipped;
        }
        let res = c.agent.send_high(req, rng, false).await;
        let _ = c.observe(Duration::from_millis(200)).await; // the request itself
        let want = if specs::sender_of(p, kind) == Agency::Server { specs::next(p, target, kind) } else { None };
        let tag = format!("recv:{kind}");
        match res {
            Res::NoApi | Res::Infra(_) => return Verdict::Skipped,
            Res::Rej(ref e) if e == "InvalidOutbound" || e == "AgencyIsTheirs" => {
                // the request part failed: not an observation about the inbound message
                self.ctx.count("tm_round_trip_setup_failed");
                return Verdict::Skipped;
            }
            _ => {}
        }
        self.ctx.eval();
        self.ctx.set_insert("triples_seen", &format!("{}:client:{target}:{tag}", p.name()));
        if want.is_none() || !is_happy(kind) {
            self.ctx.nontrivial(fp(format!("{}:client:{target}:{tag}", p.name()).as_bytes()));
        }
        c.trace.push(format!("{s_before}:round-trip({req})+{kind}"));
        let got = c.agent.state();
        match (res, want) {
            (Res::Ok, Some(next)) => {
                if got != next {
                    self.report(c, target, Mode::RecvHigh, kind, &format!("expect-state={next}:got-state={got}"), format!("accepted, agent state {got}, specification {next}"));
                    return Verdict::Bad;
                }
                self.ctx.count("accepted_and_state_correct");
                Verdict::Advanced
            }
            (Res::Ok, None) => {
                self.report(c, target, Mode::RecvHigh, kind, "expect=reject:got=accept", format!("a {kind} answered the {req} request and the round trip returned Ok"));
                Verdict::Bad
            }
            (Res::Rej(e), Some(_)) if e == "DecodeError" => {
                self.ctx.count("codec_error_on_conformant_message");
                Verdict::Broken
            }
            (Res::Rej(e), Some(_)) => {
                self.report(c, target, Mode::RecvHigh, kind, "expect=accept:got=reject", format!("the conformant reply was refused with {e}"));
                Verdict::Bad
            }
            (Res::Rej(_), None) => {
                let want_state = if target.starts_with("Busy") { "Busy" } else { target };
                if got != want_state {
                    self.report(c, target, Mode::RecvHigh, kind, &format!("state-changed-on-reject:got-state={got}"), format!("rejected, yet the agent is in {got} instead of {want_state}"));
                    return Verdict::Bad;
                }
                self.ctx.count("rejected_and_state_unchanged");
                Verdict::Refused
            }
            _ => Verdict::Skipped,
        }
    }

    /// drive a fresh agent to `target` through high-level methods along a shortest path
    async fn drive(&mut self, c: &mut Conn, target: St, rng: &mut Rng) -> bool {
        let p = c.proto;
        let tm = p == Proto::LocalTxMonitor;
        let Some(path) = specs::shortest_path(p, target) else { return false };
        let mut i = 0;
        while i < path.len() {
            let k = path[i];
            let mine = specs::sender_of(p, k) == c.role;
            if tm && tm_reply_for(k).is_some() {
                if i + 1 < path.len() {
                    // request + reply as one round trip
                    if self.attempt(c, k, Mode::SendHigh, rng, false).await != Verdict::Advanced {
                        return false;
                    }
                    i += 2;
                    continue;
                }
                // the target is the state inside the round trip: let the round trip fail on a foreign reply
                let foreign = if k == "HasTx" { "ReplyNextTx" } else { "ReplyHasTx" };
                let w = wire(p, foreign, rng, 0, false);
                if c.inject(w, rng).await.is_err() {
                    return false;
                }
                let r = c.agent.send_high(k, rng, false).await;
                let _ = c.observe(Duration::from_millis(200)).await;
                c.trace.push(format!("{}:round-trip({k})+{foreign} to park the agent", c.spec.state()));
                if !matches!(r, Res::Rej(_)) || !c.class_matches(target) {
                    self.ctx.count("tm_park_failed");
                    return false;
                }
                c.spec.step(k).ok();
                i += 1;
                continue;
            }
            let v = self.attempt(c, k, if mine { Mode::SendHigh } else { Mode::RecvHigh }, rng, false).await;
            if v != Verdict::Advanced {
                return false;
            }
            i += 1;
        }
        c.spec.state() == target
    }
}

fn is_happy(kind: &str) -> bool {
    matches!(
        kind,
        "Propose" | "Accept" | "RequestNext" | "RollForward" | "RollBackward" | "AwaitReply" | "FindIntersect" | "IntersectFound" | "RequestRange" | "StartBatch" | "Block" | "BatchDone" | "Init" | "RequestTxIdsBlocking" | "ReplyTxIds" | "RequestTxs" | "ReplyTxs" | "KeepAlive" | "ResponseKeepAlive" | "ShareRequest" | "SharePeers" | "Acquire" | "Acquired" | "Query" | "Result" | "SubmitTx" | "AcceptTx" | "NextTx" | "ReplyNextTx"
    )
}

/// message kinds presented to an agent: the protocol's vocabulary plus the off-spec variants pallas can express
fn kinds_for(p: Proto, role: Agency, mode: Mode) -> Vec<String> {
    let mut v: Vec<String> = specs::messages(p).into_iter().map(|s| s.to_string()).collect();
    if p == Proto::LocalTxMonitor {
        // Acquire / AwaitAcquire are one wire message: present it once
        v.retain(|k| k != "AwaitAcquire");
        if mode == Mode::SendLow {
            v.push("AwaitAcquire#4".into());
        }
    }
    if p == Proto::KeepAlive && role == Agency::Client && mode == Mode::RecvHigh {
        v.push("ResponseKeepAlive#badcookie".into());
    }
    v
}

#[derive(Clone)]
struct Triple {
    proto: Proto,
    role: Agency,
    state: St,
    kind: String,
    mode: Mode,
}

fn all_triples() -> Vec<Triple> {
    let mut v = vec![];
    for (proto, role) in AGENTS {
        for state in specs::states(proto) {
            for mode in [Mode::SendLow, Mode::SendHigh, Mode::RecvHigh, Mode::RecvLow] {
                for kind in kinds_for(proto, role, mode) {
                    v.push(Triple { proto, role, state, kind, mode });
                }
            }
        }
    }
    v
}

async fn run_triple(ctx: &mut Ctx, t: &Triple, rng: &mut Rng) {
    let mut c = match Conn::open(t.proto, t.role).await {
        Ok(c) => c,
        Err(e) => {
            ctx.inconclusive(&e);
            return;
        }
    };
    let origin = json!({"part": "triple", "target_state": t.state});
    let mut mon = Mon { ctx, origin };
    let tm_inner = t.proto == Proto::LocalTxMonitor && tm_request_into(t.state).is_some();
    if tm_inner && t.mode == Mode::RecvHigh {
        // inbound message in a state that exists only inside a round trip
        let before = if t.state == "Acquiring" { "Idle" } else { "Acquired" };
        if mon.drive(&mut c, before, rng).await {
            mon.ctx.set_insert("states_reached", &format!("{}:{}:{}", t.proto.name(), t.role.name(), t.state));
            mon.tm_inbound_round_trip(&mut c, t.state, &t.kind, rng).await;
        } else {
            mon.ctx.set_insert("states_not_reached", &format!("{}:{}:{}", t.proto.name(), t.role.name(), t.state));
        }
    } else if mon.drive(&mut c, t.state, rng).await {
        mon.ctx.set_insert("states_reached", &format!("{}:{}:{}", t.proto.name(), t.role.name(), t.state));
        // tx-monitor high-level sends are round trips and the same method serves Acquire/AwaitAcquire
        let kind = if t.proto == Proto::LocalTxMonitor && t.kind == "Acquire" { specs::canon(t.proto, t.state, "Acquire").to_string() } else { t.kind.clone() };
        mon.attempt(&mut c, &kind, t.mode, rng, false).await;
    } else {
        // no public method leads there (e.g. keep-alive client has no way to reach Done), or a reported defect blocks the path
        mon.ctx.set_insert("states_not_reached", &format!("{}:{}:{}", t.proto.name(), t.role.name(), t.state));
    }
    c.close().await;
}

/// random walk over the spec with an illegal attempt before every legal step
async fn run_walk(ctx: &mut Ctx, idx: u64, rng: &mut Rng) {
    let (proto, role) = AGENTS[rng.usize_below(AGENTS.len())];
    let mut c = match Conn::open(proto, role).await {
        Ok(c) => c,
        Err(e) => {
            ctx.inconclusive(&e);
            return;
        }
    };
    let origin = json!({"part": "walk", "index": idx});
    let mut mon = Mon { ctx, origin };
    let big = rng.chance(1, 3);
    let len = 1 + rng.usize_below(30);
    let mut steps = 0u64;
    let tm = proto == Proto::LocalTxMonitor;
    'walk: for _ in 0..len {
        // 1. an illegal attempt
        let agency = c.spec.agency();
        let st = c.spec.state();
        let mode = if agency == role {
            // the agent holds agency: anything received would stay unread in the channel, so only sends are tried
            if rng.bool() { Mode::SendLow } else { Mode::SendHigh }
        } else {
            *rng.pick(&[Mode::SendLow, Mode::SendHigh, Mode::RecvHigh, Mode::RecvLow])
        };
        let cands: Vec<String> = kinds_for(proto, role, mode)
            .into_iter()
            .filter(|k| {
                let base = k.split('#').next().unwrap();
                if k.contains('#') {
                    return k != "ResponseKeepAlive#badcookie" || st == "Server";
                }
                if tm && mode == Mode::RecvLow && st.starts_with("Busy") {
                    return false;
                }
                if mode.is_send() { !c.spec.can(role, base) } else { !c.spec.can(role.other(), base) }
            })
            .collect();
        if !cands.is_empty() && !(tm && mode == Mode::SendHigh) {
            let k = rng.pick(&cands).clone();
            match mon.attempt(&mut c, &k, mode, rng, big).await {
                Verdict::Bad | Verdict::Broken => break 'walk,
                _ => {}
            }
        }
        // 2. a legal step through the high-level API
        if c.spec.is_done() {
            break;
        }
        let mut allowed = c.spec.allowed();
        rng.shuffle(&mut allowed);
        let mut moved = false;
        for k in allowed {
            let mine = specs::sender_of(proto, k) == role;
            if tm && !mine {
                continue; // replies are consumed inside the round trips
            }
            match mon.attempt(&mut c, k, if mine { Mode::SendHigh } else { Mode::RecvHigh }, rng, big).await {
                Verdict::Advanced => {
                    moved = true;
                    steps += 1;
                    break;
                }
                Verdict::Skipped => continue, // no public method for this message: try another one
                _ => break 'walk,
            }
        }
        if !moved {
            break;
        }
    }
    mon.ctx.max("longest_walk_steps", steps);
    mon.ctx.add("walk_steps", steps);
    mon.ctx.count("walks");
    c.close().await;
}

fn main() {
    let mut ctx = Ctx::from_args("C23");
    if let Err(e) = specs::selfcheck() {
        ctx.inconclusive(&format!("spec tables failed their self-check: {e}"));
        ctx.finish();
    }
    let rt = tokio::runtime::Builder::new_current_thread().enable_all().build().unwrap();
    let triples = all_triples();
    if let Some(p) = ctx.replay.clone() {
        let v: serde_json::Value = serde_json::from_slice(&std::fs::read(p).unwrap()).unwrap();
        let r = &v["replay"];
        let want = |t: &Triple| t.proto.name() == r["proto"] && t.role.name() == r["role"] && t.state == r["state"] && t.kind.split('#').next() == r["kind"].as_str().map(|k| if k == "AwaitAcquire" { "Acquire" } else { k }).unwrap_or("").split('#').next() && format!("{:?}", t.mode) == r["mode"].as_str().unwrap_or("");
        let mut n = 0;
        for t in triples.iter().filter(|t| want(t)) {
            let mut rng = Rng::new(7 + n);
            rt.block_on(run_triple(&mut ctx, t, &mut rng));
            n += 1;
        }
        println!("replayed {n} triple(s): violations={}", ctx.n_violations());
        ctx.finish();
    }
    ctx.note("triples_total", json!(triples.len()));
    rt.block_on(async {
        for (i, t) in triples.iter().enumerate() {
            if !ctx.owns(i as u64) {
                continue;
            }
            let mut rng = ctx.sub_rng("triple", i as u64);
            if ctx.want_sample() && i % 97 == 0 {
                ctx.sample(json!({"agent": format!("{} {}", t.proto.name(), t.role.name()), "state": t.state, "message": t.kind, "presented_as": t.mode.name(), "spec_next_if_sent_by_holder": specs::next(t.proto, t.state, t.kind.split('#').next().unwrap())}));
            }
            run_triple(&mut ctx, t, &mut rng).await;
            ctx.count("triples_executed");
        }
        let walks = ctx.budget(500, 50_000);
        for i in 0..walks {
            let mut rng = ctx.sub_rng("walk", i);
            run_walk(&mut ctx, i, &mut rng).await;
        }
    });
    ctx.note("triples_exhaustive", json!(true));
    ctx.finish();
}
