//! C44 — UTxO RPC mapping (v1alpha and v1beta) preserves ledger content.
//!
//! Oracle: the expected content of every transaction is read straight from its CBOR with the own
//! walker (pv::cbor): tx hash = own Blake2b-256 of the body bytes, inputs, outputs (address bytes,
//! coin, assets, datum option), fee, ttl / validity start, witness datums, redeemer payloads.
//! Plutus data is rebuilt as an own value tree whose integers are num-bigint values
//! (major 0/1 ints, tag 2 / tag 3 bignums); a mapped u5c BigInt denotes Int(i) -> i,
//! BigUInt(b) -> be(b), BigNInt(b) -> -1 - be(b) (utxorpc spec, RFC 8949 §3.4.3) and must be equal.
use num_bigint::{BigInt, BigUint, Sign};
use pallas_traverse::{Era, MultiEraBlock, MultiEraTx};
use pallas_utxorpc::{LedgerContext, TxoRef, UtxoMap};
use pv::cbor::{self, Item, Node};
use pv::refhash::blake2b_256;
use pv::*;
use std::collections::BTreeSet;

#[derive(Clone)]
struct NoLedger;
impl LedgerContext for NoLedger {
    fn get_utxos(&self, _refs: &[TxoRef]) -> Option<UtxoMap> {
        None
    }
    fn get_slot_timestamp(&self, _slot: u64) -> Option<u64> {
        None
    }
}

// ------------------------------------------------------------------------------------------
// own model
// ------------------------------------------------------------------------------------------

#[derive(Clone, Debug, PartialEq)]
enum PD {
    Constr { tag: u64, any: Option<u64>, fields: Vec<PD> },
    Map(Vec<(PD, PD)>),
    Array(Vec<PD>),
    /// value, class of the encoding ("int" = major 0/1, "bignum" = tag 2/3)
    Int(BigInt, &'static str),
    Bytes(Vec<u8>),
}

fn pd_from_item(src: &[u8], it: &Item) -> Result<PD, String> {
    match it.major {
        0 => Ok(PD::Int(BigInt::from(it.arg), "int")),
        1 => Ok(PD::Int(BigInt::from(-1) - BigInt::from(it.arg), "int")),
        2 => Ok(PD::Bytes(it.str_payload(src))),
        4 => Ok(PD::Array(it.children.iter().map(|c| pd_from_item(src, c)).collect::<Result<_, _>>()?)),
        5 => {
            let mut v = vec![];
            for (k, x) in it.map_entries() {
                v.push((pd_from_item(src, k)?, pd_from_item(src, x)?));
            }
            Ok(PD::Map(v))
        }
        6 => {
            let c = &it.children[0];
            match it.arg {
                2 | 3 => {
                    if c.major != 2 {
                        return Err("bignum payload is not bytes".into());
                    }
                    let n = BigInt::from(BigUint::from_bytes_be(&c.str_payload(src)));
                    Ok(PD::Int(if it.arg == 2 { n } else { BigInt::from(-1) - n }, "bignum"))
                }
                121..=127 | 1280..=1400 => {
                    if c.major != 4 {
                        return Err("constr fields are not an array".into());
                    }
                    Ok(PD::Constr { tag: it.arg, any: None, fields: c.children.iter().map(|x| pd_from_item(src, x)).collect::<Result<_, _>>()? })
                }
                102 => {
                    if c.major != 4 || c.children.len() != 2 || c.children[0].major != 0 || c.children[1].major != 4 {
                        return Err("tag 102 payload is not [uint, array]".into());
                    }
                    Ok(PD::Constr { tag: 102, any: Some(c.children[0].arg), fields: c.children[1].children.iter().map(|x| pd_from_item(src, x)).collect::<Result<_, _>>()? })
                }
                t => Err(format!("tag {t} is not plutus data")),
            }
        }
        m => Err(format!("major {m} is not plutus data")),
    }
}

fn int_class(v: &BigInt, enc: &str) -> &'static str {
    if enc == "bignum" {
        return "bignum";
    }
    if *v > BigInt::from(i64::MAX) {
        "uint-above-i64"
    } else if *v < BigInt::from(i64::MIN) {
        "nint-below-i64"
    } else {
        "within-i64"
    }
}

#[derive(Clone, Debug)]
enum ExpDatum {
    None,
    Hash(Vec<u8>),
    Inline { hash: [u8; 32], raw: Vec<u8>, pd: PD },
}

#[derive(Clone, Debug)]
struct ExpOut {
    addr: Vec<u8>,
    coin: u64,
    /// (policy, name, quantity)
    assets: Vec<(Vec<u8>, Vec<u8>, u64)>,
    datum: ExpDatum,
}

#[derive(Clone, Debug)]
struct ExpTx {
    byron: bool,
    hash: [u8; 32],
    inputs: BTreeSet<(Vec<u8>, u64)>,
    outputs: Vec<ExpOut>,
    fee: Option<u64>,
    ttl: u64,
    start: u64,
    wit_datums: Vec<([u8; 32], PD)>,
    /// (tag, index, payload)
    redeemers: Vec<(u64, u64, PD)>,
}

fn untag_set<'a>(it: &'a Item) -> &'a Item {
    if it.major == 6 && it.arg == 258 {
        &it.children[0]
    } else {
        it
    }
}

fn need(cond: bool, what: &str) -> Result<(), String> {
    if cond {
        Ok(())
    } else {
        Err(format!("oracle cannot read the transaction: {what}"))
    }
}

fn exp_output(src: &[u8], o: &Item) -> Result<ExpOut, String> {
    let (addr_it, val_it, datum): (&Item, &Item, ExpDatum) = if o.is_array() {
        need(o.children.len() >= 2, "legacy output arity")?;
        let d = if o.children.len() >= 3 {
            need(o.children[2].major == 2, "legacy datum hash")?;
            ExpDatum::Hash(o.children[2].str_payload(src))
        } else {
            ExpDatum::None
        };
        (&o.children[0], &o.children[1], d)
    } else {
        need(o.is_map(), "output is neither array nor map")?;
        let a = o.map_get_uint(0).ok_or("output without address")?;
        let v = o.map_get_uint(1).ok_or("output without value")?;
        let d = match o.map_get_uint(2) {
            None => ExpDatum::None,
            Some(d) => {
                need(d.is_array() && d.children.len() == 2 && d.children[0].major == 0, "datum option shape")?;
                if d.children[0].arg == 0 {
                    need(d.children[1].major == 2, "datum option hash")?;
                    ExpDatum::Hash(d.children[1].str_payload(src))
                } else {
                    let t = &d.children[1];
                    need(t.major == 6 && t.arg == 24 && t.children[0].major == 2, "inline datum is not #6.24(bytes)")?;
                    let raw = t.children[0].str_payload(src);
                    let inner = cbor::parse(&raw).map_err(|e| format!("inline datum bytes: {e:?}"))?;
                    let pd = pd_from_item(&raw, &inner)?;
                    ExpDatum::Inline { hash: blake2b_256(&raw), raw, pd }
                }
            }
        };
        (a, v, d)
    };
    need(addr_it.major == 2, "address is not bytes")?;
    let (coin, assets) = if val_it.major == 0 {
        (val_it.arg, vec![])
    } else {
        need(val_it.is_array() && val_it.children.len() == 2 && val_it.children[0].major == 0 && val_it.children[1].is_map(), "value shape")?;
        let mut v = vec![];
        for (p, m) in val_it.children[1].map_entries() {
            need(p.major == 2 && m.is_map(), "multiasset shape")?;
            for (n, q) in m.map_entries() {
                need(n.major == 2 && q.major == 0, "asset entry shape")?;
                v.push((p.str_payload(src), n.str_payload(src), q.arg));
            }
        }
        (val_it.children[0].arg, v)
    };
    Ok(ExpOut { addr: addr_it.str_payload(src), coin, assets, datum })
}

/// `body`, `wits`: items inside `src`
fn exp_tx(src: &[u8], body: &Item, wits: Option<&Item>) -> Result<ExpTx, String> {
    let hash = blake2b_256(body.bytes(src));
    if body.is_array() {
        // Byron: [inputs, outputs, attributes]
        need(body.children.len() == 3, "byron tx arity")?;
        let mut inputs = BTreeSet::new();
        for i in &body.children[0].children {
            need(i.is_array() && i.children.len() == 2 && i.children[0].major == 0 && i.children[0].arg == 0, "byron input variant")?;
            let t = &i.children[1];
            need(t.major == 6 && t.arg == 24 && t.children[0].major == 2, "byron input wrap")?;
            let raw = t.children[0].str_payload(src);
            let inner = cbor::parse(&raw).map_err(|e| format!("{e:?}"))?;
            need(inner.is_array() && inner.children.len() == 2 && inner.children[0].major == 2 && inner.children[1].major == 0, "byron input inner")?;
            inputs.insert((inner.children[0].str_payload(&raw), inner.children[1].arg));
        }
        let mut outputs = vec![];
        for o in &body.children[1].children {
            need(o.is_array() && o.children.len() == 2 && o.children[1].major == 0, "byron output")?;
            outputs.push(ExpOut { addr: o.children[0].bytes(src).to_vec(), coin: o.children[1].arg, assets: vec![], datum: ExpDatum::None });
        }
        return Ok(ExpTx { byron: true, hash, inputs, outputs, fee: None, ttl: 0, start: 0, wit_datums: vec![], redeemers: vec![] });
    }
    need(body.is_map(), "tx body is not a map")?;
    let mut inputs = BTreeSet::new();
    if let Some(ins) = body.map_get_uint(0) {
        for i in &untag_set(ins).children {
            need(i.is_array() && i.children.len() == 2 && i.children[0].major == 2 && i.children[1].major == 0, "input shape")?;
            inputs.insert((i.children[0].str_payload(src), i.children[1].arg));
        }
    }
    let mut outputs = vec![];
    if let Some(outs) = body.map_get_uint(1) {
        for o in &outs.children {
            outputs.push(exp_output(src, o)?);
        }
    }
    let uint_at = |k: u64| -> Result<Option<u64>, String> {
        match body.map_get_uint(k) {
            None => Ok(None),
            Some(x) if x.major == 0 => Ok(Some(x.arg)),
            Some(_) => Err(format!("body key {k} is not a uint")),
        }
    };
    let fee = uint_at(2)?;
    let ttl = uint_at(3)?.unwrap_or(0);
    let start = uint_at(8)?.unwrap_or(0);
    let mut wit_datums = vec![];
    let mut redeemers = vec![];
    if let Some(w) = wits {
        if w.is_map() {
            if let Some(ds) = w.map_get_uint(4) {
                for d in &untag_set(ds).children {
                    wit_datums.push((blake2b_256(d.bytes(src)), pd_from_item(src, d)?));
                }
            }
            if let Some(rs) = w.map_get_uint(5) {
                if rs.is_array() {
                    for r in &rs.children {
                        need(r.is_array() && r.children.len() == 4, "redeemer shape")?;
                        redeemers.push((r.children[0].arg, r.children[1].arg, pd_from_item(src, &r.children[2])?));
                    }
                } else if rs.is_map() {
                    for (k, v) in rs.map_entries() {
                        need(k.is_array() && k.children.len() == 2 && v.is_array() && v.children.len() == 2, "redeemer map shape")?;
                        redeemers.push((k.children[0].arg, k.children[1].arg, pd_from_item(src, &v.children[0])?));
                    }
                }
            }
        }
    }
    Ok(ExpTx { byron: false, hash, inputs, outputs, fee, ttl, start, wit_datums, redeemers })
}

// ------------------------------------------------------------------------------------------
// comparison, instantiated for both schema versions
// ------------------------------------------------------------------------------------------

#[derive(Debug)]
struct Diff {
    rule: String,
    detail: String,
}
fn diff(rule: impl Into<String>, detail: impl Into<String>) -> Diff {
    Diff { rule: rule.into(), detail: detail.into() }
}

macro_rules! version_oracle {
    ($m:ident, $ext:ident, $u5c:path) => {
        mod $m {
            use super::*;
            use $u5c as u5c;

            pub fn bigint_value(b: &u5c::BigInt) -> Option<BigInt> {
                match b.big_int.as_ref()? {
                    u5c::big_int::BigInt::Int(i) => Some(BigInt::from(*i)),
                    u5c::big_int::BigInt::BigUInt(x) => Some(BigInt::from_bytes_be(Sign::Plus, x.as_ref())),
                    u5c::big_int::BigInt::BigNInt(x) => Some(BigInt::from(-1) - BigInt::from_bytes_be(Sign::Plus, x.as_ref())),
                }
            }
            pub fn bigint_form(b: &u5c::BigInt) -> String {
                match b.big_int.as_ref() {
                    None => "<unset>".into(),
                    Some(u5c::big_int::BigInt::Int(i)) => format!("Int({i})"),
                    Some(u5c::big_int::BigInt::BigUInt(x)) => format!("BigUInt({})", hex::encode(x)),
                    Some(u5c::big_int::BigInt::BigNInt(x)) => format!("BigNInt({})", hex::encode(x)),
                }
            }

            /// u64 quantity (coin, fee, asset amount) against a mapped BigInt
            pub fn cmp_u64(what: &str, exp: u64, got: Option<&u5c::BigInt>) -> Result<(), Diff> {
                let cls = if exp > i64::MAX as u64 { "above-i64max" } else { "le-i64max" };
                match got.and_then(bigint_value) {
                    Some(v) if v == BigInt::from(exp) => Ok(()),
                    Some(_) => Err(diff(format!("{what}:{cls}:wrong-value"), format!("{what}: expected {exp}, mapped {}", bigint_form(got.unwrap())))),
                    None => Err(diff(format!("{what}:{cls}:missing"), format!("{what}: expected {exp}, mapped value is unset"))),
                }
            }

            pub fn cmp_pd(exp: &PD, got: &u5c::PlutusData, path: &str) -> Result<(), Diff> {
                use u5c::plutus_data::PlutusData as G;
                let Some(g) = got.plutus_data.as_ref() else {
                    return Err(diff("plutus:unset", format!("{path}: mapped plutus data is unset")));
                };
                match (exp, g) {
                    (PD::Int(v, enc), G::BigInt(b)) => match bigint_value(b) {
                        Some(x) if x == *v => Ok(()),
                        Some(x) => Err(diff(format!("plutus-int:{}", int_class(v, enc)), format!("{path}: datum integer {v} is mapped to {} which denotes {x}", bigint_form(b)))),
                        None => Err(diff(format!("plutus-int:{}:unset", int_class(v, enc)), format!("{path}: datum integer {v} is mapped to an unset BigInt"))),
                    },
                    (PD::Bytes(e), G::BoundedBytes(b)) => {
                        if e[..] == b[..] {
                            Ok(())
                        } else {
                            Err(diff("plutus:bytes", format!("{path}: bytes {} mapped to {}", hex_short(e), hex_short(b))))
                        }
                    }
                    (PD::Array(es), G::Array(a)) => {
                        if es.len() != a.items.len() {
                            return Err(diff("plutus:array-length", format!("{path}: list of {} items mapped to {} items", es.len(), a.items.len())));
                        }
                        for (i, (e, x)) in es.iter().zip(a.items.iter()).enumerate() {
                            cmp_pd(e, x, &format!("{path}[{i}]"))?;
                        }
                        Ok(())
                    }
                    (PD::Map(es), G::Map(m)) => {
                        if es.len() != m.pairs.len() {
                            return Err(diff("plutus:map-length", format!("{path}: map of {} pairs mapped to {} pairs", es.len(), m.pairs.len())));
                        }
                        for (i, ((ek, ev), p)) in es.iter().zip(m.pairs.iter()).enumerate() {
                            match (p.key.as_ref(), p.value.as_ref()) {
                                (Some(k), Some(v)) => {
                                    cmp_pd(ek, k, &format!("{path}.key{i}"))?;
                                    cmp_pd(ev, v, &format!("{path}.val{i}"))?;
                                }
                                _ => return Err(diff("plutus:map-pair-unset", format!("{path}: pair {i} has no key or value"))),
                            }
                        }
                        Ok(())
                    }
                    (PD::Constr { tag, any, fields }, G::Constr(c)) => {
                        if c.tag as u64 != *tag {
                            return Err(diff("plutus:constr-tag", format!("{path}: constructor tag {tag} mapped to {}", c.tag)));
                        }
                        if c.any_constructor != any.unwrap_or(0) {
                            return Err(diff("plutus:constr-any", format!("{path}: general constructor {any:?} mapped to {}", c.any_constructor)));
                        }
                        if fields.len() != c.fields.len() {
                            return Err(diff("plutus:constr-arity", format!("{path}: {} fields mapped to {}", fields.len(), c.fields.len())));
                        }
                        for (i, (e, x)) in fields.iter().zip(c.fields.iter()).enumerate() {
                            cmp_pd(e, x, &format!("{path}.f{i}"))?;
                        }
                        Ok(())
                    }
                    _ => Err(diff("plutus:variant", format!("{path}: expected {}, mapped to another variant", pd_kind(exp)))),
                }
            }

            pub fn cmp_output(k: usize, e: &ExpOut, g: &u5c::TxOutput, wit: &[([u8; 32], PD)], out: &mut Vec<Diff>) {
                if e.addr[..] != g.address[..] {
                    let cls = if g.address.is_empty() { "empty" } else { "different" };
                    out.push(diff(format!("output:address:{cls}"), format!("output {k}: address bytes {} mapped to {}", hex_short(&e.addr), hex_short(&g.address))));
                }
                if let Err(d) = cmp_u64("output:coin", e.coin, g.coin.as_ref()) {
                    out.push(Diff { rule: d.rule, detail: format!("output {k}: {}", d.detail) });
                }
                // assets, order-insensitive
                let mut exp: Vec<(Vec<u8>, Vec<u8>, BigInt)> = e.assets.iter().map(|(p, n, q)| (p.clone(), n.clone(), BigInt::from(*q))).collect();
                let mut got: Vec<(Vec<u8>, Vec<u8>, BigInt)> = vec![];
                let mut unset = false;
                for ma in &g.assets {
                    for a in &ma.assets {
                        match super::$ext::asset_quantity(a).and_then(bigint_value) {
                            Some(q) => got.push((ma.policy_id.to_vec(), a.name.to_vec(), q)),
                            None => unset = true,
                        }
                    }
                }
                exp.sort();
                got.sort();
                if unset {
                    out.push(diff("output:assets:quantity-unset", format!("output {k}: an asset quantity is unset")));
                } else if exp != got {
                    let cls = if exp.len() != got.len() {
                        "count"
                    } else if exp.iter().zip(got.iter()).any(|(a, b)| a.0 != b.0) {
                        "policy"
                    } else if exp.iter().zip(got.iter()).any(|(a, b)| a.1 != b.1) {
                        "name"
                    } else {
                        "quantity"
                    };
                    let show = |v: &Vec<(Vec<u8>, Vec<u8>, BigInt)>| v.iter().take(4).map(|(p, n, q)| format!("{}.{}={q}", hex_short(&p[..p.len().min(6)]), hex::encode(n))).collect::<Vec<_>>().join(",");
                    out.push(diff(format!("output:assets:{cls}"), format!("output {k}: assets [{}] mapped to [{}]", show(&exp), show(&got))));
                }
                // datum
                let (ghash, gpayload, gcbor): (Vec<u8>, Option<&u5c::PlutusData>, Vec<u8>) = match g.datum.as_ref() {
                    None => (vec![], None, vec![]),
                    Some(d) => (d.hash.to_vec(), d.payload.as_ref(), super::$ext::datum_cbor(d)),
                };
                match &e.datum {
                    ExpDatum::None => {
                        if !ghash.is_empty() || gpayload.is_some() || !gcbor.is_empty() {
                            out.push(diff("output:datum:unexpected", format!("output {k}: no datum on the output but the mapped datum is not empty")));
                        }
                    }
                    ExpDatum::Hash(h) => {
                        if ghash != *h {
                            out.push(diff("output:datum:hash", format!("output {k}: datum hash {} mapped to {}", hex::encode(h), hex::encode(&ghash))));
                        }
                        let known = wit.iter().find(|(wh, _)| wh[..] == h[..]);
                        match (known, gpayload) {
                            (Some((_, pd)), Some(p)) => {
                                if let Err(d) = cmp_pd(pd, p, &format!("output {k} datum (from witness set)")) {
                                    out.push(d);
                                }
                            }
                            (Some(_), None) => out.push(diff("output:datum:payload-missing", format!("output {k}: datum {} is in the witness set but the mapped payload is unset", hex::encode(h)))),
                            (None, Some(_)) => out.push(diff("output:datum:payload-unexpected", format!("output {k}: datum {} is not in the witness set but a payload was mapped", hex::encode(h)))),
                            (None, None) => {}
                        }
                    }
                    ExpDatum::Inline { hash, raw, pd } => {
                        if ghash[..] != hash[..] {
                            out.push(diff("output:datum:hash", format!("output {k}: inline datum hash {} mapped to {}", hex::encode(hash), hex::encode(&ghash))));
                        }
                        if gcbor != *raw {
                            out.push(diff("output:datum:original-cbor", format!("output {k}: inline datum bytes {} mapped to {}", hex_short(raw), hex_short(&gcbor))));
                        }
                        match gpayload {
                            None => out.push(diff("output:datum:payload-missing", format!("output {k}: inline datum but the mapped payload is unset"))),
                            Some(p) => {
                                if let Err(d) = cmp_pd(pd, p, &format!("output {k} inline datum")) {
                                    out.push(d);
                                }
                            }
                        }
                    }
                }
            }

            pub fn cmp_tx(e: &ExpTx, g: &u5c::Tx) -> Vec<Diff> {
                let mut out = vec![];
                if g.hash[..] != e.hash[..] {
                    out.push(diff("tx-hash", format!("tx hash {} mapped to {}", hex::encode(e.hash), hex::encode(&g.hash))));
                }
                let got_inputs: BTreeSet<(Vec<u8>, u64)> = g.inputs.iter().map(|i| (i.tx_hash.to_vec(), i.output_index as u64)).collect();
                if got_inputs != e.inputs {
                    out.push(diff("inputs", format!("inputs {:?} mapped to {:?}", e.inputs.iter().take(3).map(|(h, i)| format!("{}#{i}", hex_short(&h[..h.len().min(8)]))).collect::<Vec<_>>(), got_inputs.iter().take(3).map(|(h, i)| format!("{}#{i}", hex_short(&h[..h.len().min(8)]))).collect::<Vec<_>>())));
                }
                if g.outputs.len() != e.outputs.len() {
                    out.push(diff("outputs:count", format!("{} outputs mapped to {}", e.outputs.len(), g.outputs.len())));
                } else {
                    for (k, (eo, go)) in e.outputs.iter().zip(g.outputs.iter()).enumerate() {
                        cmp_output(k, eo, go, &e.wit_datums, &mut out);
                    }
                }
                if let Some(f) = e.fee {
                    if let Err(d) = cmp_u64("fee", f, g.fee.as_ref()) {
                        out.push(d);
                    }
                }
                match g.validity.as_ref() {
                    None => {
                        if e.ttl != 0 || e.start != 0 {
                            out.push(diff("validity:unset", format!("validity (start {}, ttl {}) not mapped", e.start, e.ttl)));
                        }
                    }
                    Some(v) => {
                        if v.ttl != e.ttl {
                            out.push(diff("validity:ttl", format!("ttl {} mapped to {}", e.ttl, v.ttl)));
                        }
                        if v.start != e.start {
                            out.push(diff("validity:start", format!("validity start {} mapped to {}", e.start, v.start)));
                        }
                    }
                }
                // plutus data carried by the witness set
                let gd: &[u5c::PlutusData] = g.witnesses.as_ref().map(|w| &w.plutus_datums[..]).unwrap_or(&[]);
                if gd.len() != e.wit_datums.len() {
                    out.push(diff("witness-datums:count", format!("{} witness datums mapped to {}", e.wit_datums.len(), gd.len())));
                } else {
                    for (i, ((_, pd), x)) in e.wit_datums.iter().zip(gd.iter()).enumerate() {
                        if let Err(d) = cmp_pd(pd, x, &format!("witness datum {i}")) {
                            out.push(d);
                        }
                    }
                }
                // redeemer payloads wherever this schema version carries them
                for (purpose, index, payload, at) in super::$ext::mapped_redeemers(g) {
                    match e.redeemers.iter().find(|(t, i, _)| *t == purpose && *i == index) {
                        None => out.push(diff("redeemer:unknown", format!("{at}: mapped redeemer (purpose {purpose}, index {index}) is not in the witness set"))),
                        Some((_, _, pd)) => match payload {
                            None => out.push(diff("redeemer:payload-unset", format!("{at}: redeemer payload unset"))),
                            Some(p) => {
                                if let Err(d) = cmp_pd(pd, p, &format!("{at} redeemer ({purpose},{index})")) {
                                    out.push(d);
                                }
                            }
                        },
                    }
                }
                out
            }

            pub fn cmp_header(slot: u64, hash: &[u8], height: u64, g: &u5c::Block) -> Vec<Diff> {
                let mut out = vec![];
                match g.header.as_ref() {
                    None => out.push(diff("block-header:unset", "block header not mapped")),
                    Some(h) => {
                        if h.slot != slot {
                            out.push(diff("block-header:slot", format!("slot {slot} mapped to {}", h.slot)));
                        }
                        if h.hash[..] != hash[..] {
                            out.push(diff("block-header:hash", format!("hash {} mapped to {}", hex::encode(hash), hex::encode(&h.hash))));
                        }
                        if h.height != height {
                            out.push(diff("block-header:height", format!("height {height} mapped to {}", h.height)));
                        }
                    }
                }
                out
            }
        }
    };
}

fn pd_kind(p: &PD) -> &'static str {
    match p {
        PD::Constr { .. } => "constr",
        PD::Map(_) => "map",
        PD::Array(_) => "list",
        PD::Int(..) => "integer",
        PD::Bytes(_) => "bytes",
    }
}

version_oracle!(va, va_ext, pallas_utxorpc::v1alpha::spec::cardano);
version_oracle!(vb, vb_ext, pallas_utxorpc::v1beta::spec::cardano);

// the few places where the two schema versions differ structurally
mod va_ext {
    use pallas_utxorpc::v1alpha::spec::cardano as u5c;
    pub fn asset_quantity(a: &u5c::Asset) -> Option<&u5c::BigInt> {
        match a.quantity.as_ref()? {
            u5c::asset::Quantity::OutputCoin(b) => Some(b),
            u5c::asset::Quantity::MintCoin(b) => Some(b),
        }
    }
    pub fn datum_cbor(d: &u5c::Datum) -> Vec<u8> {
        d.original_cbor.to_vec()
    }
    /// v1alpha: spend redeemers hang off the inputs, mint redeemers off the mint entries.
    /// RedeemerPurpose is the ledger's redeemer tag + 1 (0 = unspecified).
    pub fn mapped_redeemers(g: &u5c::Tx) -> Vec<(u64, u64, Option<&u5c::PlutusData>, String)> {
        let mut v = vec![];
        for (i, inp) in g.inputs.iter().enumerate() {
            if let Some(r) = inp.redeemer.as_ref() {
                v.push(((r.purpose as u64).wrapping_sub(1), r.index as u64, r.payload.as_ref(), format!("input {i}")));
            }
        }
        for (i, m) in g.mint.iter().enumerate() {
            if let Some(r) = m.redeemer.as_ref() {
                v.push(((r.purpose as u64).wrapping_sub(1), r.index as u64, r.payload.as_ref(), format!("mint {i}")));
            }
        }
        v
    }
}
mod vb_ext {
    use pallas_utxorpc::v1beta::spec::cardano as u5c;
    pub fn asset_quantity(a: &u5c::Asset) -> Option<&u5c::BigInt> {
        a.quantity.as_ref()
    }
    pub fn datum_cbor(d: &u5c::Datum) -> Vec<u8> {
        d.original_cbor.as_ref().map(|b| b.to_vec()).unwrap_or_default()
    }
    pub fn mapped_redeemers(g: &u5c::Tx) -> Vec<(u64, u64, Option<&u5c::PlutusData>, String)> {
        let mut v = vec![];
        if let Some(w) = g.witnesses.as_ref() {
            for (i, r) in w.redeemers.iter().enumerate() {
                v.push(((r.purpose as u64).wrapping_sub(1), r.index as u64, r.payload.as_ref(), format!("witness redeemer {i}")));
            }
        }
        for (i, inp) in g.inputs.iter().enumerate() {
            if let Some(r) = inp.redeemer.as_ref() {
                v.push(((r.purpose as u64).wrapping_sub(1), r.index as u64, r.payload.as_ref(), format!("input {i}")));
            }
        }
        v
    }
}

// ------------------------------------------------------------------------------------------
// generators
// ------------------------------------------------------------------------------------------

fn gen_int(rng: &mut Rng) -> Node {
    match rng.below(12) {
        0 => Node::int(rng.irange(-30, 30) as i128),
        1 => Node::int(*rng.pick(&[i64::MAX as i128, i64::MAX as i128 - 1, i64::MAX as i128 + 1, u64::MAX as i128, u64::MAX as i128 - 1])),
        2 => Node::int(*rng.pick(&[i64::MIN as i128, i64::MIN as i128 + 1, i64::MIN as i128 - 1, -(u64::MAX as i128) - 1, -(u64::MAX as i128)])),
        3 => Node::int(rng.next_u64() as i128),
        4 => Node::int(-1 - rng.next_u64() as i128),
        5 => Node::int((1i128 << 63) + (rng.next_u64() >> 1) as i128),
        6 => Node::int(-(1i128 << 63) - 1 - (rng.next_u64() >> 1) as i128),
        7 => Node::int(rng.edgy_i64() as i128),
        8 | 9 => {
            // bignum, any length, sometimes leading zeros / empty / chunked
            let n = match rng.below(5) {
                0 => 0,
                1 => 8,
                2 => 9,
                _ => rng.usize_below(40),
            };
            let mut b = rng.bytes(n);
            if n > 0 && rng.chance(1, 5) {
                b[0] = 0;
            }
            let payload = if rng.chance(1, 6) && n > 1 {
                let cut = 1 + rng.usize_below(n - 1);
                Node::BytesIndef(vec![b[..cut].to_vec(), b[cut..].to_vec()])
            } else {
                Node::bytes(&b)
            };
            Node::tag(if rng.bool() { 2 } else { 3 }, payload)
        }
        10 => {
            // non-minimal head widths
            let v = rng.below(1 << 16);
            if rng.bool() {
                Node::UInt(v, 8)
            } else {
                Node::NInt(v, 8)
            }
        }
        _ => Node::int(rng.irange(-100000, 100000) as i128),
    }
}

fn gen_pd(rng: &mut Rng, depth: usize) -> Node {
    let leaf = depth == 0 || rng.chance(2, 5);
    if leaf {
        return if rng.chance(3, 4) {
            gen_int(rng)
        } else {
            let n = rng.usize_below(70);
            let b = rng.bytes(n);
            if n > 2 && rng.chance(1, 4) {
                let cut = 1 + rng.usize_below(n - 1);
                Node::BytesIndef(vec![b[..cut].to_vec(), b[cut..].to_vec()])
            } else {
                Node::bytes(&b)
            }
        };
    }
    let n = rng.usize_below(5);
    match rng.below(4) {
        0 => {
            let xs: Vec<Node> = (0..n).map(|_| gen_pd(rng, depth - 1)).collect();
            if rng.bool() {
                Node::ArrayIndef(xs)
            } else {
                Node::arr(xs)
            }
        }
        1 => {
            let xs: Vec<(Node, Node)> = (0..n).map(|_| (gen_pd(rng, depth - 1), gen_pd(rng, depth - 1))).collect();
            if rng.chance(1, 4) {
                Node::MapIndef(xs)
            } else {
                Node::map(xs)
            }
        }
        _ => {
            let xs: Vec<Node> = (0..n).map(|_| gen_pd(rng, depth - 1)).collect();
            let fields = if rng.bool() && !xs.is_empty() { Node::ArrayIndef(xs) } else { Node::arr(xs) };
            match rng.below(3) {
                0 => Node::tag(121 + rng.below(7), fields),
                1 => Node::tag(1280 + rng.below(121), fields),
                _ => Node::tag(102, Node::arr(vec![Node::u(rng.edgy_u64()), fields])),
            }
        }
    }
}

// ------------------------------------------------------------------------------------------
// running the mappers
// ------------------------------------------------------------------------------------------

struct Mappers {
    a: pallas_utxorpc::v1alpha::Mapper<NoLedger>,
    b: pallas_utxorpc::v1beta::Mapper<NoLedger>,
}

fn report(ctx: &mut Ctx, ver: &str, diffs: Vec<Diff>, what: &str, replay: &serde_json::Value) {
    for d in diffs {
        ctx.violation(&format!("C44:{ver}:{}", d.rule), &format!("{what}: {}", d.detail), replay.clone());
    }
}

/// `tx_bytes`: a complete transaction; `era`: how to decode it (None = MultiEraTx::decode)
/// every transaction is mapped as it is and, where the layout has a phase-2 validity flag, once more with
/// the flag set to false (a transaction as it is recorded in a block after a script failure): the mapped
/// hash / inputs / outputs / fee / validity are those of the body in both cases
fn check_tx(ctx: &mut Ctx, m: &Mappers, tx_bytes: &[u8], era: Option<Era>, origin: &str, generated: bool) -> bool {
    let r = check_tx_inner(ctx, m, tx_bytes, era, origin, generated);
    if let Ok(it) = cbor::parse(tx_bytes) {
        if it.is_array() && it.children.len() == 4 && it.children[2].major == 7 && tx_bytes[it.children[2].start] == 0xf5 {
            let mut t = tx_bytes.to_vec();
            t[it.children[2].start] = 0xf4;
            if check_tx_inner(ctx, m, &t, era, &format!("{origin} [valid=false]"), generated) {
                ctx.count("tx_checked_with_validity_flag_false");
            }
        }
    }
    r
}

fn check_tx_inner(ctx: &mut Ctx, m: &Mappers, tx_bytes: &[u8], era: Option<Era>, origin: &str, generated: bool) -> bool {
    let replay = json!({"kind": "tx", "tx": hexs(tx_bytes), "era": era.map(|e| format!("{e:?}")), "origin": origin});
    // own reading
    let Ok(it) = cbor::parse(tx_bytes) else {
        ctx.count("tx_skipped_own_parse");
        return false;
    };
    if !it.is_array() || it.children.len() < 2 {
        ctx.count("tx_skipped_shape");
        return false;
    }
    let exp = match exp_tx(tx_bytes, &it.children[0], Some(&it.children[1])) {
        Ok(e) => e,
        Err(e) => {
            ctx.count("tx_skipped_oracle_cannot_read");
            ctx.set_insert("oracle_cannot_read", &e);
            return false;
        }
    };
    let dec = match era {
        Some(e) => MultiEraTx::decode_for_era(e, tx_bytes).map_err(|e| e.to_string()),
        None => MultiEraTx::decode(tx_bytes).map_err(|e| e.to_string()),
    };
    let tx = match dec {
        Ok(t) => t,
        Err(_) => {
            ctx.count(if generated { "generated_tx_rejected_by_decoder" } else { "tx_skipped_decoder_rejects" });
            return false;
        }
    };
    ctx.eval();
    ctx.count(&format!("tx_era_{:?}", tx.era()));
    match pv::panics::catch(|| m.a.map_tx(&tx)) {
        Err(p) => ctx.violation(&format!("panic:v1alpha:map_tx:{}", p.site()), &format!("v1alpha map_tx panicked on {origin}: {}", p.msg), replay.clone()),
        Ok(g) => report(ctx, "v1alpha", va::cmp_tx(&exp, &g), origin, &replay),
    }
    match pv::panics::catch(|| m.b.map_tx(&tx)) {
        Err(p) => ctx.violation(&format!("panic:v1beta:map_tx:{}", p.site()), &format!("v1beta map_tx panicked on {origin}: {}", p.msg), replay.clone()),
        Ok(g) => report(ctx, "v1beta", vb::cmp_tx(&exp, &g), origin, &replay),
    }
    // what this transaction exercised
    let has_assets = exp.outputs.iter().any(|o| !o.assets.is_empty());
    let has_datum = exp.outputs.iter().any(|o| !matches!(o.datum, ExpDatum::None)) || !exp.wit_datums.is_empty();
    if has_assets {
        ctx.count("txs_with_assets");
    }
    if has_datum {
        ctx.count("txs_with_datums");
    }
    if !exp.redeemers.is_empty() {
        ctx.count("txs_with_redeemers");
    }
    if exp.outputs.iter().any(|o| matches!(o.datum, ExpDatum::Inline { .. })) {
        ctx.count("txs_with_inline_datum");
    }
    if exp.outputs.iter().any(|o| o.coin > i64::MAX as u64) || exp.fee.map(|f| f > i64::MAX as u64).unwrap_or(false) {
        ctx.count("txs_with_coin_or_fee_above_i64max");
    }
    if exp.outputs.iter().any(|o| o.assets.iter().any(|a| a.2 > i64::MAX as u64)) {
        ctx.count("txs_with_asset_quantity_above_i64max");
    }
    if exp.byron {
        ctx.count("txs_byron");
    }
    if has_assets || has_datum {
        ctx.nontrivial(fp(tx_bytes));
    }
    ctx.add("outputs_compared", exp.outputs.len() as u64);
    true
}

fn count_ints(p: &PD, ctx: &mut Ctx) -> bool {
    match p {
        PD::Int(v, enc) => {
            let c = int_class(v, enc);
            ctx.count(&format!("plutus_ints_{c}"));
            c != "within-i64"
        }
        PD::Bytes(_) => false,
        PD::Array(xs) => xs.iter().fold(false, |a, x| count_ints(x, ctx) | a),
        PD::Map(xs) => xs.iter().fold(false, |a, (k, v)| count_ints(k, ctx) | count_ints(v, ctx) | a),
        PD::Constr { fields, .. } => fields.iter().fold(false, |a, x| count_ints(x, ctx) | a),
    }
}

fn check_datum(ctx: &mut Ctx, m: &Mappers, bytes: &[u8], origin: &str) {
    let replay = json!({"kind": "datum", "datum": hexs(bytes), "origin": origin});
    let Ok(it) = cbor::parse(bytes) else { return };
    let Ok(exp) = pd_from_item(bytes, &it) else {
        ctx.count("datum_skipped_oracle");
        return;
    };
    let pd: pallas_primitives::alonzo::PlutusData = match minicbor::decode(bytes) {
        Ok(p) => p,
        Err(_) => {
            ctx.count("datum_rejected_by_decoder");
            return;
        }
    };
    ctx.eval();
    ctx.count("datums_checked");
    let big = count_ints(&exp, ctx);
    if big {
        ctx.nontrivial(fp(bytes));
    }
    match pv::panics::catch(|| m.a.map_plutus_datum(&pd)) {
        Err(p) => ctx.violation(&format!("panic:v1alpha:map_plutus_datum:{}", p.site()), &format!("v1alpha map_plutus_datum panicked: {}", p.msg), replay.clone()),
        Ok(g) => {
            if let Err(d) = va::cmp_pd(&exp, &g, "datum") {
                report(ctx, "v1alpha", vec![d], origin, &replay);
            }
        }
    }
    match pv::panics::catch(|| m.b.map_plutus_datum(&pd)) {
        Err(p) => ctx.violation(&format!("panic:v1beta:map_plutus_datum:{}", p.site()), &format!("v1beta map_plutus_datum panicked: {}", p.msg), replay.clone()),
        Ok(g) => {
            if let Err(d) = vb::cmp_pd(&exp, &g, "datum") {
                report(ctx, "v1beta", vec![d], origin, &replay);
            }
        }
    }
}

fn era_of(tag: u64) -> Era {
    match tag {
        0 | 1 => Era::Byron,
        2 => Era::Shelley,
        3 => Era::Allegra,
        4 => Era::Mary,
        5 => Era::Alonzo,
        6 => Era::Babbage,
        _ => Era::Conway,
    }
}

/// own split of a `[era, block]` into stand-alone transactions `[body, witnesses, (valid), aux]`
fn split_block(bytes: &[u8]) -> Option<(u64, Vec<Vec<u8>>)> {
    let it = cbor::parse(bytes).ok()?;
    if !it.is_array() || it.children.len() != 2 || it.children[0].major != 0 {
        return None;
    }
    let era_tag = it.children[0].arg;
    let inner = &it.children[1];
    let mut txs: Vec<Vec<u8>> = vec![];
    if era_tag >= 2 {
        if inner.children.len() < 4 {
            return None;
        }
        let bodies = &inner.children[1];
        let wits = &inner.children[2];
        let aux = &inner.children[3];
        let invalid: Vec<u64> = if inner.children.len() > 4 { inner.children[4].children.iter().map(|c| c.arg).collect() } else { vec![] };
        for (i, b) in bodies.children.iter().enumerate() {
            let w = wits.children.get(i).map(|w| Node::raw(w.bytes(bytes))).unwrap_or(Node::map(vec![]));
            let a = aux.map_get_uint(i as u64).map(|a| Node::raw(a.bytes(bytes))).unwrap_or(Node::Null);
            let tx = if era_tag >= 5 {
                Node::arr(vec![Node::raw(b.bytes(bytes)), w, Node::Bool(!invalid.contains(&(i as u64))), a])
            } else {
                Node::arr(vec![Node::raw(b.bytes(bytes)), w, a])
            };
            txs.push(tx.to_vec());
        }
    } else if era_tag == 1 {
        // byron main block: [header, [tx_payload, ...], extra]; tx_payload = [[tx, witnesses], ...]
        if let Some(body) = inner.children.get(1) {
            if let Some(payload) = body.children.first() {
                for t in &payload.children {
                    txs.push(t.bytes(bytes).to_vec());
                }
            }
        }
    }
    Some((era_tag, txs))
}

fn harvest_templates(bytes: &[u8], templates: &mut Vec<(Era, Vec<u8>)>) {
    if let Some((era_tag, txs)) = split_block(bytes) {
        if era_tag >= 5 {
            for t in txs {
                if templates.len() < 400 {
                    templates.push((era_of(era_tag), t));
                }
            }
        }
    }
}

/// one block: header + every transaction through map_block of both versions
fn check_block(ctx: &mut Ctx, m: &Mappers, name: &str, bytes: &[u8]) {
    let replay = json!({"kind": "block", "name": name, "block": if bytes.len() < 200_000 { hexs(bytes) } else { String::new() }});
    let Some((era_tag, txs)) = split_block(bytes) else { return };
    let Ok(it) = cbor::parse(bytes) else { return };
    let inner = &it.children[1];
    let block = match MultiEraBlock::decode(bytes) {
        Ok(b) => b,
        Err(_) => {
            ctx.count("block_skipped_decoder_rejects");
            return;
        }
    };
    ctx.count("blocks_checked");
    // own header values (Shelley and later); Byron: trusted accessors
    let (slot, hash, height): (u64, Vec<u8>, u64) = if era_tag >= 2 {
        let header = &inner.children[0];
        let hb = &header.children[0];
        (hb.children[1].arg, blake2b_256(header.bytes(bytes)).to_vec(), hb.children[0].arg)
    } else {
        (block.slot(), block.hash().to_vec(), block.number())
    };
    let era = era_of(era_tag);
    let mtxs = block.txs();
    if mtxs.len() != txs.len() {
        ctx.count("block_skipped_tx_count_differs_from_own_split");
        return;
    }
    ctx.eval();
    let ga = pv::panics::catch(|| m.a.map_block(&block));
    let gb = pv::panics::catch(|| m.b.map_block(&block));
    match &ga {
        Err(p) => ctx.violation(&format!("panic:v1alpha:map_block:{}", p.site()), &format!("v1alpha map_block panicked on {name}: {}", p.msg), replay.clone()),
        Ok(g) => {
            report(ctx, "v1alpha", va::cmp_header(slot, &hash, height, g), name, &replay);
            let n = g.body.as_ref().map(|b| b.tx.len()).unwrap_or(0);
            if n != txs.len() {
                ctx.violation("C44:v1alpha:block:tx-count", &format!("{name}: {} transactions mapped to {n}", txs.len()), replay.clone());
            }
        }
    }
    match &gb {
        Err(p) => ctx.violation(&format!("panic:v1beta:map_block:{}", p.site()), &format!("v1beta map_block panicked on {name}: {}", p.msg), replay.clone()),
        Ok(g) => {
            report(ctx, "v1beta", vb::cmp_header(slot, &hash, height, g), name, &replay);
            let n = g.body.as_ref().map(|b| b.tx.len()).unwrap_or(0);
            if n != txs.len() {
                ctx.violation("C44:v1beta:block:tx-count", &format!("{name}: {} transactions mapped to {n}", txs.len()), replay.clone());
            }
        }
    }
    for (i, txb) in txs.iter().enumerate() {
        let Ok(ti) = cbor::parse(txb) else { continue };
        let exp = match exp_tx(txb, &ti.children[0], ti.children.get(1)) {
            Ok(e) => e,
            Err(e) => {
                ctx.count("tx_skipped_oracle_cannot_read");
                ctx.set_insert("oracle_cannot_read", &e);
                continue;
            }
        };
        let origin = format!("{name} tx {i}");
        let rp = json!({"kind": "tx", "tx": hexs(txb), "era": format!("{era:?}"), "origin": origin});
        ctx.eval();
        ctx.count("block_txs_checked");
        ctx.count(&format!("tx_era_{era:?}"));
        if exp.byron {
            ctx.count("txs_byron");
        }
        if !exp.redeemers.is_empty() {
            ctx.count("txs_with_redeemers");
        }
        if let Ok(g) = &ga {
            if let Some(t) = g.body.as_ref().and_then(|b| b.tx.get(i)) {
                report(ctx, "v1alpha", va::cmp_tx(&exp, t), &origin, &rp);
            }
        }
        if let Ok(g) = &gb {
            if let Some(t) = g.body.as_ref().and_then(|b| b.tx.get(i)) {
                report(ctx, "v1beta", vb::cmp_tx(&exp, t), &origin, &rp);
            }
        }
        let has_assets = exp.outputs.iter().any(|o| !o.assets.is_empty());
        let has_datum = exp.outputs.iter().any(|o| !matches!(o.datum, ExpDatum::None)) || !exp.wit_datums.is_empty();
        if has_assets {
            ctx.count("txs_with_assets");
        }
        if has_datum {
            ctx.count("txs_with_datums");
        }
        if has_assets || has_datum {
            ctx.nontrivial(fp(txb));
        }
        ctx.add("outputs_compared", exp.outputs.len() as u64);
    }
}

// ------------------------------------------------------------------------------------------
// splicing generated content into corpus transactions
// ------------------------------------------------------------------------------------------

fn map_entry_mut(n: &mut Node, key: u64) -> Option<&mut Node> {
    match n {
        Node::Map(xs, _) | Node::MapIndef(xs) => xs.iter_mut().find(|(k, _)| matches!(k, Node::UInt(v, _) if *v == key)).map(|(_, v)| v),
        _ => None,
    }
}
fn map_set(n: &mut Node, key: u64, val: Node) {
    if let Some(v) = map_entry_mut(n, key) {
        *v = val;
        return;
    }
    if let Node::Map(xs, _) | Node::MapIndef(xs) = n {
        xs.push((Node::u(key), val));
    }
}
fn array_items_mut(n: &mut Node) -> Option<&mut Vec<Node>> {
    match n {
        Node::Array(xs, _) | Node::ArrayIndef(xs) => Some(xs),
        Node::Tag(258, _, inner) => array_items_mut(inner),
        _ => None,
    }
}

fn edgy_coin(rng: &mut Rng) -> u64 {
    match rng.below(6) {
        0 => i64::MAX as u64,
        1 => i64::MAX as u64 + 1,
        2 => u64::MAX,
        3 => (1u64 << 63) | rng.next_u64(),
        4 => rng.below(1 << 40) + 1,
        _ => rng.edgy_u64().max(1),
    }
}

/// Returns the spliced transaction bytes and a label of what was changed.
fn splice(rng: &mut Rng, era: Era, tx: &[u8]) -> Option<(Vec<u8>, String)> {
    let it = cbor::parse(tx).ok()?;
    let mut root = cbor::to_node(tx, &it);
    let mut what = vec![];
    let Node::Array(parts, _) = &mut root else { return None };
    if parts.len() < 2 {
        return None;
    }
    let (body_part, rest) = parts.split_at_mut(1);
    let body = &mut body_part[0];
    let wits = &mut rest[0];
    let post_alonzo_outputs = matches!(era, Era::Babbage | Era::Conway);
    let n_changes = 1 + rng.usize_below(3);
    for _ in 0..n_changes {
        match rng.below(7) {
            0 | 1 | 2 => {
                // a generated datum on an output
                let datum = gen_pd(rng, 3).to_vec();
                let outs = array_items_mut(map_entry_mut(body, 1)?)?;
                if outs.is_empty() {
                    return None;
                }
                let k = rng.usize_below(outs.len());
                let (addr, value) = match &outs[k] {
                    Node::Array(xs, _) | Node::ArrayIndef(xs) if xs.len() >= 2 => (xs[0].clone(), xs[1].clone()),
                    m @ (Node::Map(..) | Node::MapIndef(..)) => {
                        let mut m2 = m.clone();
                        (map_entry_mut(&mut m2, 0)?.clone(), map_entry_mut(&mut m2, 1)?.clone())
                    }
                    _ => return None,
                };
                if post_alonzo_outputs && rng.chance(2, 3) {
                    let opt = Node::arr(vec![Node::u(1), Node::tag(24, Node::bytes(&datum))]);
                    outs[k] = Node::map(vec![(Node::u(0), addr), (Node::u(1), value), (Node::u(2), opt)]);
                    what.push("inline-datum");
                } else {
                    // datum hash on the output + the datum itself in the witness set
                    let h = blake2b_256(&datum);
                    outs[k] = if post_alonzo_outputs && rng.bool() {
                        Node::map(vec![(Node::u(0), addr), (Node::u(1), value), (Node::u(2), Node::arr(vec![Node::u(0), Node::bytes(&h)]))])
                    } else {
                        Node::arr(vec![addr, value, Node::bytes(&h)])
                    };
                    let mut have = false;
                    if let Some(ds) = map_entry_mut(wits, 4) {
                        if let Some(xs) = array_items_mut(ds) {
                            xs.push(Node::raw(&datum));
                            have = true;
                        }
                    }
                    if !have {
                        map_set(wits, 4, Node::arr(vec![Node::raw(&datum)]));
                    }
                    what.push("datum-hash+witness-datum");
                }
            }
            3 => {
                // coin of an output
                let outs = array_items_mut(map_entry_mut(body, 1)?)?;
                if outs.is_empty() {
                    return None;
                }
                let k = rng.usize_below(outs.len());
                let c = Node::u(edgy_coin(rng));
                let val: &mut Node = match &mut outs[k] {
                    Node::Array(xs, _) | Node::ArrayIndef(xs) if xs.len() >= 2 => &mut xs[1],
                    m @ (Node::Map(..) | Node::MapIndef(..)) => map_entry_mut(m, 1)?,
                    _ => return None,
                };
                match val {
                    Node::Array(xs, _) | Node::ArrayIndef(xs) if !xs.is_empty() => xs[0] = c,
                    v => *v = c,
                }
                what.push("coin");
            }
            4 => {
                // asset quantities of an output
                let outs = array_items_mut(map_entry_mut(body, 1)?)?;
                let mut done = false;
                for o in outs.iter_mut() {
                    let val: Option<&mut Node> = match o {
                        Node::Array(xs, _) | Node::ArrayIndef(xs) if xs.len() >= 2 => Some(&mut xs[1]),
                        m @ (Node::Map(..) | Node::MapIndef(..)) => map_entry_mut(m, 1),
                        _ => None,
                    };
                    if let Some(Node::Array(v, _)) = val {
                        if v.len() == 2 {
                            if let Node::Map(pols, _) | Node::MapIndef(pols) = &mut v[1] {
                                for (_, names) in pols.iter_mut() {
                                    if let Node::Map(ns, _) | Node::MapIndef(ns) = names {
                                        let mut used: Vec<Vec<u8>> = ns.iter().map(|(k, _)| k.to_vec()).collect();
                                        for (name, q) in ns.iter_mut() {
                                            if rng.bool() {
                                                *q = Node::u(edgy_coin(rng));
                                                done = true;
                                            }
                                            // asset names of every legal length (0..=32)
                                            if rng.chance(1, 3) {
                                                let n = *rng.pick(&[0usize, 1, 27, 28, 29, 31, 32, 32]);
                                                let nn = Node::bytes(&rng.bytes(n));
                                                // keys of a CBOR map must stay distinct
                                                if !used.contains(&nn.to_vec()) {
                                                    used.push(nn.to_vec());
                                                    *name = nn;
                                                    done = true;
                                                }
                                            }
                                        }
                                    }
                                }
                            }
                        }
                    }
                }
                if done {
                    what.push("asset-name-or-quantity");
                }
            }
            5 => {
                map_set(body, 2, Node::u(edgy_coin(rng)));
                what.push("fee");
            }
            _ => {
                let v = rng.edgy_u64();
                if rng.bool() {
                    map_set(body, 3, Node::u(v));
                    what.push("ttl");
                } else {
                    map_set(body, 8, Node::u(v));
                    what.push("validity-start");
                }
            }
        }
    }
    if what.is_empty() {
        return None;
    }
    what.sort();
    what.dedup();
    Some((root.to_vec(), what.join("+")))
}

fn main() {
    let mut ctx = Ctx::from_args("C44");
    let m = Mappers { a: pallas_utxorpc::v1alpha::Mapper::new(NoLedger), b: pallas_utxorpc::v1beta::Mapper::new(NoLedger) };
    if let Some(p) = ctx.replay.clone() {
        let v: serde_json::Value = serde_json::from_slice(&std::fs::read(p).unwrap()).unwrap();
        let r = &v["replay"];
        match r["kind"].as_str().unwrap_or("") {
            "datum" => check_datum(&mut ctx, &m, &hex::decode(r["datum"].as_str().unwrap()).unwrap(), "replay"),
            "tx" => {
                let era = match r["era"].as_str() {
                    Some("Byron") => Some(Era::Byron),
                    Some("Shelley") => Some(Era::Shelley),
                    Some("Allegra") => Some(Era::Allegra),
                    Some("Mary") => Some(Era::Mary),
                    Some("Alonzo") => Some(Era::Alonzo),
                    Some("Babbage") => Some(Era::Babbage),
                    Some("Conway") => Some(Era::Conway),
                    _ => None,
                };
                check_tx(&mut ctx, &m, &hex::decode(r["tx"].as_str().unwrap()).unwrap(), era, "replay", false);
            }
            _ => {
                check_block(&mut ctx, &m, "replay", &hex::decode(r["block"].as_str().unwrap_or("")).unwrap_or_default());
            }
        }
        println!("replayed: violations={}", ctx.n_violations());
        ctx.finish();
    }
    let quick = ctx.quick();
    // ---- 1. corpus blocks (every tx through map_block) and stand-alone transactions
    let mut templates: Vec<(Era, Vec<u8>)> = vec![];
    let step = if quick { 2 } else { 1 };
    let blocks = pv::corpus::all_blocks(step);
    for (i, b) in blocks.iter().enumerate() {
        // every shard needs the same templates: harvested from the test_data/*.block files
        if !b.name.contains(".chunk#") {
            harvest_templates(&b.bytes, &mut templates);
        }
        if ctx.owns(i as u64) {
            check_block(&mut ctx, &m, &b.name, &b.bytes);
        }
    }
    for (i, t) in pv::corpus::txs().iter().enumerate() {
        if ctx.owns(i as u64) {
            check_tx(&mut ctx, &m, &t.bytes, None, &t.name, false);
        }
    }
    ctx.note("templates", json!(templates.len()));
    // ---- 2. generated datums through map_plutus_datum
    let n = ctx.budget(120_000, 10_000_000);
    for i in 0..n {
        let d = gen_pd(&mut ctx.rng, 4).to_vec();
        check_datum(&mut ctx, &m, &d, "generated datum");
        if i < 2 {
            ctx.sample(json!({"generated_datum": hex_short(&d)}));
        }
    }
    // ---- 3. corpus transactions with generated datums / amounts spliced in
    let n = ctx.budget(6_000, 300_000);
    if templates.is_empty() {
        ctx.inconclusive("no Alonzo-or-later corpus transaction to use as a template");
    }
    for i in 0..n {
        if templates.is_empty() {
            break;
        }
        let (era, tx) = templates[ctx.rng.usize_below(templates.len())].clone();
        let Some((bytes, what)) = splice(&mut ctx.rng, era, &tx) else {
            ctx.count("splice_not_applicable");
            continue;
        };
        if check_tx(&mut ctx, &m, &bytes, Some(era), &format!("generated tx ({what})"), true) {
            ctx.count("generated_txs_checked");
            for w in what.split('+') {
                ctx.count(&format!("spliced_{w}"));
            }
            if i < 1 {
                ctx.sample(json!({"generated_tx": hex_short(&bytes), "spliced": what, "era": format!("{era:?}")}));
            }
        }
    }
    ctx.finish();
}
