//! Panic capture: a process-wide hook records where a panic happened (file, line,
//! message and — via a backtrace taken once per location — the innermost
//! non-std function), `catch` turns a panic inside a closure into a value.

use std::cell::RefCell;
use std::collections::HashMap;
use std::panic::{catch_unwind, AssertUnwindSafe};
use std::sync::Mutex;

#[derive(Clone, Debug)]
pub struct PanicInfo {
    pub file: String,
    pub line: u32,
    pub msg: String,
    pub func: String,
}

impl PanicInfo {
    /// file path relative to the repository / registry, without machine-specific prefix
    pub fn rel_file(&self) -> String {
        let f = &self.file;
        if let Some(i) = f.find("/repo/") {
            return f[i + 6..].to_string();
        }
        if let Some(i) = f.find("registry/src/") {
            let rest = &f[i + 13..];
            if let Some(j) = rest.find('/') {
                return rest[j + 1..].to_string();
            }
        }
        if let Some(i) = f.find("/rustc/") {
            let rest = &f[i + 7..];
            if let Some(j) = rest.find('/') {
                return format!("rust:{}", &rest[j + 1..]);
            }
        }
        f.clone()
    }
    /// message with digits, hex blobs and quoted payloads normalised away
    pub fn msg_class(&self) -> String {
        msg_class(&self.msg)
    }
    /// stable signature fragment: file + function + message class (no line numbers)
    pub fn site(&self) -> String {
        format!("{}:{}:{}", self.rel_file(), self.func, self.msg_class())
    }
    pub fn in_harness(&self) -> bool {
        self.file.starts_with("src/") || self.file.contains("/harness/src/")
    }
}

pub fn msg_class(m: &str) -> String {
    let mut out = String::new();
    let mut last_hash = false;
    for ch in m.chars().take(160) {
        if ch.is_ascii_digit() {
            if !last_hash {
                out.push('#');
                last_hash = true;
            }
        } else {
            last_hash = false;
            out.push(if ch == '\n' { ' ' } else { ch });
        }
    }
    // cut everything after the first ':' that follows an `Err(`/value dump to stay stable
    if let Some(i) = out.find(": ") {
        let head = &out[..i];
        if head.contains("unwrap()") || head.contains("expect") || head.len() > 24 {
            return head.to_string();
        }
    }
    out
}

thread_local! {
    static LAST: RefCell<Option<PanicInfo>> = const { RefCell::new(None) };
    static QUIET: RefCell<bool> = const { RefCell::new(false) };
}

static FUNC_CACHE: Mutex<Option<HashMap<(String, u32), String>>> = Mutex::new(None);

fn innermost_fn() -> String {
    let bt = std::backtrace::Backtrace::force_capture().to_string();
    // frames look like "  12: path::to::function\n             at file:line:col"
    let mut past_panic_machinery = false;
    for line in bt.lines() {
        let l = line.trim_start();
        let Some(idx) = l.find(": ") else { continue };
        if !l[..idx].chars().all(|c| c.is_ascii_digit()) {
            continue;
        }
        let name = &l[idx + 2..];
        let is_machinery = name.starts_with("std::")
            || name.starts_with("core::")
            || name.starts_with("alloc::")
            || name.starts_with("<core::")
            || name.starts_with("<alloc::")
            || name.starts_with("<std::")
            || name.starts_with("rust_begin_unwind")
            || name.starts_with("__rustc")
            || name.starts_with("pv::panics")
            || name.contains("panicking")
            || name.contains("panic_fmt")
            || name.contains("unwrap_failed")
            || name.contains("expect_failed")
            || name.contains("panic_bounds_check")
            || name.contains("slice_index")
            || name.contains("slice_start_index")
            || name.contains("slice_end_index")
            || name.contains("copy_from_slice")
            || name.contains("len_mismatch_fail");
        if is_machinery {
            past_panic_machinery = true;
            continue;
        }
        if past_panic_machinery {
            // strip the trailing hash `::h0123456789abcdef`
            let mut n = name.to_string();
            if let Some(p) = n.rfind("::h") {
                if n.len() - p == 19 {
                    n.truncate(p);
                }
            }
            // closures: keep the enclosing fn
            while n.ends_with("::{{closure}}") {
                n.truncate(n.len() - "::{{closure}}".len());
            }
            return n;
        }
    }
    "?".to_string()
}

pub fn install() {
    std::panic::set_hook(Box::new(|info| {
        let (file, line) = info.location().map(|l| (l.file().to_string(), l.line())).unwrap_or(("?".into(), 0));
        let msg = if let Some(s) = info.payload().downcast_ref::<&str>() {
            s.to_string()
        } else if let Some(s) = info.payload().downcast_ref::<String>() {
            s.clone()
        } else {
            "<non-string panic payload>".to_string()
        };
        let func = {
            let key = (file.clone(), line);
            let cached = FUNC_CACHE.lock().ok().and_then(|g| g.as_ref().and_then(|m| m.get(&key).cloned()));
            match cached {
                Some(f) => f,
                None => {
                    let f = innermost_fn();
                    if let Ok(mut g) = FUNC_CACHE.lock() {
                        g.get_or_insert_with(HashMap::new).insert(key, f.clone());
                    }
                    f
                }
            }
        };
        let quiet = QUIET.with(|q| *q.borrow());
        if !quiet {
            eprintln!("HARNESS-PANIC (outside a monitored case) at {file}:{line} in {func}: {msg}");
        }
        LAST.with(|l| *l.borrow_mut() = Some(PanicInfo { file, line, msg, func }));
    }));
}

/// Run `f`; a panic inside becomes `Err(PanicInfo)`.
pub fn catch<T>(f: impl FnOnce() -> T) -> Result<T, PanicInfo> {
    QUIET.with(|q| *q.borrow_mut() = true);
    LAST.with(|l| *l.borrow_mut() = None);
    let r = catch_unwind(AssertUnwindSafe(f));
    QUIET.with(|q| *q.borrow_mut() = false);
    match r {
        Ok(v) => Ok(v),
        Err(_) => Err(LAST.with(|l| l.borrow_mut().take()).unwrap_or(PanicInfo {
            file: "?".into(),
            line: 0,
            msg: "?".into(),
            func: "?".into(),
        })),
    }
}

/// for panics on other threads (tokio tasks): last panic recorded on *this* thread
pub fn take_last() -> Option<PanicInfo> {
    LAST.with(|l| l.borrow_mut().take())
}
