//! Local-tx-submission reject reasons (`TxValidationError` and everything below it).

use super::lsq::*;
use super::*;
use n1::localtxsubmission as lt;
use pallas_codec::utils::Set;

pub static T_SBERA: Ty = Ty { name: "ShelleyBasedEra", variants: &["Shelley", "Allegra", "Mary", "Alonzo", "Babbage", "Conway"] };
pub static T_NETWORK: Ty = Ty { name: "Network", variants: &["Testnet", "Mainnet"] };
pub static T_FAILDESC: Ty = Ty { name: "FailureDescription", variants: &["PlutusFailure"] };
pub static T_TAGMISMATCH: Ty = Ty { name: "TagMismatchDescription", variants: &["PassedUnexpectedly", "FailedUnexpectedly"] };
pub static T_TXOUTSOURCE: Ty = Ty { name: "TxOutSource", variants: &["Input", "Output"] };
const PP: &[&str] = &["Spending", "Minting", "Certifying", "Rewarding", "Voting", "Proposing"];
pub static T_PPIX: Ty = Ty { name: "PlutusPurposeIx", variants: PP };
pub static T_PPITEM: Ty = Ty { name: "PlutusPurposeItem", variants: PP };
pub static T_CONWAYTXCERT: Ty = Ty { name: "ConwayTxCert", variants: &["Deleg", "Pool", "Gov"] };
pub static T_BABBAGECTX: Ty = Ty {
    name: "BabbageContextError",
    variants: &[
        "ByronTxOutInContext",
        "AlonzoMissingInput",
        "RedeemerPointerPointsToNothing",
        "InlineDatumsNotSupported",
        "ReferenceScriptsNotSupported",
        "ReferenceInputsNotSupported",
        "AlonzoTimeTranslationPastHorizon",
    ],
};
pub static T_VOTINGPROC: Ty = Ty { name: "VotingProcedure", variants: &["-"] };
pub static T_CONWAYCTX: Ty = Ty {
    name: "ConwayContextError",
    variants: &[
        "BabbageContextError",
        "CertificateNotSupported",
        "PlutusPurposeNotSupported",
        "CurrentTreasuryFieldNotSupported",
        "VotingProceduresFieldNotSupported",
        "ProposalProceduresFieldNotSupported",
        "TreasuryDonationFieldNotSupported",
    ],
};
pub static T_COLLECTERR: Ty = Ty { name: "CollectError", variants: &["NoRedeemer", "NoWitness", "NoCostModel", "BadTranslation"] };
pub static T_UTXOSFAIL: Ty = Ty { name: "UtxosFailure", variants: &["ValidationTagMismatch", "CollectErrors"] };
pub static T_VALIDITY: Ty = Ty { name: "ValidityInterval", variants: &["-"] };
pub static T_OHASHMAP: Ty = Ty { name: "OHashMap", variants: &["empty", "nonempty"] };
pub static T_UTXO: Ty = Ty { name: "Utxo", variants: &["-"] };
pub static T_UTXOFAIL: Ty = Ty {
    name: "UtxoFailure",
    variants: &[
        "UtxosFailure",
        "BadInputsUTxO",
        "OutsideValidityIntervalUTxO",
        "MaxTxSizeUTxO",
        "InputSetEmptyUTxO",
        "FeeTooSmallUTxO",
        "ValueNotConservedUTxO",
        "WrongNetwork",
        "WrongNetworkWithdrawal",
        "OutputTooSmallUTxO",
        "OutputBootAddrAttrsTooBig",
        "OutputTooBigUTxO",
        "InsufficientCollateral",
        "ScriptsNotPaidUTxO",
        "ExUnitsTooBigUTxO",
        "CollateralContainsNonADA",
        "WrongNetworkInTxBody",
        "OutsideForecast",
        "TooManyCollateralInputs",
        "NoCollateralInputs",
        "IncorrectTotalCollateralField",
        "BabbageOutputTooSmallUTxO",
        "BabbageNonDisjointRefInputs",
    ],
};
pub static T_UTXOWFAIL: Ty = Ty {
    name: "ConwayUtxoWPredFailure",
    variants: &[
        "UtxoFailure",
        "InvalidWitnessesUTXOW",
        "MissingVKeyWitnessesUTXOW",
        "MissingScriptWitnessesUTXOW",
        "ScriptWitnessNotValidatingUTXOW",
        "MissingTxBodyMetadataHash",
        "MissingTxMetadata",
        "ConflictingMetadataHash",
        "InvalidMetadata",
        "ExtraneousScriptWitnessesUTXOW",
        "MissingRedeemers",
        "MissingRequiredDatums",
        "NotAllowedSupplementalDatums",
        "PPViewHashesDontMatch",
        "UnspendableUTxONoDatumHash",
        "ExtraRedeemers",
        "MalformedScriptWitnesses",
        "MalformedReferenceScripts",
    ],
};
pub static T_DELEGFAIL: Ty = Ty {
    name: "ConwayDelegPredFailure",
    variants: &[
        "IncorrectDepositDELEG",
        "StakeKeyRegisteredDELEG",
        "StakeKeyNotRegisteredDELEG",
        "StakeKeyHasNonZeroRewardAccountBalanceDELEG",
        "DelegateeDRepNotRegisteredDELEG",
        "DelegateeStakePoolNotRegisteredDELEG",
    ],
};
pub static T_POOLFAIL: Ty = Ty {
    name: "ShelleyPoolPredFailure",
    variants: &["StakePoolNotRegisteredOnKeyPOOL", "StakePoolRetirementWrongEpochPOOL", "StakePoolCostTooLowPOOL", "WrongNetworkPOOL", "PoolMedataHashTooBig"],
};
pub static T_GOVCERTFAIL: Ty = Ty {
    name: "ConwayGovCertPredFailure",
    variants: &["DRepAlreadyRegistered", "DRepNotRegistered", "DRepIncorrectDeposit", "CommitteeHasPreviouslyResigned", "DRepIncorrectRefund", "CommitteeIsUnknown"],
};
pub static T_CERTFAIL: Ty = Ty { name: "ConwayCertPredFailure", variants: &["DelegFailure", "PoolFailure", "GovCertFailure"] };
pub static T_CERTSFAIL: Ty = Ty { name: "ConwayCertsPredFailure", variants: &["WithdrawalsNotInRewardsCERTS", "CertFailure"] };
pub static T_GOVFAIL: Ty = Ty {
    name: "ConwayGovPredFailure",
    variants: &[
        "GovActionsDoNotExist",
        "MalformedProposal",
        "ProposalProcedureNetworkIdMismatch",
        "TreasuryWithdrawalsNetworkIdMismatch",
        "ProposalDepositIncorrect",
        "DisallowedVoters",
        "ConflictingCommitteeUpdate",
        "ExpirationEpochTooSmall",
        "InvalidPrevGovActionId",
        "VotingOnExpiredGovAction",
        "ProposalCantFollow",
        "InvalidPolicyHash",
        "DisallowedProposalDuringBootstrap",
        "DisallowedVotesDuringBootstrap",
        "VotersDoNotExist",
        "ZeroTreasuryWithdrawals",
        "ProposalReturnAccountDoesNotExist",
        "TreasuryWithdrawalReturnAccountsDoNotExist",
    ],
};
pub static T_LEDGERFAIL: Ty = Ty {
    name: "ConwayLedgerFailure",
    variants: &[
        "UtxowFailure",
        "CertsFailure",
        "GovFailure",
        "WdrlNotDelegatedToDRep",
        "TreasuryValueMismatch",
        "TxRefScriptsSizeTooBig",
        "MempoolFailure",
        "WithdrawalsMissingAccounts",
        "IncompleteWithdrawals",
    ],
};
pub static T_APPLYTXERR: Ty = Ty { name: "ApplyTxError", variants: &["-"] };
pub static T_TXVALERR: Ty = Ty { name: "TxValidationError", variants: &["ByronTxValidationError", "ShelleyTxValidationError", "Plutus"] };

pub fn sb_era(g: &mut G) -> lt::ShelleyBasedEra {
    use lt::ShelleyBasedEra as E;
    match g.pick(&T_SBERA) {
        0 => E::Shelley,
        1 => E::Allegra,
        2 => E::Mary,
        3 => E::Alonzo,
        4 => E::Babbage,
        _ => E::Conway,
    }
}
pub fn network(g: &mut G) -> lt::Network {
    match g.pick(&T_NETWORK) {
        0 => lt::Network::Testnet,
        _ => lt::Network::Mainnet,
    }
}
pub fn dcoin(g: &mut G) -> lt::DisplayCoin {
    lt::DisplayCoin(coin(g))
}
pub fn reward_account(g: &mut G) -> lt::DisplayRewardAccount {
    lt::DisplayRewardAccount(Bytes::from(g.rng.bytes(29)))
}
pub fn key_hash(g: &mut G) -> lt::KeyHash {
    lt::KeyHash(Bytes::from(g.rng.bytes(28)))
}
pub fn safe_hash(g: &mut G) -> lt::SafeHash {
    lt::SafeHash(Bytes::from(g.rng.bytes(32)))
}
pub fn failure_description(g: &mut G) -> lt::FailureDescription {
    g.pick(&T_FAILDESC);
    lt::FailureDescription::PlutusFailure(g.text(40), g.cbytes(60))
}
pub fn tag_mismatch(g: &mut G) -> lt::TagMismatchDescription {
    match g.pick(&T_TAGMISMATCH) {
        0 => lt::TagMismatchDescription::PassedUnexpectedly,
        _ => lt::TagMismatchDescription::FailedUnexpectedly(g.vec(3, failure_description)),
    }
}
pub fn tx_out_source(g: &mut G) -> lt::TxOutSource {
    match g.pick(&T_TXOUTSOURCE) {
        0 => lt::TxOutSource::Input(tx_in(g)),
        _ => lt::TxOutSource::Output(g.u64()),
    }
}
pub fn pp_ix(g: &mut G) -> lt::PlutusPurposeIx {
    use lt::PlutusPurpose as P;
    match g.pick(&T_PPIX) {
        0 => P::Spending(g.u64()),
        1 => P::Minting(g.u64()),
        2 => P::Certifying(g.u64()),
        3 => P::Rewarding(g.u64()),
        4 => P::Voting(g.u64()),
        _ => P::Proposing(g.u64()),
    }
}
pub fn conway_tx_cert(g: &mut G) -> lt::ConwayTxCert {
    // the wrapper variant is determined by the certificate kind (that is how the decoder classifies it)
    match g.pick(&T_CONWAYTXCERT) {
        0 => {
            let k = g.pick_among(&T_CERTIFICATE, Some(&[0usize, 1, 2, 5, 6, 7, 8, 9, 10, 11]));
            lt::ConwayTxCert::Deleg(certificate_variant(g, k))
        }
        1 => {
            let k = g.pick_among(&T_CERTIFICATE, Some(&[3usize, 4]));
            lt::ConwayTxCert::Pool(certificate_variant(g, k))
        }
        _ => {
            let k = g.pick_among(&T_CERTIFICATE, Some(&[12usize, 13, 14, 15, 16]));
            lt::ConwayTxCert::Gov(certificate_variant(g, k))
        }
    }
}
pub fn pp_item(g: &mut G) -> lt::PlutusPurposeItem {
    use lt::PlutusPurpose as P;
    match g.pick(&T_PPITEM) {
        0 => P::Spending(tx_in(g)),
        1 => P::Minting(g.hash28()),
        2 => P::Certifying(conway_tx_cert(g)),
        3 => P::Rewarding(reward_account(g)),
        4 => P::Voting(voter(g)),
        _ => P::Proposing(proposal(g)),
    }
}
pub fn babbage_ctx(g: &mut G) -> lt::BabbageContextError {
    use lt::BabbageContextError as B;
    match g.pick(&T_BABBAGECTX) {
        0 => B::ByronTxOutInContext(tx_out_source(g)),
        1 => B::AlonzoMissingInput(tx_in(g)),
        2 => B::RedeemerPointerPointsToNothing(pp_ix(g)),
        3 => B::InlineDatumsNotSupported(tx_out_source(g)),
        4 => B::ReferenceScriptsNotSupported(tx_out_source(g)),
        5 => B::ReferenceInputsNotSupported(Set::from(g.vec(3, tx_in))),
        _ => B::AlonzoTimeTranslationPastHorizon(g.text(40)),
    }
}
pub fn voting_procedure(g: &mut G) -> lt::VotingProcedure {
    g.pick(&T_VOTINGPROC);
    lt::VotingProcedure { vote: vote(g), anchor: nullable(g, anchor) }
}
pub fn conway_ctx(g: &mut G) -> lt::ConwayContextError {
    use lt::ConwayContextError as C;
    match g.pick(&T_CONWAYCTX) {
        0 => C::BabbageContextError(babbage_ctx(g)),
        1 => C::CertificateNotSupported(conway_tx_cert(g)),
        2 => C::PlutusPurposeNotSupported(pp_item(g)),
        3 => C::CurrentTreasuryFieldNotSupported(dcoin(g)),
        4 => C::VotingProceduresFieldNotSupported(lt::DisplayVotingProcedures(nekvp(g, 2, |g| (voter(g), nekvp(g, 2, |g| (gov_action_id(g), voting_procedure(g))))))),
        5 => C::ProposalProceduresFieldNotSupported(lt::DisplayOSet(Set::from(g.vec(2, proposal)))),
        _ => C::TreasuryDonationFieldNotSupported(dcoin(g)),
    }
}
pub fn collect_error(g: &mut G) -> lt::CollectError {
    match g.pick(&T_COLLECTERR) {
        0 => lt::CollectError::NoRedeemer(pp_item(g)),
        1 => lt::CollectError::NoWitness(lt::DisplayScriptHash(g.hash28())),
        2 => lt::CollectError::NoCostModel(language(g)),
        _ => lt::CollectError::BadTranslation(conway_ctx(g)),
    }
}
pub fn utxos_failure(g: &mut G) -> lt::UtxosFailure {
    match g.pick(&T_UTXOSFAIL) {
        0 => lt::UtxosFailure::ValidationTagMismatch(g.bool(), tag_mismatch(g)),
        _ => lt::UtxosFailure::CollectErrors(lt::Array(g.vec(3, collect_error))),
    }
}
pub fn validity_interval(g: &mut G) -> lt::ValidityInterval {
    g.pick(&T_VALIDITY);
    lt::ValidityInterval { invalid_before: smaybe(g, |g| g.u64()), invalid_hereafter: smaybe(g, |g| g.u64()) }
}
/// OHashMap of any key/value types (one atom type for all instantiations: the codec is generic)
pub fn ohashmap<K, V>(g: &mut G, mut f: impl FnMut(&mut G) -> (K, V)) -> lt::OHashMap<K, V> {
    match g.pick(&T_OHASHMAP) {
        0 => lt::OHashMap(vec![]),
        _ => {
            let n = g.count(1, 3);
            lt::OHashMap((0..n).map(|_| f(g)).collect())
        }
    }
}
pub fn utxo(g: &mut G) -> lt::Utxo {
    g.pick(&T_UTXO);
    lt::Utxo(ohashmap(g, |g| (tx_in(g), tx_out(g))))
}
pub fn utxo_failure(g: &mut G) -> lt::UtxoFailure {
    use lt::UtxoFailure as U;
    match g.pick(&T_UTXOFAIL) {
        0 => U::UtxosFailure(utxos_failure(g)),
        1 => U::BadInputsUTxO(Set::from(g.vec(3, tx_in))),
        2 => U::OutsideValidityIntervalUTxO(validity_interval(g), g.u64()),
        3 => U::MaxTxSizeUTxO(g.i64(), g.i64()),
        4 => U::InputSetEmptyUTxO,
        5 => U::FeeTooSmallUTxO(dcoin(g), dcoin(g)),
        6 => U::ValueNotConservedUTxO(value(g), value(g)),
        7 => U::WrongNetwork(network(g), Set::from(g.vec(3, |g| lt::DisplayAddress(g.cbytes(57))))),
        8 => U::WrongNetworkWithdrawal(network(g), Set::from(g.vec(3, reward_account))),
        9 => U::OutputTooSmallUTxO(lt::Array(g.vec(2, tx_out))),
        10 => U::OutputBootAddrAttrsTooBig(lt::Array(g.vec(2, tx_out))),
        11 => U::OutputTooBigUTxO(lt::Array(g.vec(2, |g| (g.i64(), g.i64(), tx_out(g))))),
        12 => U::InsufficientCollateral(lt::DeltaCoin(g.i64() as i32), dcoin(g)),
        13 => U::ScriptsNotPaidUTxO(utxo(g)),
        14 => U::ExUnitsTooBigUTxO(ex_units(g), ex_units(g)),
        15 => U::CollateralContainsNonADA(value(g)),
        16 => U::WrongNetworkInTxBody(network(g), network(g)),
        17 => U::OutsideForecast(g.u64()),
        18 => U::TooManyCollateralInputs(g.u16(), g.u16()),
        19 => U::NoCollateralInputs,
        20 => U::IncorrectTotalCollateralField(lt::DeltaCoin(g.i64() as i32), dcoin(g)),
        21 => U::BabbageOutputTooSmallUTxO(lt::Array(g.vec(2, |g| (tx_out(g), dcoin(g))))),
        _ => U::BabbageNonDisjointRefInputs(g.vec(3, tx_in)),
    }
}
pub fn utxow_failure(g: &mut G) -> lt::ConwayUtxoWPredFailure {
    use lt::ConwayUtxoWPredFailure as W;
    match g.pick(&T_UTXOWFAIL) {
        0 => W::UtxoFailure(utxo_failure(g)),
        1 => W::InvalidWitnessesUTXOW(lt::Array(g.vec(3, |g| lt::VKey(Bytes::from(g.rng.bytes(32)))))),
        2 => W::MissingVKeyWitnessesUTXOW(Set::from(g.vec(3, key_hash))),
        3 => W::MissingScriptWitnessesUTXOW(Set::from(g.vec(3, |g| g.hash28()))),
        4 => W::ScriptWitnessNotValidatingUTXOW(Set::from(g.vec(3, |g| g.hash28()))),
        5 => W::MissingTxBodyMetadataHash(Bytes::from(g.rng.bytes(32))),
        6 => W::MissingTxMetadata(Bytes::from(g.rng.bytes(32))),
        7 => W::ConflictingMetadataHash(Bytes::from(g.rng.bytes(32)), Bytes::from(g.rng.bytes(32))),
        8 => W::InvalidMetadata(),
        9 => W::ExtraneousScriptWitnessesUTXOW(Set::from(g.vec(3, |g| g.hash28()))),
        10 => W::MissingRedeemers(lt::Array(g.vec(2, |g| (pp_item(g), g.hash28())))),
        11 => W::MissingRequiredDatums(Set::from(g.vec(3, safe_hash)), Set::from(g.vec(3, safe_hash))),
        12 => W::NotAllowedSupplementalDatums(Set::from(g.vec(3, safe_hash)), Set::from(g.vec(3, safe_hash))),
        13 => W::PPViewHashesDontMatch(smaybe(g, safe_hash), smaybe(g, safe_hash)),
        14 => W::UnspendableUTxONoDatumHash(Set::from(g.vec(3, tx_in))),
        15 => W::ExtraRedeemers(lt::Array(g.vec(3, pp_ix))),
        16 => W::MalformedScriptWitnesses(Set::from(g.vec(3, |g| g.hash28()))),
        _ => W::MalformedReferenceScripts(Set::from(g.vec(3, |g| g.hash28()))),
    }
}
pub fn deleg_failure(g: &mut G) -> lt::ConwayDelegPredFailure {
    use lt::ConwayDelegPredFailure as D;
    match g.pick(&T_DELEGFAIL) {
        0 => D::IncorrectDepositDELEG(dcoin(g)),
        1 => D::StakeKeyRegisteredDELEG(credential(g)),
        2 => D::StakeKeyNotRegisteredDELEG(credential(g)),
        3 => D::StakeKeyHasNonZeroRewardAccountBalanceDELEG(dcoin(g)),
        4 => D::DelegateeDRepNotRegisteredDELEG(credential(g)),
        _ => D::DelegateeStakePoolNotRegisteredDELEG(key_hash(g)),
    }
}
pub fn pool_failure(g: &mut G) -> lt::ShelleyPoolPredFailure {
    use lt::ShelleyPoolPredFailure as P;
    match g.pick(&T_POOLFAIL) {
        0 => P::StakePoolNotRegisteredOnKeyPOOL(key_hash(g)),
        1 => {
            // the wire form carries the supplied epoch once: [1, gt_expected, supplied, lt_expected]
            let supplied = g.u64();
            P::StakePoolRetirementWrongEpochPOOL(lt::Mismatch(lt::EpochNo(supplied), lt::EpochNo(g.u64())), lt::Mismatch(lt::EpochNo(supplied), lt::EpochNo(g.u64())))
        }
        2 => P::StakePoolCostTooLowPOOL(lt::Mismatch(dcoin(g), dcoin(g))),
        3 => P::WrongNetworkPOOL(lt::Mismatch(network(g), network(g)), key_hash(g)),
        _ => P::PoolMedataHashTooBig(key_hash(g), g.i64()),
    }
}
pub fn govcert_failure(g: &mut G) -> lt::ConwayGovCertPredFailure {
    use lt::ConwayGovCertPredFailure as C;
    match g.pick(&T_GOVCERTFAIL) {
        0 => C::DRepAlreadyRegistered(credential(g)),
        1 => C::DRepNotRegistered(credential(g)),
        2 => C::DRepIncorrectDeposit(dcoin(g), dcoin(g)),
        3 => C::CommitteeHasPreviouslyResigned(credential(g)),
        4 => C::DRepIncorrectRefund(dcoin(g), dcoin(g)),
        _ => C::CommitteeIsUnknown(credential(g)),
    }
}
pub fn cert_failure(g: &mut G) -> lt::ConwayCertPredFailure {
    match g.pick(&T_CERTFAIL) {
        0 => lt::ConwayCertPredFailure::DelegFailure(deleg_failure(g)),
        1 => lt::ConwayCertPredFailure::PoolFailure(pool_failure(g)),
        _ => lt::ConwayCertPredFailure::GovCertFailure(govcert_failure(g)),
    }
}
pub fn certs_failure(g: &mut G) -> lt::ConwayCertsPredFailure {
    match g.pick(&T_CERTSFAIL) {
        0 => lt::ConwayCertsPredFailure::WithdrawalsNotInRewardsCERTS(ohashmap(g, |g| (reward_account(g), dcoin(g)))),
        _ => lt::ConwayCertsPredFailure::CertFailure(cert_failure(g)),
    }
}
pub fn gov_failure(g: &mut G) -> lt::ConwayGovPredFailure {
    use lt::ConwayGovPredFailure as F;
    match g.pick(&T_GOVFAIL) {
        0 => F::GovActionsDoNotExist(g.vec(3, gov_action_id)),
        1 => F::MalformedProposal(gov_action(g)),
        2 => F::ProposalProcedureNetworkIdMismatch(reward_account(g), network(g)),
        3 => F::TreasuryWithdrawalsNetworkIdMismatch(Set::from(g.vec(3, reward_account)), network(g)),
        4 => F::ProposalDepositIncorrect(dcoin(g), dcoin(g)),
        5 => F::DisallowedVoters(g.vec(3, |g| (voter(g), gov_action_id(g)))),
        6 => F::ConflictingCommitteeUpdate(Set::from(g.vec(3, credential))),
        7 => F::ExpirationEpochTooSmall(ohashmap(g, |g| (stake_cred(g), lt::EpochNo(g.u64())))),
        8 => F::InvalidPrevGovActionId(proposal(g)),
        9 => F::VotingOnExpiredGovAction(g.vec(3, |g| (voter(g), gov_action_id(g)))),
        10 => F::ProposalCantFollow(smaybe(g, gov_action_id), (g.u64(), g.u64()), (g.u64(), g.u64())),
        11 => F::InvalidPolicyHash(smaybe(g, |g| lt::DisplayScriptHash(g.hash28())), smaybe(g, |g| lt::DisplayScriptHash(g.hash28()))),
        12 => F::DisallowedProposalDuringBootstrap(proposal(g)),
        13 => F::DisallowedVotesDuringBootstrap(g.vec(3, |g| (voter(g), gov_action_id(g)))),
        14 => F::VotersDoNotExist(g.vec(3, voter)),
        15 => F::ZeroTreasuryWithdrawals(gov_action(g)),
        16 => F::ProposalReturnAccountDoesNotExist(reward_account(g)),
        _ => F::TreasuryWithdrawalReturnAccountsDoNotExist(g.vec(3, reward_account)),
    }
}
pub fn ledger_failure(g: &mut G) -> lt::ConwayLedgerFailure {
    use lt::ConwayLedgerFailure as L;
    match g.pick(&T_LEDGERFAIL) {
        0 => L::UtxowFailure(utxow_failure(g)),
        1 => L::CertsFailure(certs_failure(g)),
        2 => L::GovFailure(gov_failure(g)),
        3 => L::WdrlNotDelegatedToDRep(g.vec(3, key_hash)),
        4 => L::TreasuryValueMismatch(dcoin(g), dcoin(g)),
        5 => L::TxRefScriptsSizeTooBig(g.i64(), g.i64()),
        6 => L::MempoolFailure(g.text(60)),
        7 => L::WithdrawalsMissingAccounts(ohashmap(g, |g| (reward_account(g), dcoin(g)))),
        _ => L::IncompleteWithdrawals(ohashmap(g, |g| (reward_account(g), (dcoin(g), dcoin(g))))),
    }
}
pub fn apply_tx_error(g: &mut G) -> lt::ApplyTxError {
    g.pick(&T_APPLYTXERR);
    lt::ApplyTxError(g.vec(3, ledger_failure))
}
pub fn tx_validation_error(g: &mut G) -> lt::TxValidationError {
    match g.pick(&T_TXVALERR) {
        0 => lt::TxValidationError::ByronTxValidationError { error: apply_tx_error(g) },
        1 => lt::TxValidationError::ShelleyTxValidationError { error: apply_tx_error(g), era: sb_era(g) },
        _ => lt::TxValidationError::Plutus(g.text(60)),
    }
}

pub fn registry(v: &mut Vec<TypeEntry>) {
    let grp = "localtxsubmission";
    reg!(v, "v1", grp, &T_SBERA, false, sb_era);
    reg!(v, "v1", grp, &T_NETWORK, false, network);
    reg!(v, "v1", grp, &T_FAILDESC, false, failure_description);
    reg!(v, "v1", grp, &T_TAGMISMATCH, false, tag_mismatch);
    reg!(v, "v1", grp, &T_TXOUTSOURCE, false, tx_out_source);
    reg!(v, "v1", grp, &T_PPIX, false, pp_ix);
    reg!(v, "v1", grp, &T_CONWAYTXCERT, false, conway_tx_cert);
    reg!(v, "v1", grp, &T_PPITEM, false, pp_item);
    reg!(v, "v1", grp, &T_BABBAGECTX, false, babbage_ctx);
    reg!(v, "v1", grp, &T_VOTINGPROC, false, voting_procedure);
    reg!(v, "v1", grp, &T_CONWAYCTX, false, conway_ctx);
    reg!(v, "v1", grp, &T_COLLECTERR, false, collect_error);
    reg!(v, "v1", grp, &T_UTXOSFAIL, false, utxos_failure);
    reg!(v, "v1", grp, &T_VALIDITY, false, validity_interval);
    reg!(v, "v1", grp, &T_OHASHMAP, false, |g: &mut G| ohashmap(g, |g| (reward_account(g), dcoin(g))));
    reg!(v, "v1", grp, &T_UTXO, false, utxo);
    reg!(v, "v1", grp, &T_UTXOFAIL, false, utxo_failure);
    reg!(v, "v1", grp, &T_UTXOWFAIL, false, utxow_failure);
    reg!(v, "v1", grp, &T_DELEGFAIL, false, deleg_failure);
    reg!(v, "v1", grp, &T_POOLFAIL, false, pool_failure);
    reg!(v, "v1", grp, &T_GOVCERTFAIL, false, govcert_failure);
    reg!(v, "v1", grp, &T_CERTFAIL, false, cert_failure);
    reg!(v, "v1", grp, &T_CERTSFAIL, false, certs_failure);
    reg!(v, "v1", grp, &T_GOVFAIL, false, gov_failure);
    reg!(v, "v1", grp, &T_LEDGERFAIL, false, ledger_failure);
    reg!(v, "v1", grp, &T_APPLYTXERR, false, apply_tx_error);
    reg!(v, "v1", grp, &T_TXVALERR, false, tx_validation_error);
}
