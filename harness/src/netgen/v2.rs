// ---------------------------------------------------------------------------------------
// pallas-network2 (included into netgen.rs)
// ---------------------------------------------------------------------------------------

pub static T2_POINT: Ty = Ty { name: "v2:Point", variants: &["Origin", "Specific"] };
pub static T2_TIP: Ty = Ty { name: "v2:Tip", variants: &["-"] };
pub static T2_HEADER: Ty = Ty { name: "v2:HeaderContent", variants: &["Byron", "ShelleyOnwards"] };
pub static T2_CHAINSYNC: Ty = Ty {
    name: "v2:chainsync",
    variants: &["RequestNext", "AwaitReply", "RollForward", "RollBackward", "FindIntersect", "IntersectFound", "IntersectNotFound", "Done"],
};
pub static T2_BLOCKFETCH: Ty =
    Ty { name: "v2:blockfetch", variants: &["RequestRange", "ClientDone", "StartBatch", "NoBlocks", "Block", "BatchDone"] };
pub static T2_ERATXID: Ty = Ty { name: "v2:EraTxId", variants: &["-"] };
pub static T2_ERATXBODY: Ty = Ty { name: "v2:EraTxBody", variants: &["-"] };
pub static T2_TXIDSIZE: Ty = Ty { name: "v2:TxIdAndSize", variants: &["-"] };
pub static T2_TXSUB: Ty =
    Ty { name: "v2:txsubmission", variants: &["Init", "RequestTxIds", "ReplyTxIds", "RequestTxs", "ReplyTxs", "Done"] };
pub static T2_KEEPALIVE: Ty = Ty { name: "v2:keepalive", variants: &["KeepAlive", "ResponseKeepAlive", "Done"] };
pub static T2_PEERADDR: Ty = Ty { name: "v2:PeerAddress", variants: &["V4", "V6"] };
pub static T2_PEERSHARING: Ty = Ty { name: "v2:peersharing", variants: &["ShareRequest", "SharePeers", "Done"] };
pub static T2_VD_N2N: Ty = Ty { name: "v2:n2n::VersionData", variants: &["Short", "WithPeerSharingAndQuery"] };
pub static T2_VD_N2C: Ty = Ty { name: "v2:n2c::VersionData", variants: &["MagicOnly", "WithQuery"] };
pub static T2_REFUSE: Ty = Ty { name: "v2:RefuseReason", variants: &["VersionMismatch", "HandshakeDecodeError", "Refused"] };
pub static T2_VT_N2N: Ty = Ty { name: "v2:VersionTable<n2n>", variants: &["-"] };
pub static T2_VT_N2C: Ty = Ty { name: "v2:VersionTable<n2c>", variants: &["-"] };
pub static T2_HS_N2N: Ty = Ty { name: "v2:handshake<n2n>", variants: &["Propose", "Accept", "Refuse", "QueryReply"] };
pub static T2_HS_N2C: Ty = Ty { name: "v2:handshake<n2c>", variants: &["Propose", "Accept", "Refuse", "QueryReply"] };
pub static T2_LNOTIFY: Ty =
    Ty { name: "v2:leiosnotify", variants: &["RequestNext", "BlockAnnouncement", "BlockOffer", "BlockTxsOffer", "Votes", "Done"] };
pub static T2_BITMAPS: Ty = Ty { name: "v2:Bitmaps", variants: &["-"] };
pub static T2_LFETCH: Ty = Ty { name: "v2:leiosfetch", variants: &["BlockRequest", "Block", "BlockTxsRequest", "BlockTxs", "Done"] };

pub fn n2_point(g: &mut G) -> n2::Point {
    match g.pick(&T2_POINT) {
        0 => n2::Point::Origin,
        _ => {
            let h = if g.rng.chance(4, 5) { g.rng.bytes(32) } else { g.bytes(70) };
            n2::Point::Specific(g.u64(), h)
        }
    }
}
pub fn n2_tip(g: &mut G) -> n2::chainsync::Tip {
    g.pick(&T2_TIP);
    n2::chainsync::Tip(n2_point(g), g.u64())
}
pub fn n2_header(g: &mut G) -> n2::chainsync::HeaderContent {
    match g.pick(&T2_HEADER) {
        0 => n2::chainsync::HeaderContent { variant: 0, byron_prefix: Some((g.u8(), g.u64())), cbor: g.payload() },
        _ => {
            let hi = if g.rng.chance(1, 10) { 255 } else { 7 };
            n2::chainsync::HeaderContent { variant: 1 + g.rng.below(hi) as u8, byron_prefix: None, cbor: g.payload() }
        }
    }
}
pub fn n2_chainsync(g: &mut G) -> n2::chainsync::Message<n2::chainsync::HeaderContent> {
    use n2::chainsync::Message as M;
    match g.pick(&T2_CHAINSYNC) {
        0 => M::RequestNext,
        1 => M::AwaitReply,
        2 => M::RollForward(n2_header(g), n2_tip(g)),
        3 => M::RollBackward(n2_point(g), n2_tip(g)),
        4 => M::FindIntersect(g.vec(30, n2_point)),
        5 => M::IntersectFound(n2_point(g), n2_tip(g)),
        6 => M::IntersectNotFound(n2_tip(g)),
        _ => M::Done,
    }
}
pub fn n2_blockfetch(g: &mut G) -> n2::blockfetch::Message {
    use n2::blockfetch::Message as M;
    match g.pick(&T2_BLOCKFETCH) {
        0 => M::RequestRange((n2_point(g), n2_point(g))),
        1 => M::ClientDone,
        2 => M::StartBatch,
        3 => M::NoBlocks,
        4 => M::Block(g.payload()),
        _ => M::BatchDone,
    }
}
pub fn n2_eratxid(g: &mut G) -> n2::txsubmission::EraTxId {
    g.pick(&T2_ERATXID);
    let h = if g.rng.chance(4, 5) { g.rng.bytes(32) } else { g.bytes(70) };
    n2::txsubmission::EraTxId(g.u16(), h)
}
pub fn n2_eratxbody(g: &mut G) -> n2::txsubmission::EraTxBody {
    g.pick(&T2_ERATXBODY);
    n2::txsubmission::EraTxBody(g.u16(), g.payload())
}
pub fn n2_txidsize(g: &mut G) -> n2::txsubmission::TxIdAndSize<n2::txsubmission::EraTxId> {
    g.pick(&T2_TXIDSIZE);
    n2::txsubmission::TxIdAndSize(n2_eratxid(g), g.u32())
}
pub fn n2_txsubmission(g: &mut G) -> n2::txsubmission::Message {
    use n2::txsubmission::Message as M;
    match g.pick(&T2_TXSUB) {
        0 => M::Init,
        1 => M::RequestTxIds(g.bool(), g.u16(), g.u16()),
        2 => M::ReplyTxIds(g.vec(12, n2_txidsize)),
        3 => M::RequestTxs(g.vec(12, n2_eratxid)),
        4 => M::ReplyTxs(g.vec(6, n2_eratxbody)),
        _ => M::Done,
    }
}
pub fn n2_keepalive(g: &mut G) -> n2::keepalive::Message {
    use n2::keepalive::Message as M;
    match g.pick(&T2_KEEPALIVE) {
        0 => M::KeepAlive(g.u16()),
        1 => M::ResponseKeepAlive(g.u16()),
        _ => M::Done,
    }
}
fn gen_ipv4(g: &mut G) -> std::net::Ipv4Addr {
    std::net::Ipv4Addr::from(g.u32())
}
fn gen_ipv6(g: &mut G) -> std::net::Ipv6Addr {
    match g.rng.below(4) {
        0 => std::net::Ipv6Addr::LOCALHOST,
        1 => std::net::Ipv6Addr::UNSPECIFIED,
        _ => {
            let w: Vec<u32> = (0..4).map(|_| g.u32()).collect();
            std::net::Ipv6Addr::from_bits(((w[0] as u128) << 96) | ((w[1] as u128) << 64) | ((w[2] as u128) << 32) | w[3] as u128)
        }
    }
}
pub fn n2_peeraddr(g: &mut G) -> n2::peersharing::PeerAddress {
    match g.pick(&T2_PEERADDR) {
        0 => n2::peersharing::PeerAddress::V4(gen_ipv4(g), g.u16()),
        _ => n2::peersharing::PeerAddress::V6(gen_ipv6(g), g.u16()),
    }
}
pub fn n2_peersharing(g: &mut G) -> n2::peersharing::Message {
    use n2::peersharing::Message as M;
    match g.pick(&T2_PEERSHARING) {
        0 => M::ShareRequest(g.u8()),
        1 => M::SharePeers(g.vec(10, n2_peeraddr)),
        _ => M::Done,
    }
}
pub fn n2_vd_n2n(g: &mut G) -> n2::handshake::n2n::VersionData {
    match g.pick(&T2_VD_N2N) {
        0 => n2::handshake::n2n::VersionData::new(g.u64(), g.bool(), None, None),
        _ => n2::handshake::n2n::VersionData::new(g.u64(), g.bool(), Some(g.u8()), Some(g.bool())),
    }
}
pub fn n2_vd_n2c(g: &mut G) -> n2::handshake::n2c::VersionData {
    match g.pick(&T2_VD_N2C) {
        0 => n2::handshake::n2c::VersionData::new(g.u64(), None),
        _ => n2::handshake::n2c::VersionData::new(g.u64(), Some(g.bool())),
    }
}
fn version_number(g: &mut G) -> u64 {
    match g.rng.below(4) {
        0 => g.u64(),
        1 => 32768 + g.rng.below(30),
        _ => g.rng.below(20),
    }
}
pub fn n2_refuse(g: &mut G) -> n2::handshake::RefuseReason {
    use n2::handshake::RefuseReason as R;
    match g.pick(&T2_REFUSE) {
        0 => R::VersionMismatch(g.vec(16, version_number)),
        1 => R::HandshakeDecodeError(version_number(g), g.text(30)),
        _ => R::Refused(version_number(g), g.text(30)),
    }
}
fn version_table<D: Clone + Debug>(g: &mut G, f: fn(&mut G) -> D) -> HashMap<u64, D> {
    let n = g.count(0, 16);
    let mut m = HashMap::new();
    for _ in 0..n {
        m.insert(version_number(g), f(g));
    }
    m
}
pub fn n2_vt_n2n(g: &mut G) -> n2::handshake::VersionTable<n2::handshake::n2n::VersionData> {
    g.pick(&T2_VT_N2N);
    n2::handshake::VersionTable { values: version_table(g, n2_vd_n2n) }
}
pub fn n2_vt_n2c(g: &mut G) -> n2::handshake::VersionTable<n2::handshake::n2c::VersionData> {
    g.pick(&T2_VT_N2C);
    n2::handshake::VersionTable { values: version_table(g, n2_vd_n2c) }
}
pub fn n2_handshake_n2n(g: &mut G) -> n2::handshake::Message<n2::handshake::n2n::VersionData> {
    use n2::handshake::Message as M;
    match g.pick(&T2_HS_N2N) {
        0 => M::Propose(n2_vt_n2n(g)),
        1 => M::Accept(version_number(g), n2_vd_n2n(g)),
        2 => M::Refuse(n2_refuse(g)),
        _ => M::QueryReply(n2_vt_n2n(g)),
    }
}
pub fn n2_handshake_n2c(g: &mut G) -> n2::handshake::Message<n2::handshake::n2c::VersionData> {
    use n2::handshake::Message as M;
    match g.pick(&T2_HS_N2C) {
        0 => M::Propose(n2_vt_n2c(g)),
        1 => M::Accept(version_number(g), n2_vd_n2c(g)),
        2 => M::Refuse(n2_refuse(g)),
        _ => M::QueryReply(n2_vt_n2c(g)),
    }
}
pub fn n2_leiosnotify(g: &mut G) -> n2::leiosnotify::Message {
    use n2::leiosnotify::Message as M;
    match g.pick(&T2_LNOTIFY) {
        0 => M::RequestNext,
        1 => M::BlockAnnouncement(g.any_cbor()),
        2 => M::BlockOffer(n2_point(g), g.u32()),
        3 => M::BlockTxsOffer(n2_point(g)),
        4 => M::Votes(g.vec(8, |g| g.any_cbor())),
        _ => M::Done,
    }
}
pub fn n2_bitmaps(g: &mut G) -> n2::leiosfetch::Bitmaps {
    g.pick(&T2_BITMAPS);
    match g.rng.below(4) {
        0 => n2::leiosfetch::Bitmaps::all(g.rng.usize_below(300)),
        _ => {
            let n = g.count(0, 10);
            let mut m = std::collections::BTreeMap::new();
            for _ in 0..n {
                m.insert(g.u16(), g.u64());
            }
            n2::leiosfetch::Bitmaps(m)
        }
    }
}
pub fn n2_leiosfetch(g: &mut G) -> n2::leiosfetch::Message {
    use n2::leiosfetch::Message as M;
    match g.pick(&T2_LFETCH) {
        0 => M::BlockRequest(n2_point(g)),
        1 => M::Block(g.any_cbor()),
        2 => M::BlockTxsRequest(n2_point(g), n2_bitmaps(g)),
        3 => M::BlockTxs { point: n2_point(g), bitmaps: n2_bitmaps(g), txs: g.vec(8, |g| g.any_cbor()) },
        _ => M::Done,
    }
}

#[derive(Clone, Copy, Debug, PartialEq, Eq)]
pub enum N2Proto {
    Handshake,
    KeepAlive,
    ChainSync,
    PeerSharing,
    BlockFetch,
    TxSubmission,
    LeiosNotify,
    LeiosFetch,
}
pub const N2_PROTOS: [N2Proto; 8] = [
    N2Proto::Handshake,
    N2Proto::KeepAlive,
    N2Proto::ChainSync,
    N2Proto::PeerSharing,
    N2Proto::BlockFetch,
    N2Proto::TxSubmission,
    N2Proto::LeiosNotify,
    N2Proto::LeiosFetch,
];
impl N2Proto {
    pub fn name(self) -> &'static str {
        match self {
            N2Proto::Handshake => "handshake",
            N2Proto::KeepAlive => "keepalive",
            N2Proto::ChainSync => "chainsync",
            N2Proto::PeerSharing => "peersharing",
            N2Proto::BlockFetch => "blockfetch",
            N2Proto::TxSubmission => "txsubmission",
            N2Proto::LeiosNotify => "leiosnotify",
            N2Proto::LeiosFetch => "leiosfetch",
        }
    }
    pub fn channel(self) -> u16 {
        match self {
            N2Proto::Handshake => n2::handshake::CHANNEL_ID,
            N2Proto::KeepAlive => n2::keepalive::CHANNEL_ID,
            N2Proto::ChainSync => n2::chainsync::CHANNEL_ID,
            N2Proto::PeerSharing => n2::peersharing::CHANNEL_ID,
            N2Proto::BlockFetch => n2::blockfetch::CHANNEL_ID,
            N2Proto::TxSubmission => n2::txsubmission::CHANNEL_ID,
            N2Proto::LeiosNotify => n2::leiosnotify::CHANNEL_ID,
            N2Proto::LeiosFetch => n2::leiosfetch::CHANNEL_ID,
        }
    }
}

/// One message of the given protocol wrapped into the stack's `AnyMessage`, plus its variant label
/// (the atom of the top-level variant, e.g. "v2:chainsync::RollForward").
pub fn gen_n2_message(g: &mut G, p: N2Proto) -> (AnyMessage, String) {
    let tl = g.trace.len();
    let m = match p {
        N2Proto::Handshake => AnyMessage::Handshake(n2_handshake_n2n(g)),
        N2Proto::KeepAlive => AnyMessage::KeepAlive(n2_keepalive(g)),
        N2Proto::ChainSync => AnyMessage::ChainSync(n2_chainsync(g)),
        N2Proto::PeerSharing => AnyMessage::PeerSharing(n2_peersharing(g)),
        N2Proto::BlockFetch => AnyMessage::BlockFetch(n2_blockfetch(g)),
        N2Proto::TxSubmission => AnyMessage::TxSubmission(n2_txsubmission(g)),
        N2Proto::LeiosNotify => AnyMessage::LeiosNotify(n2_leiosnotify(g)),
        N2Proto::LeiosFetch => AnyMessage::LeiosFetch(n2_leiosfetch(g)),
    };
    let label = g.trace.get(tl).cloned().unwrap_or_default();
    (m, label)
}

/// Any message of any protocol of the P2P stack (fresh context, nothing avoided).
pub fn gen_n2_any_message(rng: &mut Rng) -> (AnyMessage, String) {
    let p = *rng.pick(&N2_PROTOS);
    let mut g = G::new(rng);
    gen_n2_message(&mut g, p)
}

/// encoding of the inner protocol message (what goes on the wire, what `AnyMessage::payload` returns)
pub fn encode_n2(m: &AnyMessage) -> Vec<u8> {
    use pallas_network2::Message;
    m.payload()
}
pub fn n2_channel(m: &AnyMessage) -> u16 {
    use pallas_network2::Message;
    m.channel()
}
pub fn n2_proto_of(m: &AnyMessage) -> N2Proto {
    match m {
        AnyMessage::Handshake(_) => N2Proto::Handshake,
        AnyMessage::KeepAlive(_) => N2Proto::KeepAlive,
        AnyMessage::ChainSync(_) => N2Proto::ChainSync,
        AnyMessage::PeerSharing(_) => N2Proto::PeerSharing,
        AnyMessage::BlockFetch(_) => N2Proto::BlockFetch,
        AnyMessage::TxSubmission(_) => N2Proto::TxSubmission,
        AnyMessage::LeiosNotify(_) => N2Proto::LeiosNotify,
        AnyMessage::LeiosFetch(_) => N2Proto::LeiosFetch,
    }
}

fn same_vt<D: PartialEq + Debug + Clone>(a: &HashMap<u64, D>, b: &HashMap<u64, D>) -> Result<(), String> {
    if a == b {
        Ok(())
    } else {
        Err(format!("version tables differ: sent {} entries, got {}", a.len(), b.len()))
    }
}
fn same_hs2<D: PartialEq + Debug + Clone + Encode<()>>(a: &n2::handshake::Message<D>, b: &n2::handshake::Message<D>) -> Result<(), String> {
    use n2::handshake::Message as M;
    match (a, b) {
        (M::Propose(x), M::Propose(y)) | (M::QueryReply(x), M::QueryReply(y)) => same_vt(&x.values, &y.values),
        (M::Accept(v, d), M::Accept(w, e)) if v == w && d == e => Ok(()),
        (M::Refuse(x), M::Refuse(y)) if x == y => Ok(()),
        _ => Err(format!("handshake message differs: sent {} got {}", clip(&format!("{a:?}")), clip(&format!("{b:?}")))),
    }?;
    same_by_reencoding(a, b)
}

fn registry_v2(v: &mut Vec<TypeEntry>) {
    reg!(v, "v2", "common", &T2_POINT, false, n2_point);
    reg!(v, "v2", "chainsync", &T2_TIP, false, n2_tip);
    reg!(v, "v2", "chainsync", &T2_HEADER, false, n2_header);
    reg!(v, "v2", "txsubmission", &T2_ERATXID, false, n2_eratxid);
    reg!(v, "v2", "txsubmission", &T2_ERATXBODY, false, n2_eratxbody);
    reg!(v, "v2", "txsubmission", &T2_TXIDSIZE, false, n2_txidsize);
    reg!(v, "v2", "peersharing", &T2_PEERADDR, false, n2_peeraddr);
    reg!(v, "v2", "handshake", &T2_VD_N2N, false, n2_vd_n2n);
    reg!(v, "v2", "handshake", &T2_VD_N2C, false, n2_vd_n2c);
    reg!(v, "v2", "handshake", &T2_REFUSE, false, n2_refuse);
    reg!(v, "v2", "handshake", &T2_VT_N2N, false, n2_vt_n2n, |a, b| same_vt(&a.values, &b.values));
    reg!(v, "v2", "handshake", &T2_VT_N2C, false, n2_vt_n2c, |a, b| same_vt(&a.values, &b.values));
    reg!(v, "v2", "leiosfetch", &T2_BITMAPS, false, n2_bitmaps);
    reg!(v, "v2", "handshake", &T2_HS_N2N, true, n2_handshake_n2n, same_hs2);
    reg!(v, "v2", "handshake", &T2_HS_N2C, true, n2_handshake_n2c, same_hs2);
    reg!(v, "v2", "chainsync", &T2_CHAINSYNC, true, n2_chainsync);
    reg!(v, "v2", "blockfetch", &T2_BLOCKFETCH, true, n2_blockfetch);
    reg!(v, "v2", "txsubmission", &T2_TXSUB, true, n2_txsubmission);
    reg!(v, "v2", "keepalive", &T2_KEEPALIVE, true, n2_keepalive);
    reg!(v, "v2", "peersharing", &T2_PEERSHARING, true, n2_peersharing);
    reg!(v, "v2", "leiosnotify", &T2_LNOTIFY, true, n2_leiosnotify);
    reg!(v, "v2", "leiosfetch", &T2_LFETCH, true, n2_leiosfetch);
}
