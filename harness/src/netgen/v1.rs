// ---------------------------------------------------------------------------------------
// pallas-network (included into netgen.rs)
// ---------------------------------------------------------------------------------------

use n1::localmsgsubmission::{DmqMsg, DmqMsgOperationalCertificate, DmqMsgPayload, DmqMsgRejectReason, DmqMsgValidationError};
use n1::localtxsubmission::{EraTx, TxValidationError};

pub static T_POINT: Ty = Ty { name: "Point", variants: &["Origin", "Specific"] };
pub static T_TIP: Ty = Ty { name: "Tip", variants: &["-"] };
pub static T_HEADER: Ty = Ty { name: "HeaderContent", variants: &["Byron", "ShelleyOnwards"] };
pub static T_BLOCKCONTENT: Ty = Ty { name: "BlockContent", variants: &["-"] };
const CS_VARIANTS: &[&str] = &["RequestNext", "AwaitReply", "RollForward", "RollBackward", "FindIntersect", "IntersectFound", "IntersectNotFound", "Done"];
pub static T_CHAINSYNC_N2N: Ty = Ty { name: "chainsync<HeaderContent>", variants: CS_VARIANTS };
pub static T_CHAINSYNC_N2C: Ty = Ty { name: "chainsync<BlockContent>", variants: CS_VARIANTS };
pub static T_BLOCKFETCH: Ty = Ty { name: "blockfetch", variants: &["RequestRange", "ClientDone", "StartBatch", "NoBlocks", "Block", "BatchDone"] };
pub static T_ERATXID: Ty = Ty { name: "EraTxId", variants: &["-"] };
pub static T_ERATXBODY: Ty = Ty { name: "EraTxBody", variants: &["-"] };
pub static T_TXIDSIZE: Ty = Ty { name: "TxIdAndSize", variants: &["-"] };
pub static T_TXSUB: Ty = Ty { name: "txsubmission", variants: &["Init", "RequestTxIds", "ReplyTxIds", "RequestTxs", "ReplyTxs", "Done"] };
pub static T_KEEPALIVE: Ty = Ty { name: "keepalive", variants: &["KeepAlive", "ResponseKeepAlive", "Done"] };
pub static T_PEERADDR: Ty = Ty { name: "PeerAddress", variants: &["V4", "V6"] };
pub static T_PEERSHARING: Ty = Ty { name: "peersharing", variants: &["ShareRequest", "SharePeers", "Done"] };
pub static T_VD_N2N: Ty = Ty { name: "n2n::VersionData", variants: &["Short", "WithPeerSharingAndQuery"] };
pub static T_VD_N2C: Ty = Ty { name: "n2c::VersionData", variants: &["MagicOnly", "WithQuery"] };
pub static T_REFUSE: Ty = Ty { name: "RefuseReason", variants: &["VersionMismatch", "HandshakeDecodeError", "Refused"] };
pub static T_VT_N2N: Ty = Ty { name: "VersionTable<n2n>", variants: &["-"] };
pub static T_VT_N2C: Ty = Ty { name: "VersionTable<n2c>", variants: &["-"] };
pub static T_HS_N2N: Ty = Ty { name: "handshake<n2n>", variants: &["Propose", "Accept", "Refuse", "QueryReply"] };
pub static T_HS_N2C: Ty = Ty { name: "handshake<n2c>", variants: &["Propose", "Accept", "Refuse", "QueryReply"] };
pub static T_TXMONITOR: Ty = Ty {
    name: "txmonitor",
    variants: &[
        "Acquire",
        "AwaitAcquire",
        "Acquired",
        "RequestHasTx",
        "RequestNextTx",
        "RequestSizeAndCapacity",
        "ResponseHasTx",
        "ResponseNextTx(None)",
        "ResponseNextTx(Some)",
        "ResponseSizeAndCapacity",
        "Release",
        "Done",
    ],
};
pub static T_ACQFAIL: Ty = Ty { name: "AcquireFailure", variants: &["PointTooOld", "PointNotOnChain"] };
pub static T_LOCALSTATE: Ty = Ty {
    name: "localstate",
    variants: &[
        "Acquire(Some)",
        "Acquire(None)",
        "Failure",
        "Acquired",
        "Query(generic)",
        "Query(typed Request)",
        "Result(generic)",
        "Result(typed)",
        "ReAcquire(Some)",
        "ReAcquire(None)",
        "Release",
        "Done",
    ],
};
pub static T_ERATX: Ty = Ty { name: "EraTx", variants: &["-"] };
pub static T_LOCALTX: Ty = Ty { name: "localtxsubmission", variants: &["SubmitTx", "AcceptTx", "RejectTx", "Done"] };
pub static T_DMQPAYLOAD: Ty = Ty { name: "DmqMsgPayload", variants: &["-"] };
pub static T_DMQOPCERT: Ty = Ty { name: "DmqMsgOperationalCertificate", variants: &["-"] };
pub static T_DMQMSG: Ty = Ty { name: "DmqMsg", variants: &["-"] };
pub static T_DMQREJECT: Ty = Ty { name: "DmqMsgRejectReason", variants: &["Invalid", "AlreadyReceived", "Expired", "Other"] };
pub static T_DMQVALERR: Ty = Ty { name: "DmqMsgValidationError", variants: &["-"] };
pub static T_LOCALMSGSUB: Ty = Ty { name: "localmsgsubmission", variants: &["SubmitTx", "AcceptTx", "RejectTx", "Done"] };
pub static T_LOCALMSGNOTIF: Ty = Ty {
    name: "localmsgnotification",
    variants: &["RequestMessagesNonBlocking", "ReplyMessagesNonBlocking", "RequestMessagesBlocking", "ReplyMessagesBlocking", "ClientDone"],
};

pub fn n1_point(g: &mut G) -> n1::Point {
    match g.pick(&T_POINT) {
        0 => n1::Point::Origin,
        _ => {
            let h = if g.rng.chance(4, 5) { g.rng.bytes(32) } else { g.bytes(70) };
            n1::Point::Specific(g.u64(), h)
        }
    }
}
pub fn n1_tip(g: &mut G) -> n1::chainsync::Tip {
    g.pick(&T_TIP);
    n1::chainsync::Tip(n1_point(g), g.u64())
}
pub fn n1_header(g: &mut G) -> n1::chainsync::HeaderContent {
    match g.pick(&T_HEADER) {
        0 => n1::chainsync::HeaderContent { variant: 0, byron_prefix: Some((g.u8(), g.u64())), cbor: g.payload() },
        _ => {
            let hi = if g.rng.chance(1, 10) { 255 } else { 7 };
            n1::chainsync::HeaderContent { variant: 1 + g.rng.below(hi) as u8, byron_prefix: None, cbor: g.payload() }
        }
    }
}
pub fn n1_blockcontent(g: &mut G) -> n1::chainsync::BlockContent {
    g.pick(&T_BLOCKCONTENT);
    n1::chainsync::BlockContent(g.payload())
}
fn n1_chainsync_of<C>(g: &mut G, ty: &Ty, content: fn(&mut G) -> C) -> n1::chainsync::Message<C> {
    use n1::chainsync::Message as M;
    match g.pick(ty) {
        0 => M::RequestNext,
        1 => M::AwaitReply,
        2 => M::RollForward(content(g), n1_tip(g)),
        3 => M::RollBackward(n1_point(g), n1_tip(g)),
        4 => M::FindIntersect(g.vec(30, n1_point)),
        5 => M::IntersectFound(n1_point(g), n1_tip(g)),
        6 => M::IntersectNotFound(n1_tip(g)),
        _ => M::Done,
    }
}
pub fn n1_chainsync_n2n(g: &mut G) -> n1::chainsync::Message<n1::chainsync::HeaderContent> {
    n1_chainsync_of(g, &T_CHAINSYNC_N2N, n1_header)
}
pub fn n1_chainsync_n2c(g: &mut G) -> n1::chainsync::Message<n1::chainsync::BlockContent> {
    n1_chainsync_of(g, &T_CHAINSYNC_N2C, n1_blockcontent)
}
pub fn n1_blockfetch(g: &mut G) -> n1::blockfetch::Message {
    use n1::blockfetch::Message as M;
    match g.pick(&T_BLOCKFETCH) {
        0 => M::RequestRange { range: (n1_point(g), n1_point(g)) },
        1 => M::ClientDone,
        2 => M::StartBatch,
        3 => M::NoBlocks,
        4 => M::Block { body: g.payload() },
        _ => M::BatchDone,
    }
}
pub fn n1_eratxid(g: &mut G) -> n1::txsubmission::EraTxId {
    g.pick(&T_ERATXID);
    let h = if g.rng.chance(4, 5) { g.rng.bytes(32) } else { g.bytes(70) };
    n1::txsubmission::EraTxId(g.u16(), h)
}
pub fn n1_eratxbody(g: &mut G) -> n1::txsubmission::EraTxBody {
    g.pick(&T_ERATXBODY);
    n1::txsubmission::EraTxBody(g.u16(), g.payload())
}
pub fn n1_txidsize(g: &mut G) -> n1::txsubmission::TxIdAndSize<n1::txsubmission::EraTxId> {
    g.pick(&T_TXIDSIZE);
    n1::txsubmission::TxIdAndSize(n1_eratxid(g), g.u32())
}
pub type N1TxSub = n1::txsubmission::Message<n1::txsubmission::EraTxId, n1::txsubmission::EraTxBody>;
pub fn n1_txsubmission(g: &mut G) -> N1TxSub {
    use n1::txsubmission::Message as M;
    match g.pick(&T_TXSUB) {
        0 => M::Init,
        1 => M::RequestTxIds(g.bool(), g.u16(), g.u16()),
        2 => M::ReplyTxIds(g.vec(12, n1_txidsize)),
        3 => M::RequestTxs(g.vec(12, n1_eratxid)),
        4 => M::ReplyTxs(g.vec(6, n1_eratxbody)),
        _ => M::Done,
    }
}
pub fn n1_keepalive(g: &mut G) -> n1::keepalive::Message {
    use n1::keepalive::Message as M;
    match g.pick(&T_KEEPALIVE) {
        0 => M::KeepAlive(g.u16()),
        1 => M::ResponseKeepAlive(g.u16()),
        _ => M::Done,
    }
}
pub fn n1_peeraddr(g: &mut G) -> n1::peersharing::PeerAddress {
    match g.pick(&T_PEERADDR) {
        0 => n1::peersharing::PeerAddress::V4(gen_ipv4(g), g.u32()),
        _ => n1::peersharing::PeerAddress::V6(gen_ipv6(g), g.u32()),
    }
}
pub fn n1_peersharing(g: &mut G) -> n1::peersharing::Message {
    use n1::peersharing::Message as M;
    match g.pick(&T_PEERSHARING) {
        0 => M::ShareRequest(g.u8()),
        1 => M::SharePeers(g.vec(10, n1_peeraddr)),
        _ => M::Done,
    }
}
pub fn n1_vd_n2n(g: &mut G) -> n1::handshake::n2n::VersionData {
    match g.pick(&T_VD_N2N) {
        0 => n1::handshake::n2n::VersionData::new(g.u64(), g.bool(), None, None),
        _ => n1::handshake::n2n::VersionData::new(g.u64(), g.bool(), Some(g.u8()), Some(g.bool())),
    }
}
pub fn n1_vd_n2c(g: &mut G) -> n1::handshake::n2c::VersionData {
    match g.pick(&T_VD_N2C) {
        0 => n1::handshake::n2c::VersionData::new(g.u64(), None),
        _ => n1::handshake::n2c::VersionData::new(g.u64(), Some(g.bool())),
    }
}
pub fn n1_refuse(g: &mut G) -> n1::handshake::RefuseReason {
    use n1::handshake::RefuseReason as R;
    match g.pick(&T_REFUSE) {
        0 => R::VersionMismatch(g.vec(16, version_number)),
        1 => R::HandshakeDecodeError(version_number(g), g.text(30)),
        _ => R::Refused(version_number(g), g.text(30)),
    }
}
pub fn n1_vt_n2n(g: &mut G) -> n1::handshake::n2n::VersionTable {
    g.pick(&T_VT_N2N);
    n1::handshake::VersionTable { values: version_table(g, n1_vd_n2n) }
}
pub fn n1_vt_n2c(g: &mut G) -> n1::handshake::n2c::VersionTable {
    g.pick(&T_VT_N2C);
    n1::handshake::VersionTable { values: version_table(g, n1_vd_n2c) }
}
pub fn n1_handshake_n2n(g: &mut G) -> n1::handshake::Message<n1::handshake::n2n::VersionData> {
    use n1::handshake::Message as M;
    match g.pick(&T_HS_N2N) {
        0 => M::Propose(n1_vt_n2n(g)),
        1 => M::Accept(version_number(g), n1_vd_n2n(g)),
        2 => M::Refuse(n1_refuse(g)),
        _ => M::QueryReply(n1_vt_n2n(g)),
    }
}
pub fn n1_handshake_n2c(g: &mut G) -> n1::handshake::Message<n1::handshake::n2c::VersionData> {
    use n1::handshake::Message as M;
    match g.pick(&T_HS_N2C) {
        0 => M::Propose(n1_vt_n2c(g)),
        1 => M::Accept(version_number(g), n1_vd_n2c(g)),
        2 => M::Refuse(n1_refuse(g)),
        _ => M::QueryReply(n1_vt_n2c(g)),
    }
}
pub fn n1_txmonitor(g: &mut G) -> n1::txmonitor::Message {
    use n1::txmonitor::Message as M;
    match g.pick(&T_TXMONITOR) {
        0 => M::Acquire,
        1 => M::AwaitAcquire,
        2 => M::Acquired(g.u64()),
        3 => M::RequestHasTx(if g.rng.chance(2, 3) { hex::encode(g.rng.bytes(32)) } else { g.text(40) }),
        4 => M::RequestNextTx,
        5 => M::RequestSizeAndCapacity,
        6 => M::ResponseHasTx(g.bool()),
        7 => M::ResponseNextTx(None),
        8 => M::ResponseNextTx(Some((g.u8(), pallas_codec::utils::TagWrap::new(Bytes::from(g.payload()))))),
        9 => M::ResponseSizeAndCapacity(n1::txmonitor::MempoolSizeAndCapacity { capacity_in_bytes: g.u32(), size_in_bytes: g.u32(), number_of_txs: g.u32() }),
        10 => M::Release,
        _ => M::Done,
    }
}
pub fn n1_acqfail(g: &mut G) -> n1::localstate::AcquireFailure {
    match g.pick(&T_ACQFAIL) {
        0 => n1::localstate::AcquireFailure::PointTooOld,
        _ => n1::localstate::AcquireFailure::PointNotOnChain,
    }
}
pub fn n1_localstate(g: &mut G) -> n1::localstate::Message {
    use n1::localstate::Message as M;
    match g.pick(&T_LOCALSTATE) {
        0 => M::Acquire(Some(n1_point(g))),
        1 => M::Acquire(None),
        2 => M::Failure(n1_acqfail(g)),
        3 => M::Acquired,
        4 => M::Query(g.any_cbor()),
        5 => M::Query(AnyCbor::from_raw_bytes(lsq::request_bytes(g))),
        6 => M::Result(if g.rng.chance(1, 40) {
            // large result: a long array of byte strings (several segments)
            let n = 2000 + g.rng.usize_below(3000);
            let items: Vec<cbor::Node> = (0..n).map(|_| cbor::Node::bytes(&g.rng.bytes(28))).collect();
            AnyCbor::from_raw_bytes(cbor::Node::arr(items).to_vec())
        } else {
            g.any_cbor()
        }),
        7 => M::Result(AnyCbor::from_raw_bytes(lsq::result_bytes(g))),
        8 => M::ReAcquire(Some(n1_point(g))),
        9 => M::ReAcquire(None),
        10 => M::Release,
        _ => M::Done,
    }
}
pub fn n1_eratx(g: &mut G) -> EraTx {
    g.pick(&T_ERATX);
    EraTx(g.u16(), g.payload())
}
pub type N1LocalTx = n1::localtxsubmission::Message<EraTx, TxValidationError>;
pub fn n1_localtx(g: &mut G) -> N1LocalTx {
    use n1::localtxsubmission::Message as M;
    match g.pick(&T_LOCALTX) {
        0 => M::SubmitTx(n1_eratx(g)),
        1 => M::AcceptTx,
        2 => M::RejectTx(ltx::tx_validation_error(g)),
        _ => M::Done,
    }
}
pub fn n1_dmqpayload(g: &mut G) -> DmqMsgPayload {
    g.pick(&T_DMQPAYLOAD);
    DmqMsgPayload { msg_body: g.bytes(300), kes_period: g.u64(), expires_at: g.u32() }
}
pub fn n1_dmqopcert(g: &mut G) -> DmqMsgOperationalCertificate {
    g.pick(&T_DMQOPCERT);
    DmqMsgOperationalCertificate { kes_vk: g.bytes(32), issue_number: g.u64(), start_kes_period: g.u64(), cert_sig: g.bytes(64) }
}
pub fn n1_dmqmsg(g: &mut G) -> DmqMsg {
    g.pick(&T_DMQMSG);
    DmqMsg {
        msg_id: g.bytes(32),
        msg_payload: n1_dmqpayload(g),
        kes_signature: g.bytes(448),
        operational_certificate: n1_dmqopcert(g),
        cold_verification_key: g.bytes(32),
    }
}
pub fn n1_dmqreject(g: &mut G) -> DmqMsgRejectReason {
    match g.pick(&T_DMQREJECT) {
        0 => DmqMsgRejectReason::Invalid(g.text(40)),
        1 => DmqMsgRejectReason::AlreadyReceived,
        2 => DmqMsgRejectReason::Expired,
        _ => DmqMsgRejectReason::Other(g.text(40)),
    }
}
pub fn n1_dmqvalerr(g: &mut G) -> DmqMsgValidationError {
    g.pick(&T_DMQVALERR);
    DmqMsgValidationError(n1_dmqreject(g))
}
pub type N1LocalMsgSub = n1::localtxsubmission::Message<DmqMsg, DmqMsgValidationError>;
pub fn n1_localmsgsub(g: &mut G) -> N1LocalMsgSub {
    use n1::localtxsubmission::Message as M;
    match g.pick(&T_LOCALMSGSUB) {
        0 => M::SubmitTx(n1_dmqmsg(g)),
        1 => M::AcceptTx,
        2 => M::RejectTx(n1_dmqvalerr(g)),
        _ => M::Done,
    }
}
pub fn n1_localmsgnotif(g: &mut G) -> n1::localmsgnotification::Message {
    use n1::localmsgnotification::Message as M;
    match g.pick(&T_LOCALMSGNOTIF) {
        0 => M::RequestMessagesNonBlocking,
        1 => M::ReplyMessagesNonBlocking(g.vec(4, n1_dmqmsg), g.bool()),
        2 => M::RequestMessagesBlocking,
        3 => M::ReplyMessagesBlocking(g.vec(4, n1_dmqmsg)),
        _ => M::ClientDone,
    }
}

// ---- one enum over all protocols of the client/server stack ----------------------------

#[derive(Clone, Copy, Debug, PartialEq, Eq, PartialOrd, Ord)]
pub enum N1Proto {
    HandshakeN2N,
    HandshakeN2C,
    ChainSyncN2N,
    ChainSyncN2C,
    BlockFetch,
    TxSubmission,
    KeepAlive,
    PeerSharing,
    LocalState,
    LocalTxSubmission,
    TxMonitor,
    LocalMsgSubmission,
    LocalMsgNotification,
}
pub const N1_PROTOS: [N1Proto; 13] = [
    N1Proto::HandshakeN2N,
    N1Proto::HandshakeN2C,
    N1Proto::ChainSyncN2N,
    N1Proto::ChainSyncN2C,
    N1Proto::BlockFetch,
    N1Proto::TxSubmission,
    N1Proto::KeepAlive,
    N1Proto::PeerSharing,
    N1Proto::LocalState,
    N1Proto::LocalTxSubmission,
    N1Proto::TxMonitor,
    N1Proto::LocalMsgSubmission,
    N1Proto::LocalMsgNotification,
];
impl N1Proto {
    pub fn name(self) -> &'static str {
        match self {
            N1Proto::HandshakeN2N => "handshake-n2n",
            N1Proto::HandshakeN2C => "handshake-n2c",
            N1Proto::ChainSyncN2N => "chainsync-n2n",
            N1Proto::ChainSyncN2C => "chainsync-n2c",
            N1Proto::BlockFetch => "blockfetch",
            N1Proto::TxSubmission => "txsubmission",
            N1Proto::KeepAlive => "keepalive",
            N1Proto::PeerSharing => "peersharing",
            N1Proto::LocalState => "localstate",
            N1Proto::LocalTxSubmission => "localtxsubmission",
            N1Proto::TxMonitor => "txmonitor",
            N1Proto::LocalMsgSubmission => "localmsgsubmission",
            N1Proto::LocalMsgNotification => "localmsgnotification",
        }
    }
    /// mini-protocol number used on the multiplexer
    pub fn channel(self) -> u16 {
        match self {
            N1Proto::HandshakeN2N | N1Proto::HandshakeN2C => 0,
            N1Proto::ChainSyncN2N => n1::PROTOCOL_N2N_CHAIN_SYNC,
            N1Proto::ChainSyncN2C => n1::PROTOCOL_N2C_CHAIN_SYNC,
            N1Proto::BlockFetch => n1::PROTOCOL_N2N_BLOCK_FETCH,
            N1Proto::TxSubmission => n1::PROTOCOL_N2N_TX_SUBMISSION,
            N1Proto::KeepAlive => n1::PROTOCOL_N2N_KEEP_ALIVE,
            N1Proto::PeerSharing => n1::PROTOCOL_N2N_PEER_SHARING,
            N1Proto::LocalState => n1::PROTOCOL_N2C_STATE_QUERY,
            N1Proto::LocalTxSubmission => n1::PROTOCOL_N2C_TX_SUBMISSION,
            N1Proto::TxMonitor => n1::PROTOCOL_N2C_TX_MONITOR,
            N1Proto::LocalMsgSubmission => n1::PROTOCOL_N2C_MSG_SUBMISSION,
            N1Proto::LocalMsgNotification => n1::PROTOCOL_N2C_MSG_NOTIFICATION,
        }
    }
}

#[derive(Debug)]
pub enum N1Msg {
    HandshakeN2N(n1::handshake::Message<n1::handshake::n2n::VersionData>),
    HandshakeN2C(n1::handshake::Message<n1::handshake::n2c::VersionData>),
    ChainSyncN2N(n1::chainsync::Message<n1::chainsync::HeaderContent>),
    ChainSyncN2C(n1::chainsync::Message<n1::chainsync::BlockContent>),
    BlockFetch(n1::blockfetch::Message),
    TxSubmission(N1TxSub),
    KeepAlive(n1::keepalive::Message),
    PeerSharing(n1::peersharing::Message),
    LocalState(n1::localstate::Message),
    LocalTxSubmission(N1LocalTx),
    TxMonitor(n1::txmonitor::Message),
    LocalMsgSubmission(N1LocalMsgSub),
    LocalMsgNotification(n1::localmsgnotification::Message),
}

macro_rules! n1_each {
    ($m:expr, $x:ident => $e:expr) => {
        match $m {
            N1Msg::HandshakeN2N($x) => $e,
            N1Msg::HandshakeN2C($x) => $e,
            N1Msg::ChainSyncN2N($x) => $e,
            N1Msg::ChainSyncN2C($x) => $e,
            N1Msg::BlockFetch($x) => $e,
            N1Msg::TxSubmission($x) => $e,
            N1Msg::KeepAlive($x) => $e,
            N1Msg::PeerSharing($x) => $e,
            N1Msg::LocalState($x) => $e,
            N1Msg::LocalTxSubmission($x) => $e,
            N1Msg::TxMonitor($x) => $e,
            N1Msg::LocalMsgSubmission($x) => $e,
            N1Msg::LocalMsgNotification($x) => $e,
        }
    };
}

impl N1Msg {
    pub fn proto(&self) -> N1Proto {
        match self {
            N1Msg::HandshakeN2N(_) => N1Proto::HandshakeN2N,
            N1Msg::HandshakeN2C(_) => N1Proto::HandshakeN2C,
            N1Msg::ChainSyncN2N(_) => N1Proto::ChainSyncN2N,
            N1Msg::ChainSyncN2C(_) => N1Proto::ChainSyncN2C,
            N1Msg::BlockFetch(_) => N1Proto::BlockFetch,
            N1Msg::TxSubmission(_) => N1Proto::TxSubmission,
            N1Msg::KeepAlive(_) => N1Proto::KeepAlive,
            N1Msg::PeerSharing(_) => N1Proto::PeerSharing,
            N1Msg::LocalState(_) => N1Proto::LocalState,
            N1Msg::LocalTxSubmission(_) => N1Proto::LocalTxSubmission,
            N1Msg::TxMonitor(_) => N1Proto::TxMonitor,
            N1Msg::LocalMsgSubmission(_) => N1Proto::LocalMsgSubmission,
            N1Msg::LocalMsgNotification(_) => N1Proto::LocalMsgNotification,
        }
    }
    /// wire bytes; encoder panics / errors become Err(description)
    pub fn encode(&self) -> Result<Vec<u8>, String> {
        n1_each!(self, x => enc(x)).map_err(|o| format!("{o:?}"))
    }
    /// decode one message of protocol `p` from the front of `b` (panics caught)
    pub fn decode(p: N1Proto, b: &[u8]) -> Result<(N1Msg, usize), Outcome> {
        Ok(match p {
            N1Proto::HandshakeN2N => {
                let (m, n) = dec(b)?;
                (N1Msg::HandshakeN2N(m), n)
            }
            N1Proto::HandshakeN2C => {
                let (m, n) = dec(b)?;
                (N1Msg::HandshakeN2C(m), n)
            }
            N1Proto::ChainSyncN2N => {
                let (m, n) = dec(b)?;
                (N1Msg::ChainSyncN2N(m), n)
            }
            N1Proto::ChainSyncN2C => {
                let (m, n) = dec(b)?;
                (N1Msg::ChainSyncN2C(m), n)
            }
            N1Proto::BlockFetch => {
                let (m, n) = dec(b)?;
                (N1Msg::BlockFetch(m), n)
            }
            N1Proto::TxSubmission => {
                let (m, n) = dec(b)?;
                (N1Msg::TxSubmission(m), n)
            }
            N1Proto::KeepAlive => {
                let (m, n) = dec(b)?;
                (N1Msg::KeepAlive(m), n)
            }
            N1Proto::PeerSharing => {
                let (m, n) = dec(b)?;
                (N1Msg::PeerSharing(m), n)
            }
            N1Proto::LocalState => {
                let (m, n) = dec(b)?;
                (N1Msg::LocalState(m), n)
            }
            N1Proto::LocalTxSubmission => {
                let (m, n) = dec(b)?;
                (N1Msg::LocalTxSubmission(m), n)
            }
            N1Proto::TxMonitor => {
                let (m, n) = dec(b)?;
                (N1Msg::TxMonitor(m), n)
            }
            N1Proto::LocalMsgSubmission => {
                let (m, n) = dec(b)?;
                (N1Msg::LocalMsgSubmission(m), n)
            }
            N1Proto::LocalMsgNotification => {
                let (m, n) = dec(b)?;
                (N1Msg::LocalMsgNotification(m), n)
            }
        })
    }
    pub fn debug(&self) -> String {
        n1_each!(self, x => format!("{x:?}"))
    }
}

/// One message of protocol `p` plus its variant label (atom of the top-level variant,
/// e.g. "localtxsubmission::RejectTx").
pub fn gen_n1_message(g: &mut G, p: N1Proto) -> (N1Msg, String) {
    let tl = g.trace.len();
    let m = match p {
        N1Proto::HandshakeN2N => N1Msg::HandshakeN2N(n1_handshake_n2n(g)),
        N1Proto::HandshakeN2C => N1Msg::HandshakeN2C(n1_handshake_n2c(g)),
        N1Proto::ChainSyncN2N => N1Msg::ChainSyncN2N(n1_chainsync_n2n(g)),
        N1Proto::ChainSyncN2C => N1Msg::ChainSyncN2C(n1_chainsync_n2c(g)),
        N1Proto::BlockFetch => N1Msg::BlockFetch(n1_blockfetch(g)),
        N1Proto::TxSubmission => N1Msg::TxSubmission(n1_txsubmission(g)),
        N1Proto::KeepAlive => N1Msg::KeepAlive(n1_keepalive(g)),
        N1Proto::PeerSharing => N1Msg::PeerSharing(n1_peersharing(g)),
        N1Proto::LocalState => N1Msg::LocalState(n1_localstate(g)),
        N1Proto::LocalTxSubmission => N1Msg::LocalTxSubmission(n1_localtx(g)),
        N1Proto::TxMonitor => N1Msg::TxMonitor(n1_txmonitor(g)),
        N1Proto::LocalMsgSubmission => N1Msg::LocalMsgSubmission(n1_localmsgsub(g)),
        N1Proto::LocalMsgNotification => N1Msg::LocalMsgNotification(n1_localmsgnotif(g)),
    };
    let label = g.trace.get(tl).cloned().unwrap_or_default();
    (m, label)
}

/// Any message of any protocol of the client/server stack (fresh context, nothing avoided).
pub fn gen_n1_any_message(rng: &mut Rng) -> (N1Msg, String) {
    let p = *rng.pick(&N1_PROTOS);
    let mut g = G::new(rng);
    gen_n1_message(&mut g, p)
}

fn same_hs1<D: PartialEq + Debug + Clone + Encode<()>>(a: &n1::handshake::Message<D>, b: &n1::handshake::Message<D>) -> Result<(), String> {
    use n1::handshake::Message as M;
    match (a, b) {
        (M::Propose(x), M::Propose(y)) | (M::QueryReply(x), M::QueryReply(y)) => same_vt(&x.values, &y.values),
        (M::Accept(v, d), M::Accept(w, e)) if v == w && d == e => Ok(()),
        (M::Refuse(x), M::Refuse(y)) if format!("{x:?}") == format!("{y:?}") => Ok(()),
        _ => Err(format!("handshake message differs: sent {} got {}", clip(&format!("{a:?}")), clip(&format!("{b:?}")))),
    }?;
    same_by_reencoding(a, b)
}

fn registry_v1_core(v: &mut Vec<TypeEntry>) {
    reg!(v, "v1", "common", &T_POINT, false, n1_point);
    reg!(v, "v1", "chainsync", &T_TIP, false, n1_tip);
    reg!(v, "v1", "chainsync", &T_HEADER, false, n1_header);
    reg!(v, "v1", "chainsync", &T_BLOCKCONTENT, false, n1_blockcontent);
    reg!(v, "v1", "txsubmission", &T_ERATXID, false, n1_eratxid);
    reg!(v, "v1", "txsubmission", &T_ERATXBODY, false, n1_eratxbody);
    reg!(v, "v1", "txsubmission", &T_TXIDSIZE, false, n1_txidsize);
    reg!(v, "v1", "peersharing", &T_PEERADDR, false, n1_peeraddr);
    reg!(v, "v1", "handshake", &T_VD_N2N, false, n1_vd_n2n);
    reg!(v, "v1", "handshake", &T_VD_N2C, false, n1_vd_n2c);
    reg!(v, "v1", "handshake", &T_REFUSE, false, n1_refuse);
    reg!(v, "v1", "handshake", &T_VT_N2N, false, n1_vt_n2n, |a, b| same_vt(&a.values, &b.values));
    reg!(v, "v1", "handshake", &T_VT_N2C, false, n1_vt_n2c, |a, b| same_vt(&a.values, &b.values));
    reg!(v, "v1", "localstate", &T_ACQFAIL, false, n1_acqfail);
    reg!(v, "v1", "localtxsubmission", &T_ERATX, false, n1_eratx);
    reg!(v, "v1", "localmsgsubmission", &T_DMQPAYLOAD, false, n1_dmqpayload);
    reg!(v, "v1", "localmsgsubmission", &T_DMQOPCERT, false, n1_dmqopcert);
    reg!(v, "v1", "localmsgsubmission", &T_DMQMSG, false, n1_dmqmsg);
    reg!(v, "v1", "localmsgsubmission", &T_DMQREJECT, false, n1_dmqreject);
    reg!(v, "v1", "localmsgsubmission", &T_DMQVALERR, false, n1_dmqvalerr);
}

fn registry_v1_messages(v: &mut Vec<TypeEntry>) {
    reg!(v, "v1", "handshake", &T_HS_N2N, true, n1_handshake_n2n, same_hs1);
    reg!(v, "v1", "handshake", &T_HS_N2C, true, n1_handshake_n2c, same_hs1);
    reg!(v, "v1", "chainsync", &T_CHAINSYNC_N2N, true, n1_chainsync_n2n);
    reg!(v, "v1", "chainsync", &T_CHAINSYNC_N2C, true, n1_chainsync_n2c);
    reg!(v, "v1", "blockfetch", &T_BLOCKFETCH, true, n1_blockfetch);
    reg!(v, "v1", "txsubmission", &T_TXSUB, true, n1_txsubmission);
    reg!(v, "v1", "keepalive", &T_KEEPALIVE, true, n1_keepalive);
    reg!(v, "v1", "peersharing", &T_PEERSHARING, true, n1_peersharing);
    reg!(v, "v1", "txmonitor", &T_TXMONITOR, true, n1_txmonitor);
    reg!(v, "v1", "localstate", &T_LOCALSTATE, true, n1_localstate);
    reg!(v, "v1", "localtxsubmission", &T_LOCALTX, true, n1_localtx);
    reg!(v, "v1", "localmsgsubmission", &T_LOCALMSGSUB, true, n1_localmsgsub);
    reg!(v, "v1", "localmsgnotification", &T_LOCALMSGNOTIF, true, n1_localmsgnotif);
}
