//! Ledger-level component types used by local-state-query requests/results and by the
//! local-tx-submission reject reasons (pallas_network::miniprotocols::localstate::queries_v16 and
//! localtxsubmission::primitives), plus the typed `Request` generator.

use super::*;
use n1::localstate::queries_v16 as q;
use n1::localtxsubmission as lt;
use n1::localtxsubmission::primitives as lp;
use pallas_codec::utils::{CborWrap, Int, KeyValuePairs, MaybeIndefArray, NonEmptyKeyValuePairs, Nullable, Set, TagWrap};
use std::collections::{BTreeMap, BTreeSet};

pub static T_STAKEADDR: Ty = Ty { name: "StakeAddr", variants: &["-"] };
pub static T_EITHER: Ty = Ty { name: "Either<Coin,StakeAddr>", variants: &["Left", "Right"] };
pub static T_DREP: Ty = Ty { name: "DRep", variants: &["KeyHash", "ScriptHash", "AlwaysAbstain", "AlwaysNoConfidence"] };
pub static T_GOVACTIONID: Ty = Ty { name: "GovActionId", variants: &["-"] };
pub static T_MEMBERSTATUS: Ty = Ty { name: "MemberStatus", variants: &["Active", "Expired", "Unrecognized"] };
pub static T_TXIN: Ty = Ty { name: "TransactionInput", variants: &["-"] };
pub static T_SMAYBE_POOLS: Ty = Ty { name: "SMaybe<Pools>", variants: &["Some", "None"] };
pub static T_RATIONAL: Ty = Ty { name: "RationalNumber", variants: &["-"] };
pub static T_ANCHOR: Ty = Ty { name: "Anchor", variants: &["-"] };
pub static T_POOLMETADATA: Ty = Ty { name: "PoolMetadata", variants: &["-"] };
pub static T_RELAY: Ty = Ty { name: "Relay", variants: &["SingleHostAddr", "SingleHostName", "MultiHostName"] };
pub static T_EXUNITS: Ty = Ty { name: "ExUnits", variants: &["-"] };
pub static T_EXUNITPRICES: Ty = Ty { name: "ExUnitPrices", variants: &["-"] };
pub static T_POOLVT: Ty = Ty { name: "PoolVotingThresholds", variants: &["-"] };
pub static T_DREPVT: Ty = Ty { name: "DRepVotingThresholds", variants: &["-"] };
pub static T_COSTMODELS: Ty = Ty { name: "CostModels", variants: &["-"] };
pub static T_PPUPDATE: Ty = Ty { name: "PParamsUpdate", variants: &["-"] };
pub static T_CONSTITUTION: Ty = Ty { name: "Constitution", variants: &["-"] };
pub static T_VOTE: Ty = Ty { name: "Vote", variants: &["No", "Yes", "Abstain"] };
pub static T_CREDENTIAL: Ty = Ty { name: "Credential", variants: &["ScriptHashObj", "KeyHashObj"] };
pub static T_STAKECRED: Ty = Ty { name: "StakeCredential", variants: &["ScriptHash", "AddrKeyhash"] };
pub static T_GOVACTION: Ty = Ty {
    name: "GovAction",
    variants: &["ParameterChange", "HardForkInitiation", "TreasuryWithdrawals", "NoConfidence", "UpdateCommittee", "NewConstitution", "InfoAction"],
};
pub static T_PROPOSAL: Ty = Ty { name: "ProposalProcedure", variants: &["-"] };
pub static T_VALUE: Ty = Ty { name: "Value", variants: &["Coin", "Multiasset"] };
pub static T_BIGINT: Ty = Ty { name: "BigInt", variants: &["Int", "BigUInt", "BigNInt"] };
pub static T_PLUTUSDATA: Ty = Ty { name: "PlutusData", variants: &["Constr", "Map", "BigInt", "BoundedBytes", "Array"] };
pub static T_CONSTR: Ty = Ty { name: "Constr", variants: &["Compact121-127", "Compact1280-1400", "General102"] };
pub static T_DATUMOPTION: Ty = Ty { name: "DatumOption", variants: &["Hash", "Data"] };
pub static T_NATIVESCRIPT: Ty =
    Ty { name: "NativeScript", variants: &["ScriptPubkey", "ScriptAll", "ScriptAny", "ScriptNOfK", "InvalidBefore", "InvalidHereafter"] };
pub static T_SCRIPTREF: Ty = Ty { name: "ScriptRef", variants: &["NativeScript", "PlutusV1Script", "PlutusV2Script", "PlutusV3Script"] };
pub static T_TXOUT: Ty = Ty { name: "TransactionOutput", variants: &["Current", "Legacy"] };
pub static T_LANGUAGE: Ty = Ty { name: "Language", variants: &["PlutusV1", "PlutusV2", "PlutusV3"] };
pub static T_VOTER: Ty = Ty {
    name: "Voter",
    variants: &["ConstitutionalCommitteeKey", "ConstitutionalCommitteeScript", "DRepKey", "DRepScript", "StakePoolKey"],
};
pub static T_CERTIFICATE: Ty = Ty {
    name: "Certificate",
    variants: &[
        "StakeRegistration",
        "StakeDeregistration",
        "StakeDelegation",
        "PoolRegistration",
        "PoolRetirement",
        "Reg",
        "UnReg",
        "VoteDeleg",
        "StakeVoteDeleg",
        "StakeRegDeleg",
        "VoteRegDeleg",
        "StakeVoteRegDeleg",
        "AuthCommitteeHot",
        "ResignCommitteeCold",
        "RegDRepCert",
        "UnRegDRepCert",
        "UpdateDRepCert",
    ],
};
pub static T_HARDFORKQUERY: Ty = Ty { name: "HardForkQuery", variants: &["GetInterpreter", "GetCurrentEra"] };
pub static T_BLOCKQUERY: Ty = Ty {
    name: "BlockQuery",
    variants: &[
        "GetLedgerTip",
        "GetEpochNo",
        "GetNonMyopicMemberRewards",
        "GetCurrentPParams",
        "GetProposedPParamsUpdates",
        "GetStakeDistribution",
        "GetUTxOByAddress",
        "GetUTxOWhole",
        "DebugEpochState",
        "GetCBOR",
        "GetFilteredDelegationsAndRewardAccounts",
        "GetGenesisConfig",
        "DebugNewEpochState",
        "DebugChainDepState",
        "GetRewardProvenance",
        "GetUTxOByTxIn",
        "GetStakePools",
        "GetStakePoolParams",
        "GetRewardInfoPools",
        "GetPoolState",
        "GetStakeSnapshots",
        "GetPoolDistr",
        "GetStakeDelegDeposits",
        "GetConstitution",
        "GetGovState",
        "GetDRepState",
        "GetDRepStakeDistr",
        "GetCommitteeMembersState",
        "GetFilteredVoteDelegatees",
        "GetAccountState",
        "GetSPOStakeDistr",
        "GetProposals",
        "GetRatifyState",
        "GetFuturePParams",
        "GetBigLedgerPeerSnapshot",
        "GetLedgerPeerSnapshot",
        "GetPoolDistr2",
        "GetStakeDistribution2",
        "GetDRepsDelegations",
    ],
};
pub static T_LEDGERQUERY: Ty = Ty { name: "LedgerQuery", variants: &["BlockQuery", "HardForkQuery"] };
pub static T_REQUEST: Ty = Ty { name: "Request", variants: &["LedgerQuery", "GetSystemStart", "GetChainBlockNo", "GetChainPoint"] };
// results
pub static T_SYSTEMSTART: Ty = Ty { name: "SystemStart", variants: &["-"] };
pub static T_CHAINBLOCKNO: Ty = Ty { name: "ChainBlockNumber", variants: &["-"] };
pub static T_STAKEDISTR: Ty = Ty { name: "StakeDistribution", variants: &["-"] };
pub static T_ACCOUNTSTATE: Ty = Ty { name: "AccountState", variants: &["-"] };
pub static T_GENESISCONFIG: Ty = Ty { name: "GenesisConfig", variants: &["-"] };
pub static T_STAKESNAPSHOTS: Ty = Ty { name: "StakeSnapshots", variants: &["-"] };
pub static T_DREPSTATE: Ty = Ty { name: "DRepState", variants: &["-"] };
pub static T_FILTEREDDELEGS: Ty = Ty { name: "FilteredDelegsRewards", variants: &["-"] };
pub static T_UTXOBYADDR: Ty = Ty { name: "UTxOByAddress", variants: &["-"] };
pub static T_POOLPARAMS: Ty = Ty { name: "PoolParams", variants: &["-"] };
pub static T_COMMITTEE: Ty = Ty { name: "Committee", variants: &["-"] };
pub static T_COMMAUTH: Ty = Ty { name: "CommitteeAuthorization", variants: &["HotCredential", "MemberResigned"] };
pub static T_HOTCRED: Ty = Ty { name: "HotCredAuthStatus", variants: &["MemberAuthorized", "MemberNotAuthorized", "MemberResigned"] };
pub static T_NEXTEPOCH: Ty =
    Ty { name: "NextEpochChange", variants: &["ToBeEnacted", "ToBeRemoved", "NoChangeExpected", "ToBeExpired", "TermAdjusted"] };
pub static T_COMMMEMBERS: Ty = Ty { name: "CommitteeMembersState", variants: &["-"] };
pub static T_GOVRELATION: Ty = Ty { name: "GovRelation", variants: &["-"] };
pub static T_FUTUREPP: Ty = Ty { name: "FuturePParams", variants: &["NoPParamsUpdate", "DefinitePParamsUpdate", "PotentialPParamsUpdate"] };
pub static T_GOVACTIONSTATE: Ty = Ty { name: "GovActionState", variants: &["-"] };
pub static T_PROTOCOLPARAM: Ty = Ty { name: "ProtocolParam", variants: &["-"] };

// ---- small pieces -------------------------------------------------------------------------

pub fn smaybe<T>(g: &mut G, f: impl FnOnce(&mut G) -> T) -> lt::SMaybe<T> {
    match g.maybe(f) {
        Some(x) => lt::SMaybe::Some(x),
        None => lt::SMaybe::None,
    }
}
pub fn nullable<T: Clone>(g: &mut G, f: impl FnOnce(&mut G) -> T) -> Nullable<T> {
    match g.maybe(f) {
        Some(x) => Nullable::Some(x),
        None => {
            if g.rng.chance(1, 6) {
                Nullable::Undefined
            } else {
                Nullable::Null
            }
        }
    }
}
pub fn coin(g: &mut G) -> q::Coin {
    g.any_uint()
}
pub fn stake_addr(g: &mut G) -> q::StakeAddr {
    g.pick(&T_STAKEADDR);
    let b = if g.rng.chance(4, 5) { g.rng.bytes(28) } else { g.bytes(40) };
    let t = if g.rng.chance(1, 10) { g.u8() } else { g.rng.below(2) as u8 };
    q::StakeAddr::from((t, Bytes::from(b)))
}
pub fn either(g: &mut G) -> q::Either<q::Coin, q::StakeAddr> {
    match g.pick(&T_EITHER) {
        0 => q::Either::Left(coin(g)),
        _ => q::Either::Right(stake_addr(g)),
    }
}
pub fn drep(g: &mut G) -> q::DRep {
    match g.pick(&T_DREP) {
        0 => q::DRep::KeyHash(Bytes::from(g.rng.bytes(28))),
        1 => q::DRep::ScriptHash(Bytes::from(g.rng.bytes(28))),
        2 => q::DRep::AlwaysAbstain,
        _ => q::DRep::AlwaysNoConfidence,
    }
}
pub fn gov_action_id(g: &mut G) -> q::GovActionId {
    g.pick(&T_GOVACTIONID);
    q::GovActionId { tx_id: g.hash32(), gov_action_ix: g.u32() }
}
pub fn member_status(g: &mut G) -> q::MemberStatus {
    match g.pick(&T_MEMBERSTATUS) {
        0 => q::MemberStatus::Active,
        1 => q::MemberStatus::Expired,
        _ => q::MemberStatus::Unrecognized,
    }
}
pub fn tx_in(g: &mut G) -> q::TransactionInput {
    g.pick(&T_TXIN);
    q::TransactionInput { transaction_id: g.hash32(), index: g.u64() }
}
pub fn tagged_set<T: Ord>(g: &mut G, max: usize, f: impl FnMut(&mut G) -> T) -> q::TaggedSet<T> {
    let v = g.vec(max, f);
    TagWrap::new(v.into_iter().collect::<BTreeSet<T>>())
}
pub fn pools(g: &mut G) -> q::Pools {
    tagged_set(g, 6, |g| Bytes::from(g.rng.bytes(28)))
}
pub fn smaybe_pools(g: &mut G) -> lt::SMaybe<q::Pools> {
    match g.pick(&T_SMAYBE_POOLS) {
        0 => lt::SMaybe::Some(pools(g)),
        _ => lt::SMaybe::None,
    }
}
pub fn rational(g: &mut G) -> q::RationalNumber {
    g.pick(&T_RATIONAL);
    q::RationalNumber { numerator: g.u64(), denominator: g.u64() }
}
pub fn anchor(g: &mut G) -> q::Anchor {
    g.pick(&T_ANCHOR);
    q::Anchor { url: g.text(64), data_hash: Bytes::from(g.rng.bytes(32)) }
}
pub fn pool_metadata(g: &mut G) -> q::PoolMetadata {
    g.pick(&T_POOLMETADATA);
    q::PoolMetadata { url: g.text(64), hash: Bytes::from(g.rng.bytes(32)) }
}
pub fn relay(g: &mut G) -> q::Relay {
    match g.pick(&T_RELAY) {
        0 => q::Relay::SingleHostAddr(
            nullable(g, |g| g.u32()),
            nullable(g, |g| Bytes::from(g.rng.bytes(4))),
            nullable(g, |g| Bytes::from(g.rng.bytes(16))),
        ),
        1 => q::Relay::SingleHostName(nullable(g, |g| g.u32()), g.text(64)),
        _ => q::Relay::MultiHostName(g.text(64)),
    }
}
pub fn ex_units(g: &mut G) -> q::ExUnits {
    g.pick(&T_EXUNITS);
    q::ExUnits { mem: g.u64(), steps: g.u64() }
}
pub fn ex_unit_prices(g: &mut G) -> q::ExUnitPrices {
    g.pick(&T_EXUNITPRICES);
    q::ExUnitPrices { mem_price: rational(g), step_price: rational(g) }
}
pub fn pool_vt(g: &mut G) -> q::PoolVotingThresholds {
    g.pick(&T_POOLVT);
    q::PoolVotingThresholds {
        motion_no_confidence: rational(g),
        committee_normal: rational(g),
        committee_no_confidence: rational(g),
        hard_fork_initiation: rational(g),
        pp_security_group: rational(g),
    }
}
pub fn drep_vt(g: &mut G) -> q::DRepVotingThresholds {
    g.pick(&T_DREPVT);
    q::DRepVotingThresholds {
        motion_no_confidence: rational(g),
        committee_normal: rational(g),
        committee_no_confidence: rational(g),
        update_to_constitution: rational(g),
        hard_fork_initiation: rational(g),
        pp_network_group: rational(g),
        pp_economic_group: rational(g),
        pp_technical_group: rational(g),
        pp_gov_group: rational(g),
        treasury_withdrawal: rational(g),
    }
}
fn cost_model(g: &mut G) -> Vec<i64> {
    g.vec(12, |g| g.i64())
}
/// only the three known languages (the `unknown` field is `#[cbor(skip)]`, i.e. not wire-representable
/// through this encoder)
pub fn cost_models(g: &mut G) -> q::CostModels {
    g.pick(&T_COSTMODELS);
    q::CostModels { plutus_v1: g.maybe(cost_model), plutus_v2: g.maybe(cost_model), plutus_v3: g.maybe(cost_model), unknown: KeyValuePairs::Def(vec![]) }
}
pub fn pparams_update(g: &mut G) -> q::PParamsUpdate {
    g.pick(&T_PPUPDATE);
    q::PParamsUpdate {
        minfee_a: g.maybe(|g| g.u64()),
        minfee_b: g.maybe(|g| g.u64()),
        max_block_body_size: g.maybe(|g| g.u64()),
        max_transaction_size: g.maybe(|g| g.u64()),
        max_block_header_size: g.maybe(|g| g.u64()),
        key_deposit: g.maybe(coin),
        pool_deposit: g.maybe(coin),
        maximum_epoch: g.maybe(|g| g.u64()),
        desired_number_of_stake_pools: g.maybe(|g| g.u64()),
        pool_pledge_influence: g.maybe(rational),
        expansion_rate: g.maybe(rational),
        treasury_growth_rate: g.maybe(rational),
        min_pool_cost: g.maybe(coin),
        ada_per_utxo_byte: g.maybe(coin),
        cost_models_for_script_languages: g.maybe(cost_models),
        execution_costs: g.maybe(ex_unit_prices),
        max_tx_ex_units: g.maybe(ex_units),
        max_block_ex_units: g.maybe(ex_units),
        max_value_size: g.maybe(|g| g.u64()),
        collateral_percentage: g.maybe(|g| g.u64()),
        max_collateral_inputs: g.maybe(|g| g.u64()),
        pool_voting_thresholds: g.maybe(pool_vt),
        drep_voting_thresholds: g.maybe(drep_vt),
        min_committee_size: g.maybe(|g| g.u64()),
        committee_term_limit: g.maybe(|g| g.u64()),
        governance_action_validity_period: g.maybe(|g| g.u64()),
        governance_action_deposit: g.maybe(coin),
        drep_deposit: g.maybe(coin),
        drep_inactivity_period: g.maybe(|g| g.u64()),
        minfee_refscript_cost_per_byte: g.maybe(rational),
    }
}
pub fn protocol_param(g: &mut G) -> q::ProtocolParam {
    g.pick(&T_PROTOCOLPARAM);
    q::ProtocolParam {
        minfee_a: g.maybe(|g| g.u64()),
        minfee_b: g.maybe(|g| g.u64()),
        max_block_body_size: g.maybe(|g| g.u64()),
        max_transaction_size: g.maybe(|g| g.u64()),
        max_block_header_size: g.maybe(|g| g.u64()),
        key_deposit: g.maybe(coin),
        pool_deposit: g.maybe(coin),
        maximum_epoch: g.maybe(|g| g.u64()),
        desired_number_of_stake_pools: g.maybe(|g| g.u64()),
        pool_pledge_influence: g.maybe(rational),
        expansion_rate: g.maybe(rational),
        treasury_growth_rate: g.maybe(rational),
        protocol_version: g.maybe(|g| (g.u64(), g.u64())),
        min_pool_cost: g.maybe(coin),
        ada_per_utxo_byte: g.maybe(coin),
        cost_models_for_script_languages: g.maybe(cost_models),
        execution_costs: g.maybe(ex_unit_prices),
        max_tx_ex_units: g.maybe(ex_units),
        max_block_ex_units: g.maybe(ex_units),
        max_value_size: g.maybe(|g| g.u64()),
        collateral_percentage: g.maybe(|g| g.u64()),
        max_collateral_inputs: g.maybe(|g| g.u64()),
        pool_voting_thresholds: g.maybe(pool_vt),
        drep_voting_thresholds: g.maybe(drep_vt),
        min_committee_size: g.maybe(|g| g.u64()),
        committee_term_limit: g.maybe(|g| g.u64()),
        governance_action_validity_period: g.maybe(|g| g.u64()),
        governance_action_deposit: g.maybe(coin),
        drep_deposit: g.maybe(coin),
        drep_inactivity_period: g.maybe(|g| g.u64()),
        minfee_refscript_cost_per_byte: g.maybe(rational),
    }
}
pub fn constitution(g: &mut G) -> q::Constitution {
    g.pick(&T_CONSTITUTION);
    q::Constitution { anchor: anchor(g), script: g.maybe(|g| g.hash28()) }
}
pub fn vote(g: &mut G) -> q::Vote {
    match g.pick(&T_VOTE) {
        0 => q::Vote::No,
        1 => q::Vote::Yes,
        _ => q::Vote::Abstain,
    }
}
pub fn credential(g: &mut G) -> lp::Credential {
    match g.pick(&T_CREDENTIAL) {
        0 => lp::Credential::ScriptHashObj(g.hash28()),
        _ => lp::Credential::KeyHashObj(g.hash28()),
    }
}
pub fn stake_cred(g: &mut G) -> lp::StakeCredential {
    match g.pick(&T_STAKECRED) {
        0 => lp::StakeCredential::ScriptHash(g.hash28()),
        _ => lp::StakeCredential::AddrKeyhash(g.hash28()),
    }
}
pub fn gov_action(g: &mut G) -> q::GovAction {
    match g.pick(&T_GOVACTION) {
        0 => q::GovAction::ParameterChange(g.maybe(gov_action_id), pparams_update(g), g.maybe(|g| g.hash28())),
        1 => q::GovAction::HardForkInitiation(g.maybe(gov_action_id), (g.u64(), g.u64())),
        2 => q::GovAction::TreasuryWithdrawals(kvp(g, 5, |g| (Bytes::from(g.rng.bytes(29)), coin(g))), g.maybe(|g| g.hash28())),
        3 => q::GovAction::NoConfidence(g.maybe(gov_action_id)),
        4 => {
            let removed = tagged_set(g, 4, stake_cred);
            let added: BTreeMap<lp::StakeCredential, u64> = g.vec(4, |g| (stake_cred(g), g.u64())).into_iter().collect();
            q::GovAction::UpdateCommittee(g.maybe(gov_action_id), removed, added, rational(g))
        }
        5 => q::GovAction::NewConstitution(g.maybe(gov_action_id), constitution(g)),
        _ => q::GovAction::InfoAction,
    }
}
pub fn kvp<K: Clone, V: Clone>(g: &mut G, max: usize, f: impl FnMut(&mut G) -> (K, V)) -> KeyValuePairs<K, V> {
    let v = g.vec(max, f);
    if g.rng.chance(1, 4) {
        KeyValuePairs::Indef(v)
    } else {
        KeyValuePairs::Def(v)
    }
}
pub fn nekvp<K: Clone, V: Clone>(g: &mut G, max: usize, f: impl FnMut(&mut G) -> (K, V)) -> NonEmptyKeyValuePairs<K, V> {
    let v = g.vec1(max, f);
    if g.rng.chance(1, 4) {
        NonEmptyKeyValuePairs::Indef(v)
    } else {
        NonEmptyKeyValuePairs::Def(v)
    }
}
pub fn proposal(g: &mut G) -> q::ProposalProcedure {
    g.pick(&T_PROPOSAL);
    q::ProposalProcedure { deposit: coin(g), return_addr: Bytes::from(g.rng.bytes(29)), gov_action: gov_action(g), anchor: anchor(g) }
}
pub fn value(g: &mut G) -> q::Value {
    match g.pick(&T_VALUE) {
        0 => q::Value::Coin(coin(g)),
        _ => q::Value::Multiasset(coin(g), nekvp(g, 3, |g| (g.hash28(), nekvp(g, 3, |g| (g.cbytes(32), coin(g)))))),
    }
}
pub fn bounded_bytes(g: &mut G) -> q::BoundedBytes {
    let n = match g.rng.below(6) {
        0 => *g.rng.pick(&[0usize, 63, 64, 65, 128, 129, 200]),
        _ => g.rng.usize_below(80),
    };
    q::BoundedBytes::from(g.rng.bytes(n))
}
pub fn big_int(g: &mut G) -> q::BigInt {
    match g.pick(&T_BIGINT) {
        0 => q::BigInt::Int(if g.rng.chance(1, 4) {
            let v: i128 = if g.bool() { g.u64() as i128 } else { -1 - g.u64() as i128 };
            Int::try_from(v).unwrap()
        } else {
            Int::from(g.i64())
        }),
        1 => q::BigInt::BigUInt(bounded_bytes(g)),
        _ => q::BigInt::BigNInt(bounded_bytes(g)),
    }
}
fn mia<T>(g: &mut G, v: Vec<T>) -> MaybeIndefArray<T> {
    if g.rng.chance(1, 3) {
        MaybeIndefArray::Indef(v)
    } else {
        MaybeIndefArray::Def(v)
    }
}
pub fn constr(g: &mut G) -> q::Constr<q::PlutusData> {
    let k = g.pick(&T_CONSTR);
    let fields = g.vec(3, plutus_data);
    let fields = mia(g, fields);
    match k {
        0 => q::Constr { tag: 121 + g.rng.below(7), any_constructor: None, fields },
        1 => q::Constr { tag: 1280 + g.rng.below(121), any_constructor: None, fields },
        _ => q::Constr { tag: 102, any_constructor: Some(g.u64()), fields },
    }
}
pub fn plutus_data(g: &mut G) -> q::PlutusData {
    match g.pick_rec(&T_PLUTUSDATA, &[2, 3]) {
        0 => q::PlutusData::Constr(constr(g)),
        // the encoder always writes a definite map (on purpose, to match the Haskell encoder), so the
        // Indef flavour of the container is not wire-representable here
        1 => q::PlutusData::Map(KeyValuePairs::Def(g.vec(3, |g| (plutus_data(g), plutus_data(g))))),
        2 => q::PlutusData::BigInt(big_int(g)),
        3 => q::PlutusData::BoundedBytes(bounded_bytes(g)),
        _ => {
            let v = g.vec(3, plutus_data);
            q::PlutusData::Array(mia(g, v))
        }
    }
}
pub fn datum_option(g: &mut G) -> q::DatumOption {
    match g.pick(&T_DATUMOPTION) {
        0 => q::DatumOption::Hash(g.hash32()),
        _ => q::DatumOption::Data(CborWrap(plutus_data(g))),
    }
}
pub fn native_script(g: &mut G) -> lp::NativeScript {
    match g.pick_rec(&T_NATIVESCRIPT, &[0, 4, 5]) {
        0 => lp::NativeScript::ScriptPubkey(g.hash28()),
        1 => lp::NativeScript::ScriptAll(g.vec(3, native_script)),
        2 => lp::NativeScript::ScriptAny(g.vec(3, native_script)),
        3 => lp::NativeScript::ScriptNOfK(g.u32(), g.vec(3, native_script)),
        4 => lp::NativeScript::InvalidBefore(g.u64()),
        _ => lp::NativeScript::InvalidHereafter(g.u64()),
    }
}
pub fn script_ref(g: &mut G) -> lp::ScriptRef {
    match g.pick(&T_SCRIPTREF) {
        0 => lp::PseudoScript::NativeScript(native_script(g)),
        1 => lp::PseudoScript::PlutusV1Script(lp::PlutusScript(g.cbytes(100))),
        2 => lp::PseudoScript::PlutusV2Script(lp::PlutusScript(g.cbytes(100))),
        _ => lp::PseudoScript::PlutusV3Script(lp::PlutusScript(g.cbytes(100))),
    }
}
pub fn tx_out(g: &mut G) -> q::TransactionOutput {
    match g.pick(&T_TXOUT) {
        0 => q::TransactionOutput::Current(q::PostAlonsoTransactionOutput {
            address: g.cbytes(57),
            amount: value(g),
            inline_datum: g.maybe(datum_option),
            script_ref: g.maybe(|g| CborWrap(script_ref(g))),
        }),
        _ => q::TransactionOutput::Legacy(q::LegacyTransactionOutput { address: g.cbytes(57), amount: value(g), datum_hash: g.maybe(|g| g.hash32()) }),
    }
}
pub fn language(g: &mut G) -> lp::Language {
    match g.pick(&T_LANGUAGE) {
        0 => lp::Language::PlutusV1,
        1 => lp::Language::PlutusV2,
        _ => lp::Language::PlutusV3,
    }
}
pub fn voter(g: &mut G) -> lp::Voter {
    match g.pick(&T_VOTER) {
        0 => lp::Voter::ConstitutionalCommitteeKey(g.hash28()),
        1 => lp::Voter::ConstitutionalCommitteeScript(g.hash28()),
        2 => lp::Voter::DRepKey(g.hash28()),
        3 => lp::Voter::DRepScript(g.hash28()),
        _ => lp::Voter::StakePoolKey(g.hash28()),
    }
}
/// variant index -> certificate; indices follow T_CERTIFICATE
pub fn certificate_variant(g: &mut G, k: usize) -> lp::Certificate {
    use lp::Certificate as C;
    match k {
        0 => C::StakeRegistration(stake_cred(g)),
        1 => C::StakeDeregistration(stake_cred(g)),
        2 => C::StakeDelegation(stake_cred(g), g.hash28()),
        3 => C::PoolRegistration {
            operator: g.hash28(),
            vrf_keyhash: g.hash32(),
            pledge: coin(g),
            cost: coin(g),
            margin: rational(g),
            reward_account: Bytes::from(g.rng.bytes(29)),
            pool_owners: Set::from(g.vec(3, |g| g.hash28())),
            relays: g.vec(3, relay),
            pool_metadata: nullable(g, pool_metadata),
        },
        4 => C::PoolRetirement(g.hash28(), g.u64()),
        5 => C::Reg(stake_cred(g), coin(g)),
        6 => C::UnReg(stake_cred(g), coin(g)),
        7 => C::VoteDeleg(stake_cred(g), drep(g)),
        8 => C::StakeVoteDeleg(stake_cred(g), g.hash28(), drep(g)),
        9 => C::StakeRegDeleg(stake_cred(g), g.hash28(), coin(g)),
        10 => C::VoteRegDeleg(stake_cred(g), drep(g), coin(g)),
        11 => C::StakeVoteRegDeleg(stake_cred(g), g.hash28(), drep(g), coin(g)),
        12 => C::AuthCommitteeHot(stake_cred(g), stake_cred(g)),
        13 => C::ResignCommitteeCold(stake_cred(g), nullable(g, anchor)),
        14 => C::RegDRepCert(stake_cred(g), coin(g), nullable(g, anchor)),
        15 => C::UnRegDRepCert(stake_cred(g), coin(g)),
        _ => C::UpdateDRepCert(stake_cred(g), nullable(g, anchor)),
    }
}
pub fn certificate(g: &mut G) -> lp::Certificate {
    let k = g.pick(&T_CERTIFICATE);
    certificate_variant(g, k)
}

// ---- typed requests -------------------------------------------------------------------------

pub fn hard_fork_query(g: &mut G) -> q::HardForkQuery {
    match g.pick(&T_HARDFORKQUERY) {
        0 => q::HardForkQuery::GetInterpreter,
        _ => q::HardForkQuery::GetCurrentEra,
    }
}
const BQ_LEAVES: &[usize] = &[0, 1, 3, 4, 5, 7, 8, 11, 12, 13, 14, 16, 18, 23, 24, 29, 32, 33, 34, 37];
pub fn block_query(g: &mut G) -> q::BlockQuery {
    use q::BlockQuery as B;
    match g.pick_rec(&T_BLOCKQUERY, BQ_LEAVES) {
        0 => B::GetLedgerTip,
        1 => B::GetEpochNo,
        2 => B::GetNonMyopicMemberRewards(tagged_set(g, 5, either)),
        3 => B::GetCurrentPParams,
        4 => B::GetProposedPParamsUpdates,
        5 => B::GetStakeDistribution,
        6 => B::GetUTxOByAddress(g.vec(5, |g| g.cbytes(57))),
        7 => B::GetUTxOWhole,
        8 => B::DebugEpochState,
        9 => B::GetCBOR(Box::new(block_query(g))),
        10 => B::GetFilteredDelegationsAndRewardAccounts(g.vec(5, stake_addr).into_iter().collect()),
        11 => B::GetGenesisConfig,
        12 => B::DebugNewEpochState,
        13 => B::DebugChainDepState,
        14 => B::GetRewardProvenance,
        15 => B::GetUTxOByTxIn(g.vec(5, tx_in).into_iter().collect()),
        16 => B::GetStakePools,
        17 => B::GetStakePoolParams(pools(g)),
        18 => B::GetRewardInfoPools,
        19 => B::GetPoolState(smaybe_pools(g)),
        20 => B::GetStakeSnapshots(smaybe_pools(g)),
        21 => B::GetPoolDistr(smaybe_pools(g)),
        22 => B::GetStakeDelegDeposits(tagged_set(g, 5, stake_addr)),
        23 => B::GetConstitution,
        24 => B::GetGovState,
        25 => B::GetDRepState(tagged_set(g, 5, stake_addr)),
        26 => B::GetDRepStakeDistr(tagged_set(g, 5, drep)),
        27 => B::GetCommitteeMembersState(tagged_set(g, 4, stake_addr), tagged_set(g, 4, stake_addr), tagged_set(g, 3, member_status)),
        28 => B::GetFilteredVoteDelegatees(g.vec(5, stake_addr).into_iter().collect()),
        29 => B::GetAccountState,
        30 => B::GetSPOStakeDistr(pools(g)),
        31 => B::GetProposals(tagged_set(g, 5, gov_action_id)),
        32 => B::GetRatifyState,
        33 => B::GetFuturePParams,
        34 => B::GetBigLedgerPeerSnapshot,
        35 => B::GetLedgerPeerSnapshot(if g.bool() { q::LedgerPeerSnapshotKind::All } else { q::LedgerPeerSnapshotKind::Big }),
        36 => B::GetPoolDistr2(smaybe_pools(g)),
        37 => B::GetStakeDistribution2,
        _ => B::GetDRepsDelegations(tagged_set(g, 5, drep)),
    }
}
pub fn ledger_query(g: &mut G) -> q::LedgerQuery {
    match g.pick(&T_LEDGERQUERY) {
        0 => q::LedgerQuery::BlockQuery(if g.rng.chance(1, 5) { g.u16() } else { g.rng.below(8) as u16 }, block_query(g)),
        _ => q::LedgerQuery::HardForkQuery(hard_fork_query(g)),
    }
}
pub fn request(g: &mut G) -> q::Request {
    match g.pick(&T_REQUEST) {
        0 => q::Request::LedgerQuery(ledger_query(g)),
        1 => q::Request::GetSystemStart,
        2 => q::Request::GetChainBlockNo,
        _ => q::Request::GetChainPoint,
    }
}
/// encoding of a typed request (falls back to a generic item if the encoder fails)
pub fn request_bytes(g: &mut G) -> Vec<u8> {
    let r = request(g);
    match enc(&r) {
        Ok(b) if cbor::strict_check(&b).is_ok() => b,
        _ => g.any_cbor().unwrap(),
    }
}

// ---- typed results (those whose fields are public) ------------------------------------------

pub fn system_start(g: &mut G) -> q::SystemStart {
    g.pick(&T_SYSTEMSTART);
    q::SystemStart { year: big_int(g), day_of_year: g.i64(), picoseconds_of_day: big_int(g) }
}
pub fn chain_block_no(g: &mut G) -> q::ChainBlockNumber {
    g.pick(&T_CHAINBLOCKNO);
    q::ChainBlockNumber { slot_timeline: g.u32(), block_number: g.u32() }
}
pub fn stake_distribution(g: &mut G) -> q::StakeDistribution {
    g.pick(&T_STAKEDISTR);
    kvp(g, 5, |g| (Bytes::from(g.rng.bytes(28)), q::Pool { stakes: rational(g), hashes: Bytes::from(g.rng.bytes(32)) }))
}
pub fn account_state(g: &mut G) -> q::AccountState {
    g.pick(&T_ACCOUNTSTATE);
    q::AccountState { treasury: coin(g), reserves: coin(g) }
}
pub fn genesis_config(g: &mut G) -> q::GenesisConfig {
    g.pick(&T_GENESISCONFIG);
    q::GenesisConfig {
        system_start: system_start(g),
        network_magic: g.u32(),
        network_id: g.u32(),
        active_slots_coefficient: q::Fraction { num: g.u64(), den: g.u64() },
        security_param: g.u32(),
        epoch_length: g.u32(),
        slots_per_kes_period: g.u32(),
        max_kes_evolutions: g.u32(),
        slot_length: g.u32(),
        update_quorum: g.u32(),
        max_lovelace_supply: coin(g),
    }
}
pub fn stake_snapshots(g: &mut G) -> q::StakeSnapshots {
    g.pick(&T_STAKESNAPSHOTS);
    q::StakeSnapshots {
        stake_snapshots: kvp(g, 4, |g| {
            (Bytes::from(g.rng.bytes(28)), q::Stakes { snapshot_mark_pool: g.u64(), snapshot_set_pool: g.u64(), snapshot_go_pool: g.u64() })
        }),
        snapshot_stake_mark_total: g.u64(),
        snapshot_stake_set_total: g.u64(),
        snapshot_stake_go_total: g.u64(),
    }
}
pub fn drep_state(g: &mut G) -> q::DRepState {
    g.pick(&T_DREPSTATE);
    q::DRepState { expiry: g.u64(), anchor: smaybe(g, anchor), deposit: coin(g), delegs: tagged_set(g, 4, stake_addr) }
}
pub fn filtered_delegs(g: &mut G) -> q::FilteredDelegsRewards {
    g.pick(&T_FILTEREDDELEGS);
    q::FilteredDelegsRewards { delegs: kvp(g, 4, |g| (stake_addr(g), Bytes::from(g.rng.bytes(28)))), rewards: kvp(g, 4, |g| (stake_addr(g), g.u64())) }
}
pub fn utxo_by_address(g: &mut G) -> q::UTxOByAddress {
    g.pick(&T_UTXOBYADDR);
    kvp(g, 4, |g| (q::UTxO { transaction_id: g.hash32(), index: g.any_uint() }, tx_out(g)))
}
pub fn pool_params(g: &mut G) -> q::PoolParams {
    g.pick(&T_POOLPARAMS);
    q::PoolParams {
        operator: Bytes::from(g.rng.bytes(28)),
        vrf_keyhash: Bytes::from(g.rng.bytes(32)),
        pledge: coin(g),
        cost: coin(g),
        margin: rational(g),
        reward_account: Bytes::from(g.rng.bytes(29)),
        pool_owners: pools(g),
        relays: g.vec(3, relay),
        pool_metadata: nullable(g, pool_metadata),
    }
}
pub fn committee(g: &mut G) -> q::Committee {
    g.pick(&T_COMMITTEE);
    q::Committee { members: g.vec(4, |g| (stake_addr(g), g.u64())).into_iter().collect(), threshold: rational(g) }
}
pub fn committee_authorization(g: &mut G) -> q::CommitteeAuthorization {
    match g.pick(&T_COMMAUTH) {
        0 => q::CommitteeAuthorization::HotCredential(stake_addr(g)),
        _ => q::CommitteeAuthorization::MemberResigned(smaybe(g, anchor)),
    }
}
pub fn hot_cred_auth_status(g: &mut G) -> q::HotCredAuthStatus {
    match g.pick(&T_HOTCRED) {
        0 => q::HotCredAuthStatus::MemberAuthorized(stake_addr(g)),
        1 => q::HotCredAuthStatus::MemberNotAuthorized,
        _ => q::HotCredAuthStatus::MemberResigned(smaybe(g, anchor)),
    }
}
pub fn next_epoch_change(g: &mut G) -> q::NextEpochChange {
    match g.pick(&T_NEXTEPOCH) {
        0 => q::NextEpochChange::ToBeEnacted,
        1 => q::NextEpochChange::ToBeRemoved,
        2 => q::NextEpochChange::NoChangeExpected,
        3 => q::NextEpochChange::ToBeExpired,
        _ => q::NextEpochChange::TermAdjusted(g.u64()),
    }
}
pub fn committee_members_state(g: &mut G) -> q::CommitteeMembersState {
    g.pick(&T_COMMMEMBERS);
    q::CommitteeMembersState {
        committee: g
            .vec(3, |g| {
                (
                    stake_addr(g),
                    q::CommitteeMemberState {
                        hot_cred_auth_status: hot_cred_auth_status(g),
                        status: member_status(g),
                        expiration: smaybe(g, |g| g.u64()),
                        next_epoch_change: next_epoch_change(g),
                    },
                )
            })
            .into_iter()
            .collect(),
        threshold: smaybe(g, rational),
        epoch: g.u64(),
    }
}
pub fn gov_relation(g: &mut G) -> q::GovRelation {
    g.pick(&T_GOVRELATION);
    q::GovRelation {
        pparam_update: smaybe(g, gov_action_id),
        hard_fork: smaybe(g, gov_action_id),
        committee: smaybe(g, gov_action_id),
        constitution: smaybe(g, gov_action_id),
    }
}
pub fn future_pparams(g: &mut G) -> q::FuturePParams {
    match g.pick(&T_FUTUREPP) {
        0 => q::FuturePParams::NoPParamsUpdate,
        1 => q::FuturePParams::DefinitePParamsUpdate(pparams_update(g)),
        _ => q::FuturePParams::PotentialPParamsUpdate(smaybe(g, pparams_update)),
    }
}
pub fn gov_action_state(g: &mut G) -> q::GovActionState {
    g.pick(&T_GOVACTIONSTATE);
    q::GovActionState {
        id: gov_action_id(g),
        committee_votes: g.vec(3, |g| (stake_addr(g), vote(g))).into_iter().collect(),
        drep_votes: g.vec(3, |g| (stake_addr(g), vote(g))).into_iter().collect(),
        stake_pool_votes: g.vec(3, |g| (Bytes::from(g.rng.bytes(28)), vote(g))).into_iter().collect(),
        proposal_procedure: proposal(g),
        proposed_in: g.u64(),
        expires_after: g.u64(),
    }
}

/// encoding of a typed query result (wrapped in the 1-tuple the client helpers expect, half of the time)
pub fn result_bytes(g: &mut G) -> Vec<u8> {
    let r: Result<Vec<u8>, Outcome> = match g.rng.below(12) {
        0 => enc(&system_start(g)),
        1 => enc(&chain_block_no(g)),
        2 => enc(&(stake_distribution(g),)),
        3 => enc(&(account_state(g),)),
        4 => enc(&(genesis_config(g),)),
        5 => enc(&(stake_snapshots(g),)),
        6 => enc(&(filtered_delegs(g),)),
        7 => enc(&(utxo_by_address(g),)),
        8 => enc(&(constitution(g),)),
        9 => enc(&n1_point(g)),
        10 => enc(&(protocol_param(g),)),
        _ => enc(&(g.vec(3, gov_action_state),)),
    };
    match r {
        Ok(b) if cbor::strict_check(&b).is_ok() => b,
        _ => g.any_cbor().unwrap(),
    }
}

pub fn registry(v: &mut Vec<TypeEntry>) {
    let grp = "localstate";
    reg!(v, "v1", grp, &T_STAKEADDR, false, stake_addr);
    reg!(v, "v1", grp, &T_EITHER, false, either);
    reg!(v, "v1", grp, &T_DREP, false, drep);
    reg!(v, "v1", grp, &T_GOVACTIONID, false, gov_action_id);
    reg!(v, "v1", grp, &T_MEMBERSTATUS, false, member_status);
    reg!(v, "v1", grp, &T_TXIN, false, tx_in);
    reg!(v, "v1", grp, &T_SMAYBE_POOLS, false, smaybe_pools);
    reg!(v, "v1", grp, &T_RATIONAL, false, rational);
    reg!(v, "v1", grp, &T_ANCHOR, false, anchor);
    reg!(v, "v1", grp, &T_POOLMETADATA, false, pool_metadata);
    reg!(v, "v1", grp, &T_RELAY, false, relay);
    reg!(v, "v1", grp, &T_EXUNITS, false, ex_units);
    reg!(v, "v1", grp, &T_EXUNITPRICES, false, ex_unit_prices);
    reg!(v, "v1", grp, &T_POOLVT, false, pool_vt);
    reg!(v, "v1", grp, &T_DREPVT, false, drep_vt);
    reg!(v, "v1", grp, &T_COSTMODELS, false, cost_models);
    reg!(v, "v1", grp, &T_PPUPDATE, false, pparams_update);
    reg!(v, "v1", grp, &T_PROTOCOLPARAM, false, protocol_param);
    reg!(v, "v1", grp, &T_CONSTITUTION, false, constitution);
    reg!(v, "v1", grp, &T_VOTE, false, vote);
    reg!(v, "v1", grp, &T_CREDENTIAL, false, credential);
    reg!(v, "v1", grp, &T_STAKECRED, false, stake_cred);
    reg!(v, "v1", grp, &T_GOVACTION, false, gov_action);
    reg!(v, "v1", grp, &T_PROPOSAL, false, proposal);
    reg!(v, "v1", grp, &T_VALUE, false, value);
    reg!(v, "v1", grp, &T_BIGINT, false, big_int);
    reg!(v, "v1", grp, &T_PLUTUSDATA, false, plutus_data);
    reg!(v, "v1", grp, &T_CONSTR, false, constr);
    reg!(v, "v1", grp, &T_DATUMOPTION, false, datum_option);
    reg!(v, "v1", grp, &T_NATIVESCRIPT, false, native_script);
    reg!(v, "v1", grp, &T_SCRIPTREF, false, script_ref);
    reg!(v, "v1", grp, &T_TXOUT, false, tx_out);
    reg!(v, "v1", grp, &T_LANGUAGE, false, language);
    reg!(v, "v1", grp, &T_VOTER, false, voter);
    reg!(v, "v1", grp, &T_CERTIFICATE, false, certificate);
    reg!(v, "v1", grp, &T_HARDFORKQUERY, false, hard_fork_query);
    reg!(v, "v1", grp, &T_BLOCKQUERY, false, block_query);
    reg!(v, "v1", grp, &T_LEDGERQUERY, false, ledger_query);
    reg!(v, "v1", grp, &T_REQUEST, false, request);
    reg!(v, "v1", grp, &T_SYSTEMSTART, false, system_start);
    reg!(v, "v1", grp, &T_CHAINBLOCKNO, false, chain_block_no);
    reg!(v, "v1", grp, &T_STAKEDISTR, false, stake_distribution);
    reg!(v, "v1", grp, &T_ACCOUNTSTATE, false, account_state);
    reg!(v, "v1", grp, &T_GENESISCONFIG, false, genesis_config);
    reg!(v, "v1", grp, &T_STAKESNAPSHOTS, false, stake_snapshots);
    reg!(v, "v1", grp, &T_DREPSTATE, false, drep_state);
    reg!(v, "v1", grp, &T_FILTEREDDELEGS, false, filtered_delegs);
    reg!(v, "v1", grp, &T_UTXOBYADDR, false, utxo_by_address);
    reg!(v, "v1", grp, &T_POOLPARAMS, false, pool_params);
    reg!(v, "v1", grp, &T_COMMITTEE, false, committee);
    reg!(v, "v1", grp, &T_COMMAUTH, false, committee_authorization);
    reg!(v, "v1", grp, &T_HOTCRED, false, hot_cred_auth_status);
    reg!(v, "v1", grp, &T_NEXTEPOCH, false, next_epoch_change);
    reg!(v, "v1", grp, &T_COMMMEMBERS, false, committee_members_state);
    reg!(v, "v1", grp, &T_GOVRELATION, false, gov_relation);
    reg!(v, "v1", grp, &T_FUTUREPP, false, future_pparams);
    reg!(v, "v1", grp, &T_GOVACTIONSTATE, false, gov_action_state);
}
