//! Corpus: every artefact of /repo/test_data. Chunk files are split with the own CBOR
//! walker (not with pallas-hardano).

use crate::cbor;
use std::path::PathBuf;

pub fn repo() -> PathBuf {
    PathBuf::from(std::env::var("PV_REPO").unwrap_or_else(|_| "/repo".to_string()))
}
pub fn test_data() -> PathBuf {
    repo().join("test_data")
}

#[derive(Clone)]
pub struct Artefact {
    pub name: String,
    pub bytes: Vec<u8>,
}

fn load_hex_ext(ext: &str) -> Vec<Artefact> {
    let mut v = vec![];
    let mut names: Vec<_> = std::fs::read_dir(test_data())
        .expect("test_data")
        .filter_map(|e| e.ok())
        .map(|e| e.file_name().to_string_lossy().to_string())
        .filter(|n| n.ends_with(ext))
        .collect();
    names.sort();
    for n in names {
        let s = std::fs::read_to_string(test_data().join(&n)).unwrap();
        if let Ok(b) = hex::decode(s.trim()) {
            v.push(Artefact { name: n, bytes: b });
        }
    }
    v
}

/// `*.block` files (hex, `[era, block]` wrapped)
pub fn blocks() -> Vec<Artefact> {
    load_hex_ext(".block")
}
/// `*.tx` files (hex)
pub fn txs() -> Vec<Artefact> {
    load_hex_ext(".tx")
}
pub fn headers() -> Vec<Artefact> {
    load_hex_ext(".header")
}
pub fn plutus_scripts() -> Vec<Artefact> {
    load_hex_ext(".plutus")
}

/// blocks of the three immutable-DB chunk files, split with the own walker
pub fn chunk_blocks() -> Vec<Artefact> {
    let mut out = vec![];
    for n in ["01285", "01836", "02019"] {
        let raw = std::fs::read(test_data().join(format!("{n}.chunk"))).unwrap();
        let items = cbor::parse_seq(&raw).expect("chunk file is a CBOR sequence");
        for (i, it) in items.iter().enumerate() {
            out.push(Artefact { name: format!("{n}.chunk#{i}"), bytes: raw[it.start..it.end].to_vec() });
        }
    }
    out
}

/// all wrapped blocks: test_data/*.block + chunk blocks (every `step`-th chunk block)
pub fn all_blocks(step: usize) -> Vec<Artefact> {
    let mut v = blocks();
    for (i, b) in chunk_blocks().into_iter().enumerate() {
        if i % step.max(1) == 0 {
            v.push(b);
        }
    }
    v
}
