//! Mini-protocol automata of the protocols the network2 initiator speaks, written from the
//! Ouroboros network specification (DESIGN.md Appendix B) — NOT from the pallas code.
//!
//! A protocol state is a `&'static str`; `agency(proto, state)` says who may send;
//! `step(proto, state, kind)` is the transition function over message *kinds*.  The message
//! kind of a concrete pallas message is obtained with `kind_of` (pure classification by
//! variant; tx-submission `RequestTxIds` is split by its blocking flag).
//!
//! ```text
//! handshake      C:Propose   --Propose--> Confirm
//!                S:Confirm   --Accept | Refuse | QueryReply--> Done
//! chain-sync     C:Idle      --RequestNext--> CanAwait | --FindIntersect--> Intersect | --Done--> Done
//!                S:CanAwait  --AwaitReply--> MustReply | --RollForward | RollBackward--> Idle
//!                S:MustReply --RollForward | RollBackward--> Idle
//!                S:Intersect --IntersectFound | IntersectNotFound--> Idle
//! block-fetch    C:Idle      --RequestRange--> Busy | --ClientDone--> Done
//!                S:Busy      --StartBatch--> Streaming | --NoBlocks--> Idle
//!                S:Streaming --Block--> Streaming | --BatchDone--> Idle
//! tx-submission2 C:Init      --Init--> Idle
//!                S:Idle      --RequestTxIdsBlocking--> TxIdsBlocking
//!                            --RequestTxIdsNonBlocking--> TxIdsNonBlocking | --RequestTxs--> Txs
//!                C:TxIdsBlocking    --ReplyTxIds--> Idle | --Done--> Done
//!                C:TxIdsNonBlocking --ReplyTxIds--> Idle
//!                C:Txs       --ReplyTxs--> Idle
//! keep-alive     C:Client    --KeepAlive--> Server | --Done--> Done
//!                S:Server    --ResponseKeepAlive--> Client
//! peer-sharing   C:Idle      --ShareRequest--> Busy | --Done--> Done
//!                S:Busy      --SharePeers--> Idle
//! leios-notify   C:Idle      --RequestNext--> Busy | --Done--> Done
//!                S:Busy      --BlockAnnouncement | BlockOffer | BlockTxsOffer | Votes--> Idle
//! leios-fetch    C:Idle      --BlockRequest--> Busy(Block) | --BlockTxsRequest--> Busy(BlockTxs) | --Done--> Done
//!                S:Busy(Block) --Block--> Idle      S:Busy(BlockTxs) --BlockTxs--> Idle
//! ```

use pallas_network2::behavior::AnyMessage;
use pallas_network2::protocol as proto;

#[derive(Clone, Copy, PartialEq, Eq, Hash, Debug, PartialOrd, Ord)]
pub enum Proto {
    Handshake,
    ChainSync,
    BlockFetch,
    TxSubmission,
    KeepAlive,
    PeerSharing,
    LeiosNotify,
    LeiosFetch,
}

pub const ALL_PROTOS: [Proto; 8] = [
    Proto::Handshake,
    Proto::ChainSync,
    Proto::BlockFetch,
    Proto::TxSubmission,
    Proto::KeepAlive,
    Proto::PeerSharing,
    Proto::LeiosNotify,
    Proto::LeiosFetch,
];

impl Proto {
    pub fn name(self) -> &'static str {
        match self {
            Proto::Handshake => "handshake",
            Proto::ChainSync => "chainsync",
            Proto::BlockFetch => "blockfetch",
            Proto::TxSubmission => "txsubmission",
            Proto::KeepAlive => "keepalive",
            Proto::PeerSharing => "peersharing",
            Proto::LeiosNotify => "leiosnotify",
            Proto::LeiosFetch => "leiosfetch",
        }
    }
    pub fn index(self) -> usize {
        ALL_PROTOS.iter().position(|p| *p == self).unwrap()
    }
}

#[derive(Clone, Copy, PartialEq, Eq, Debug)]
pub enum Agency {
    /// the initiator (TCP client) may send
    Client,
    /// the responder may send
    Server,
    /// terminal state
    Nobody,
}

pub type St = &'static str;
pub type Kind = &'static str;

/// one row of a table: (state, who has agency, [(message kind, next state)])
type Row = (St, Agency, &'static [(Kind, St)]);

use Agency::{Client as C, Nobody as N, Server as S};

const HANDSHAKE: &[Row] = &[
    ("Propose", C, &[("Propose", "Confirm")]),
    ("Confirm", S, &[("Accept", "Done"), ("Refuse", "Done"), ("QueryReply", "Done")]),
    ("Done", N, &[]),
];

const CHAINSYNC: &[Row] = &[
    ("Idle", C, &[("RequestNext", "CanAwait"), ("FindIntersect", "Intersect"), ("Done", "Done")]),
    ("CanAwait", S, &[("AwaitReply", "MustReply"), ("RollForward", "Idle"), ("RollBackward", "Idle")]),
    ("MustReply", S, &[("RollForward", "Idle"), ("RollBackward", "Idle")]),
    ("Intersect", S, &[("IntersectFound", "Idle"), ("IntersectNotFound", "Idle")]),
    ("Done", N, &[]),
];

const BLOCKFETCH: &[Row] = &[
    ("Idle", C, &[("RequestRange", "Busy"), ("ClientDone", "Done")]),
    ("Busy", S, &[("StartBatch", "Streaming"), ("NoBlocks", "Idle")]),
    ("Streaming", S, &[("Block", "Streaming"), ("BatchDone", "Idle")]),
    ("Done", N, &[]),
];

const TXSUBMISSION: &[Row] = &[
    ("Init", C, &[("Init", "Idle")]),
    (
        "Idle",
        S,
        &[("RequestTxIdsBlocking", "TxIdsBlocking"), ("RequestTxIdsNonBlocking", "TxIdsNonBlocking"), ("RequestTxs", "Txs")],
    ),
    ("TxIdsBlocking", C, &[("ReplyTxIds", "Idle"), ("Done", "Done")]),
    ("TxIdsNonBlocking", C, &[("ReplyTxIds", "Idle")]),
    ("Txs", C, &[("ReplyTxs", "Idle")]),
    ("Done", N, &[]),
];

const KEEPALIVE: &[Row] = &[
    ("Client", C, &[("KeepAlive", "Server"), ("Done", "Done")]),
    ("Server", S, &[("ResponseKeepAlive", "Client")]),
    ("Done", N, &[]),
];

const PEERSHARING: &[Row] = &[
    ("Idle", C, &[("ShareRequest", "Busy"), ("Done", "Done")]),
    ("Busy", S, &[("SharePeers", "Idle")]),
    ("Done", N, &[]),
];

const LEIOSNOTIFY: &[Row] = &[
    ("Idle", C, &[("RequestNext", "Busy"), ("Done", "Done")]),
    ("Busy", S, &[("BlockAnnouncement", "Idle"), ("BlockOffer", "Idle"), ("BlockTxsOffer", "Idle"), ("Votes", "Idle")]),
    ("Done", N, &[]),
];

const LEIOSFETCH: &[Row] = &[
    ("Idle", C, &[("BlockRequest", "Busy(Block)"), ("BlockTxsRequest", "Busy(BlockTxs)"), ("Done", "Done")]),
    ("Busy(Block)", S, &[("Block", "Idle")]),
    ("Busy(BlockTxs)", S, &[("BlockTxs", "Idle")]),
    ("Done", N, &[]),
];

pub fn table(p: Proto) -> &'static [Row] {
    match p {
        Proto::Handshake => HANDSHAKE,
        Proto::ChainSync => CHAINSYNC,
        Proto::BlockFetch => BLOCKFETCH,
        Proto::TxSubmission => TXSUBMISSION,
        Proto::KeepAlive => KEEPALIVE,
        Proto::PeerSharing => PEERSHARING,
        Proto::LeiosNotify => LEIOSNOTIFY,
        Proto::LeiosFetch => LEIOSFETCH,
    }
}

pub fn initial(p: Proto) -> St {
    table(p)[0].0
}

fn row(p: Proto, st: St) -> &'static Row {
    table(p).iter().find(|r| r.0 == st).unwrap_or_else(|| panic!("p2pspec: unknown state {st} of {}", p.name()))
}

pub fn agency(p: Proto, st: St) -> Agency {
    row(p, st).1
}

/// transition function; `None` = the message kind is not allowed in this state
pub fn step(p: Proto, st: St, kind: Kind) -> Option<St> {
    row(p, st).2.iter().find(|(k, _)| *k == kind).map(|(_, n)| *n)
}

/// message kinds allowed in `st`
pub fn allowed(p: Proto, st: St) -> &'static [(Kind, St)] {
    row(p, st).2
}

/// who is ever allowed to send this message kind (a kind belongs to exactly one side,
/// except the terminal `Done` of tx-submission which is a client message like the others)
pub fn sender_of(p: Proto, kind: Kind) -> Option<Agency> {
    for r in table(p) {
        if r.2.iter().any(|(k, _)| *k == kind) {
            return Some(r.1);
        }
    }
    None
}

/// all (kind, sender) pairs of a protocol
pub fn kinds(p: Proto) -> Vec<(Kind, Agency)> {
    let mut out: Vec<(Kind, Agency)> = vec![];
    for r in table(p) {
        for (k, _) in r.2 {
            if !out.iter().any(|(x, _)| x == k) {
                out.push((k, r.1));
            }
        }
    }
    out
}

/// classification of a concrete pallas-network2 message: protocol + kind name
pub fn kind_of(m: &AnyMessage) -> (Proto, Kind) {
    use proto::{blockfetch as bf, chainsync as cs, handshake as hs, keepalive as ka, leiosfetch as lf, leiosnotify as ln, peersharing as ps, txsubmission as tx};
    match m {
        AnyMessage::Handshake(x) => (
            Proto::Handshake,
            match x {
                hs::Message::Propose(_) => "Propose",
                hs::Message::Accept(..) => "Accept",
                hs::Message::Refuse(_) => "Refuse",
                hs::Message::QueryReply(_) => "QueryReply",
            },
        ),
        AnyMessage::KeepAlive(x) => (
            Proto::KeepAlive,
            match x {
                ka::Message::KeepAlive(_) => "KeepAlive",
                ka::Message::ResponseKeepAlive(_) => "ResponseKeepAlive",
                ka::Message::Done => "Done",
            },
        ),
        AnyMessage::ChainSync(x) => (
            Proto::ChainSync,
            match x {
                cs::Message::RequestNext => "RequestNext",
                cs::Message::AwaitReply => "AwaitReply",
                cs::Message::RollForward(..) => "RollForward",
                cs::Message::RollBackward(..) => "RollBackward",
                cs::Message::FindIntersect(_) => "FindIntersect",
                cs::Message::IntersectFound(..) => "IntersectFound",
                cs::Message::IntersectNotFound(_) => "IntersectNotFound",
                cs::Message::Done => "Done",
            },
        ),
        AnyMessage::PeerSharing(x) => (
            Proto::PeerSharing,
            match x {
                ps::Message::ShareRequest(_) => "ShareRequest",
                ps::Message::SharePeers(_) => "SharePeers",
                ps::Message::Done => "Done",
            },
        ),
        AnyMessage::BlockFetch(x) => (
            Proto::BlockFetch,
            match x {
                bf::Message::RequestRange(_) => "RequestRange",
                bf::Message::ClientDone => "ClientDone",
                bf::Message::StartBatch => "StartBatch",
                bf::Message::NoBlocks => "NoBlocks",
                bf::Message::Block(_) => "Block",
                bf::Message::BatchDone => "BatchDone",
            },
        ),
        AnyMessage::TxSubmission(x) => (
            Proto::TxSubmission,
            match x {
                tx::Message::Init => "Init",
                tx::Message::RequestTxIds(true, ..) => "RequestTxIdsBlocking",
                tx::Message::RequestTxIds(false, ..) => "RequestTxIdsNonBlocking",
                tx::Message::ReplyTxIds(_) => "ReplyTxIds",
                tx::Message::RequestTxs(_) => "RequestTxs",
                tx::Message::ReplyTxs(_) => "ReplyTxs",
                tx::Message::Done => "Done",
            },
        ),
        AnyMessage::LeiosNotify(x) => (
            Proto::LeiosNotify,
            match x {
                ln::Message::RequestNext => "RequestNext",
                ln::Message::BlockAnnouncement(_) => "BlockAnnouncement",
                ln::Message::BlockOffer(..) => "BlockOffer",
                ln::Message::BlockTxsOffer(_) => "BlockTxsOffer",
                ln::Message::Votes(_) => "Votes",
                ln::Message::Done => "Done",
            },
        ),
        AnyMessage::LeiosFetch(x) => (
            Proto::LeiosFetch,
            match x {
                lf::Message::BlockRequest(_) => "BlockRequest",
                lf::Message::Block(_) => "Block",
                lf::Message::BlockTxsRequest(..) => "BlockTxsRequest",
                lf::Message::BlockTxs { .. } => "BlockTxs",
                lf::Message::Done => "Done",
            },
        ),
    }
}

/// The eight automata of one connection (one per mini-protocol).
#[derive(Clone, Debug, PartialEq, Eq, Hash)]
pub struct ConnSpec {
    pub st: [St; 8],
}

impl Default for ConnSpec {
    fn default() -> Self {
        Self::new()
    }
}

#[derive(Clone, Copy, Debug, PartialEq, Eq)]
pub enum Verdict {
    /// allowed: the automaton moved to this state
    Ok(St),
    /// the sender does not have agency in the current state
    NoAgency,
    /// the sender has agency but this message kind is not allowed in the current state
    NotAllowed,
}

impl ConnSpec {
    pub fn new() -> Self {
        let mut st = [""; 8];
        for p in ALL_PROTOS {
            st[p.index()] = initial(p);
        }
        ConnSpec { st }
    }
    pub fn state(&self, p: Proto) -> St {
        self.st[p.index()]
    }
    /// would `who` be allowed to send `kind` now? (does not move)
    pub fn check(&self, p: Proto, who: Agency, kind: Kind) -> Verdict {
        let st = self.state(p);
        if agency(p, st) != who {
            return Verdict::NoAgency;
        }
        match step(p, st, kind) {
            Some(n) => Verdict::Ok(n),
            None => Verdict::NotAllowed,
        }
    }
    /// check and, when allowed, move
    pub fn advance(&mut self, p: Proto, who: Agency, kind: Kind) -> Verdict {
        let v = self.check(p, who, kind);
        if let Verdict::Ok(n) = v {
            self.st[p.index()] = n;
        }
        v
    }
    pub fn fingerprint(&self) -> u64 {
        let mut h = 0xcbf29ce484222325u64;
        for s in self.st {
            for b in s.as_bytes() {
                h = (h ^ *b as u64).wrapping_mul(0x100000001b3);
            }
            h = (h ^ 0xff).wrapping_mul(0x100000001b3);
        }
        h
    }
}

/// internal consistency of the tables (every next state exists, every state reachable,
/// agency of a state with outgoing messages is Client or Server). Returns problems found.
pub fn self_check() -> Vec<String> {
    let mut bad = vec![];
    for p in ALL_PROTOS {
        let t = table(p);
        let mut reach = vec![t[0].0];
        let mut i = 0;
        while i < reach.len() {
            let r = t.iter().find(|r| r.0 == reach[i]);
            match r {
                None => bad.push(format!("{}: next state {} undefined", p.name(), reach[i])),
                Some(r) => {
                    if r.1 == Agency::Nobody && !r.2.is_empty() {
                        bad.push(format!("{}: terminal state {} has messages", p.name(), r.0));
                    }
                    if r.1 != Agency::Nobody && r.2.is_empty() {
                        bad.push(format!("{}: state {} has agency but no message", p.name(), r.0));
                    }
                    for (_, n) in r.2 {
                        if !reach.contains(n) {
                            reach.push(n);
                        }
                    }
                }
            }
            i += 1;
        }
        for r in t {
            if !reach.contains(&r.0) {
                bad.push(format!("{}: state {} unreachable", p.name(), r.0));
            }
        }
    }
    bad
}
