//! Shared helpers for the pallas-math properties (C15, C16, C17): generators of fixed-point
//! arguments as big integers (value * 10^precision, built digit-wise so that no floating point
//! is involved), the JSON-lines event log read by the offline python oracles, and the replay
//! helper that runs the oracle on a single event.

use crate::prng::Rng;
use num_bigint::BigInt;
use serde_json::Value;
use std::io::Write;
use std::path::{Path, PathBuf};
use std::str::FromStr;

pub fn big(s: &str) -> BigInt {
    BigInt::from_str(s).expect("decimal integer")
}

pub fn pow10(k: u32) -> BigInt {
    BigInt::from(10u32).pow(k)
}

/// the printed form `-12.345` of a pallas decimal -> raw integer (digits without the point)
pub fn unprint(s: &str) -> BigInt {
    let t: String = s.chars().filter(|c| *c != '.').collect();
    big(&t)
}

/// a positive integer with exactly `nd` decimal digits, in one of several digit styles
pub fn digits(rng: &mut Rng, nd: usize) -> BigInt {
    let nd = nd.max(1);
    let mut s = String::with_capacity(nd);
    match rng.below(10) {
        // few significant digits followed by zeros (0.05, 1200, ...)
        0..=2 => {
            let sig = 1 + rng.usize_below(6.min(nd));
            for i in 0..nd {
                let d = if i == 0 { 1 + rng.below(9) } else if i < sig { rng.below(10) } else { 0 };
                s.push((b'0' + d as u8) as char);
            }
        }
        // all nines
        3 => {
            for _ in 0..nd {
                s.push('9');
            }
        }
        // power of ten +- small
        4 => {
            let p = pow10(nd as u32 - 1);
            let v = if nd > 1 && rng.bool() { p + BigInt::from(rng.below(3)) } else { pow10(nd as u32) - BigInt::from(1 + rng.below(3)) };
            let t = v.to_string();
            if t.len() == nd {
                return v;
            }
            return pow10(nd as u32 - 1);
        }
        // random digits
        _ => {
            for i in 0..nd {
                let d = if i == 0 { 1 + rng.below(9) } else { rng.below(10) };
                s.push((b'0' + d as u8) as char);
            }
        }
    }
    big(&s)
}

/// positive fixed-point value (scale 10^prec) whose magnitude lies in decade `d`:
/// 10^d <= v < 10^(d+1).  Requires prec + d >= 0.
pub fn in_decade(rng: &mut Rng, prec: i32, d: i32) -> BigInt {
    let nd = (prec + d + 1).max(1) as usize;
    digits(rng, nd)
}

/// log-uniform magnitude over decades lo..=hi (inclusive), scale 10^34
pub fn log_uniform(rng: &mut Rng, lo: i32, hi: i32) -> BigInt {
    let d = rng.irange(lo as i64, hi as i64) as i32;
    in_decade(rng, 34, d)
}

/// uniform in [0, hi_raw] with all digits random
pub fn uniform_below(rng: &mut Rng, hi_raw: &BigInt) -> BigInt {
    let nd = hi_raw.to_string().len() + 2;
    let mut s = String::new();
    for _ in 0..nd {
        s.push((b'0' + rng.below(10) as u8) as char);
    }
    big(&s) % (hi_raw + BigInt::from(1))
}

/// rough natural logarithm of |v| / 10^34 (for workload shaping only, never for verdicts)
pub fn approx_ln(v: &BigInt) -> f64 {
    let s = v.magnitude().to_string();
    if s == "0" {
        return f64::NEG_INFINITY;
    }
    let lead: f64 = s[..s.len().min(15)].parse().unwrap_or(1.0);
    let lead_digits = s.len().min(15) as f64;
    let log10 = lead.log10() - (lead_digits - 1.0) + (s.len() as f64 - 1.0) - 34.0;
    log10 * std::f64::consts::LN_10
}

/// rough value of v / 10^34 as f64
pub fn approx_f64(v: &BigInt) -> f64 {
    let l = approx_ln(v);
    let m = l.exp();
    if v.sign() == num_bigint::Sign::Minus {
        -m
    } else {
        m
    }
}

pub struct EventLog {
    w: std::io::BufWriter<std::fs::File>,
    pub path: PathBuf,
    pub n: u64,
}

impl EventLog {
    pub fn create(out: &Path, shard: usize) -> EventLog {
        let path = out.join(format!("events-{shard}.jsonl"));
        let f = std::fs::File::create(&path).expect("create event log");
        EventLog { w: std::io::BufWriter::with_capacity(1 << 20, f), path, n: 0 }
    }
    pub fn log(&mut self, ev: &Value) {
        serde_json::to_writer(&mut self.w, ev).expect("write event");
        self.w.write_all(b"\n").expect("write event");
        self.n += 1;
    }
    pub fn close(mut self) -> u64 {
        self.w.flush().expect("flush event log");
        self.n
    }
}

/// Replay support: run the offline oracle on one re-executed event and print its findings.
pub fn replay_with_oracle(out: &Path, oracle: &str, prop: &str, ev: &Value) {
    let inp = out.join("replay-event.jsonl");
    let res = out.join("replay-oracle.json");
    std::fs::write(&inp, format!("{}\n", ev)).expect("write replay event");
    let root = std::env::var("PV_VERIF_ROOT").unwrap_or_else(|_| ".".to_string());
    let script = Path::new(&root).join(oracle);
    let py = if std::process::Command::new("python3-vt").arg("--version").output().is_ok() { "python3-vt" } else { "python3" };
    let st = std::process::Command::new(py).arg(&script).arg("--in").arg(&inp).arg("--out").arg(&res).arg("--prop").arg(prop).status();
    match st {
        Ok(s) if s.success() => {
            let v: Value = serde_json::from_slice(&std::fs::read(&res).unwrap_or_default()).unwrap_or(Value::Null);
            let vs = v["violations"].as_array().cloned().unwrap_or_default();
            println!("oracle: {} evaluation(s), {} violation(s)", v["evaluations"], vs.len());
            for x in vs {
                println!("  {} :: {}", x["sig"].as_str().unwrap_or("?"), x["what"].as_str().unwrap_or("?"));
            }
        }
        other => println!("oracle could not be run on the replayed event: {other:?}"),
    }
}
