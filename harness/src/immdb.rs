//! Own model of the cardano-node immutable-DB on-disk format (ouroboros-consensus report §8.2.2),
//! independent of pallas-hardano: block splitting with the own CBOR walker, header hash with the
//! own Blake2b, CRC32 with the own implementation, own encoders of `.primary` / `.secondary`.
//!
//! `.primary`  : 1 version byte (1) + (slots+1) big-endian u32 offsets into the secondary file;
//!               relative slot r is occupied iff off[r+1] > off[r]; relative slot 0 is reserved for
//!               an EBB, a block at absolute slot s of chunk n sits at r = s - n*chunk_size + 1.
//! `.secondary`: 56-byte entries: block_offset u64, header_offset u16, header_size u16,
//!               checksum u32 (CRC32 of the block), header_hash [32], block_or_ebb u64 (slot).
//! `.chunk`    : concatenation of the blocks.

use crate::{cbor, corpus, refhash};
use std::path::Path;

pub const ENTRY: usize = 56;
pub const CHUNK_SLOTS: u64 = 21600;

#[derive(Clone)]
pub struct Blk {
    pub bytes: Vec<u8>,
    pub slot: u64,
    pub hash: [u8; 32],
    pub header_off: u16,
    pub header_size: u16,
    pub crc: u32,
    /// index in the global corpus list
    pub gidx: usize,
}

/// Parse one `[era, [header, ...]]` block with the own walker.
pub fn parse_block(bytes: &[u8], gidx: usize) -> Result<Blk, String> {
    let it = cbor::parse(bytes).map_err(|e| format!("{e:?}"))?;
    if !it.is_array() || it.children.len() != 2 {
        return Err("block is not [era, block]".into());
    }
    let inner = &it.children[1];
    if !inner.is_array() || inner.children.is_empty() {
        return Err("inner block is not an array".into());
    }
    let header = &inner.children[0];
    if !header.is_array() || header.children.is_empty() {
        return Err("header is not an array".into());
    }
    let body = &header.children[0];
    if !body.is_array() || body.children.len() < 2 || body.children[1].major != 0 {
        return Err("header body has no slot".into());
    }
    Ok(Blk {
        bytes: bytes.to_vec(),
        slot: body.children[1].arg,
        hash: refhash::blake2b_256(header.bytes(bytes)),
        header_off: header.start as u16,
        header_size: (header.end - header.start) as u16,
        crc: refhash::crc32(bytes),
        gidx,
    })
}

pub const CHUNK_NAMES: [&str; 3] = ["01285", "01836", "02019"];

/// The blocks of the three shipped chunk files, per file, split with the own walker.
pub fn load_chunks() -> Result<Vec<Vec<Blk>>, String> {
    let mut out = vec![];
    let mut g = 0usize;
    for n in CHUNK_NAMES {
        let raw = std::fs::read(corpus::test_data().join(format!("{n}.chunk"))).map_err(|e| e.to_string())?;
        let items = cbor::parse_seq(&raw).map_err(|e| format!("{n}.chunk: {e:?}"))?;
        let mut v = vec![];
        for it in items {
            v.push(parse_block(&raw[it.start..it.end], g)?);
            g += 1;
        }
        out.push(v);
    }
    Ok(out)
}

pub fn secondary_entry(block_offset: u64, b: &Blk) -> [u8; ENTRY] {
    let mut e = [0u8; ENTRY];
    e[0..8].copy_from_slice(&block_offset.to_be_bytes());
    e[8..10].copy_from_slice(&b.header_off.to_be_bytes());
    e[10..12].copy_from_slice(&b.header_size.to_be_bytes());
    e[12..16].copy_from_slice(&b.crc.to_be_bytes());
    e[16..48].copy_from_slice(&b.hash);
    e[48..56].copy_from_slice(&b.slot.to_be_bytes());
    e
}

pub fn secondary_bytes(blocks: &[&Blk]) -> Vec<u8> {
    let mut out = Vec::with_capacity(blocks.len() * ENTRY);
    let mut off = 0u64;
    for b in blocks {
        out.extend_from_slice(&secondary_entry(off, b));
        off += b.bytes.len() as u64;
    }
    out
}

/// `rel[i]` = relative slot of block i (strictly increasing); `n_offsets` = number of offsets
/// to write (>= last rel + 2).
pub fn primary_bytes(rel: &[u32], n_offsets: usize) -> Vec<u8> {
    let mut out = Vec::with_capacity(1 + 4 * n_offsets);
    out.push(1u8);
    let mut k = 0usize; // number of blocks with rel < r
    for r in 0..n_offsets {
        while k < rel.len() && (rel[k] as usize) < r {
            k += 1;
        }
        out.extend_from_slice(&((k * ENTRY) as u32).to_be_bytes());
    }
    out
}

pub fn chunk_bytes(blocks: &[&Blk]) -> Vec<u8> {
    let mut out = vec![];
    for b in blocks {
        out.extend_from_slice(&b.bytes);
    }
    out
}

/// The three files of one chunk. `base` = absolute slot of relative slot 1 (i.e. n*chunk_size for a
/// real chunk); `finalised` = write all 21602 offsets (when they fit) instead of stopping after
/// the last block.
pub fn chunk_files(blocks: &[&Blk], base: u64, finalised: bool) -> (Vec<u8>, Vec<u8>, Vec<u8>) {
    let rel: Vec<u32> = blocks.iter().map(|b| (b.slot - base + 1) as u32).collect();
    let need = rel.last().map(|r| *r as usize + 2).unwrap_or(1);
    let n = if finalised { need.max(CHUNK_SLOTS as usize + 2) } else { need };
    (primary_bytes(&rel, n), secondary_bytes(blocks), chunk_bytes(blocks))
}

pub fn write_chunk(dir: &Path, name: &str, files: &(Vec<u8>, Vec<u8>, Vec<u8>)) -> std::io::Result<()> {
    std::fs::write(dir.join(format!("{name}.primary")), &files.0)?;
    std::fs::write(dir.join(format!("{name}.secondary")), &files.1)?;
    std::fs::write(dir.join(format!("{name}.chunk")), &files.2)?;
    Ok(())
}

/// Pins the own encoders: regenerating the index files of the two complete shipped chunks from
/// their blocks alone must reproduce the shipped files byte for byte.
pub fn selftest(chunks: &[Vec<Blk>]) -> Result<(), String> {
    for (ci, n) in CHUNK_NAMES.iter().enumerate().take(2) {
        let num: u64 = n.parse().unwrap();
        let refs: Vec<&Blk> = chunks[ci].iter().collect();
        let (p, s, c) = chunk_files(&refs, num * CHUNK_SLOTS, true);
        let td = corpus::test_data();
        let sp = std::fs::read(td.join(format!("{n}.primary"))).map_err(|e| e.to_string())?;
        let ss = std::fs::read(td.join(format!("{n}.secondary"))).map_err(|e| e.to_string())?;
        let sc = std::fs::read(td.join(format!("{n}.chunk"))).map_err(|e| e.to_string())?;
        if p != sp {
            return Err(format!("own primary encoder differs from shipped {n}.primary"));
        }
        if s != ss {
            return Err(format!("own secondary encoder differs from shipped {n}.secondary"));
        }
        if c != sc {
            return Err(format!("own chunk concatenation differs from shipped {n}.chunk"));
        }
    }
    Ok(())
}
