//! Mini-protocol automata written from the Ouroboros network specification
//! (DESIGN.md Appendix B). These tables are ORACLES for C23 / C24 / C28: they are written
//! from the specification, never from the pallas sources.
//!
//! # API (everything is `Copy` / `&'static str`, no allocation except the `Vec` results)
//!
//! ```ignore
//! use pv::specs::{Proto, Spec, Agency};
//! let mut s = Spec::new(Proto::ChainSync);       // initial state of the protocol
//! s.state();                                     // "Idle"           (&'static str)
//! s.agency();                                    // Agency::Client   (Client | Server | Nobody)
//! s.allowed();                                   // ["RequestNext","FindIntersect","Done"]
//! s.step("RequestNext")                          // Ok(())  -> state "CanAwait"; Err(()) = illegal, state unchanged
//! s.peek("AwaitReply")                           // Some("MustReply") without moving
//! s.can(Agency::Server, "AwaitReply")            // may that role send this message now?
//! s.is_done();
//! Spec::at(Proto::ChainSync, "MustReply");       // automaton placed in a given state
//! specs::states(p) / specs::messages(p) / specs::initial(p) / specs::agency_of(p, st)
//! specs::next(p, st, msg) / specs::sender_of(p, msg) / specs::shortest_path(p, st)
//! specs::wire_tag(p, msg)                        // CBOR label of the message in the spec's CDDL
//! specs::legal_paths(p, max_len)                 // all spec-legal message sequences of length <= max_len
//! ```
//!
//! State and message *kinds* are plain names. Where the specification distinguishes messages or
//! states by a parameter the name carries it:
//!   * tx-submission2: `RequestTxIdsBlocking` / `RequestTxIdsNonBlocking` (the `blocking` flag);
//!   * local-tx-monitor: states `BusyNextTx` / `BusyHasTx` / `BusyGetSizes`, replies
//!     `ReplyNextTx` / `ReplyHasTx` / `ReplyGetSizes` (only the matching reply is legal);
//!     `MsgAcquire` (state Idle) and `MsgAwaitAcquire` (state Acquired) are two names of the same
//!     wire message `[1]`; [`canon`] maps either name to the one that applies in a state;
//!   * leios-fetch: states `BusyBlock` / `BusyBlockTxs`, replies `Block` / `BlockTxs`;
//!   * keep-alive: the cookie is data, not state: `Server` stands for `Server(c)`; that the reply
//!     carries the same cookie is checked by whoever holds the cookie.
//! `Agency::Client` = initiator side, `Agency::Server` = responder side. In tx-submission2 the
//! *client* (initiator) is the side that owns the transactions: it sends `Init`, `ReplyTxIds`,
//! `ReplyTxs`, `Done`; the server sends the requests.

#[derive(Clone, Copy, PartialEq, Eq, Hash, Debug, PartialOrd, Ord)]
pub enum Proto {
    Handshake,
    ChainSync,
    BlockFetch,
    TxSubmission,
    KeepAlive,
    PeerSharing,
    LocalStateQuery,
    LocalTxSubmission,
    LocalTxMonitor,
    LeiosNotify,
    LeiosFetch,
}

pub const ALL_PROTOS: [Proto; 11] = [
    Proto::Handshake,
    Proto::ChainSync,
    Proto::BlockFetch,
    Proto::TxSubmission,
    Proto::KeepAlive,
    Proto::PeerSharing,
    Proto::LocalStateQuery,
    Proto::LocalTxSubmission,
    Proto::LocalTxMonitor,
    Proto::LeiosNotify,
    Proto::LeiosFetch,
];

impl Proto {
    pub fn name(self) -> &'static str {
        match self {
            Proto::Handshake => "handshake",
            Proto::ChainSync => "chainsync",
            Proto::BlockFetch => "blockfetch",
            Proto::TxSubmission => "txsubmission",
            Proto::KeepAlive => "keepalive",
            Proto::PeerSharing => "peersharing",
            Proto::LocalStateQuery => "localstate",
            Proto::LocalTxSubmission => "localtxsubmission",
            Proto::LocalTxMonitor => "txmonitor",
            Proto::LeiosNotify => "leiosnotify",
            Proto::LeiosFetch => "leiosfetch",
        }
    }
}

#[derive(Clone, Copy, PartialEq, Eq, Hash, Debug)]
pub enum Agency {
    Client,
    Server,
    Nobody,
}

impl Agency {
    pub fn name(self) -> &'static str {
        match self {
            Agency::Client => "client",
            Agency::Server => "server",
            Agency::Nobody => "nobody",
        }
    }
    pub fn other(self) -> Agency {
        match self {
            Agency::Client => Agency::Server,
            Agency::Server => Agency::Client,
            Agency::Nobody => Agency::Nobody,
        }
    }
}

pub type St = &'static str;
pub type MsgKind = &'static str;

use Agency::{Client as C, Nobody as N, Server as S};

/// (state, who has agency); the first entry is the initial state.
type States = &'static [(St, Agency)];
/// (from, message, wire label in the CDDL, to)
type Trans = &'static [(St, MsgKind, u16, St)];

// ---- handshake ------------------------------------------------------------------------
const HS_STATES: States = &[("Propose", C), ("Confirm", S), ("Done", N)];
const HS_TRANS: Trans = &[
    ("Propose", "Propose", 0, "Confirm"),
    ("Confirm", "Accept", 1, "Done"),
    ("Confirm", "Refuse", 2, "Done"),
    ("Confirm", "QueryReply", 3, "Done"),
];

// ---- chain-sync -----------------------------------------------------------------------
const CS_STATES: States = &[("Idle", C), ("CanAwait", S), ("MustReply", S), ("Intersect", S), ("Done", N)];
const CS_TRANS: Trans = &[
    ("Idle", "RequestNext", 0, "CanAwait"),
    ("Idle", "FindIntersect", 4, "Intersect"),
    ("Idle", "Done", 7, "Done"),
    ("CanAwait", "AwaitReply", 1, "MustReply"),
    ("CanAwait", "RollForward", 2, "Idle"),
    ("CanAwait", "RollBackward", 3, "Idle"),
    ("MustReply", "RollForward", 2, "Idle"),
    ("MustReply", "RollBackward", 3, "Idle"),
    ("Intersect", "IntersectFound", 5, "Idle"),
    ("Intersect", "IntersectNotFound", 6, "Idle"),
];

// ---- block-fetch ----------------------------------------------------------------------
const BF_STATES: States = &[("Idle", C), ("Busy", S), ("Streaming", S), ("Done", N)];
const BF_TRANS: Trans = &[
    ("Idle", "RequestRange", 0, "Busy"),
    ("Idle", "ClientDone", 1, "Done"),
    ("Busy", "StartBatch", 2, "Streaming"),
    ("Busy", "NoBlocks", 3, "Idle"),
    ("Streaming", "Block", 4, "Streaming"),
    ("Streaming", "BatchDone", 5, "Idle"),
];

// ---- tx-submission2 -------------------------------------------------------------------
const TX_STATES: States = &[("Init", C), ("Idle", S), ("TxIdsBlocking", C), ("TxIdsNonBlocking", C), ("Txs", C), ("Done", N)];
const TX_TRANS: Trans = &[
    ("Init", "Init", 6, "Idle"),
    ("Idle", "RequestTxIdsBlocking", 0, "TxIdsBlocking"),
    ("Idle", "RequestTxIdsNonBlocking", 0, "TxIdsNonBlocking"),
    ("Idle", "RequestTxs", 2, "Txs"),
    ("TxIdsBlocking", "ReplyTxIds", 1, "Idle"),
    ("TxIdsBlocking", "Done", 4, "Done"),
    ("TxIdsNonBlocking", "ReplyTxIds", 1, "Idle"),
    ("Txs", "ReplyTxs", 3, "Idle"),
];

// ---- keep-alive -----------------------------------------------------------------------
const KA_STATES: States = &[("Client", C), ("Server", S), ("Done", N)];
const KA_TRANS: Trans = &[
    ("Client", "KeepAlive", 0, "Server"),
    ("Client", "Done", 2, "Done"),
    ("Server", "ResponseKeepAlive", 1, "Client"),
];

// ---- peer-sharing ---------------------------------------------------------------------
const PS_STATES: States = &[("Idle", C), ("Busy", S), ("Done", N)];
const PS_TRANS: Trans = &[
    ("Idle", "ShareRequest", 0, "Busy"),
    ("Idle", "Done", 2, "Done"),
    ("Busy", "SharePeers", 1, "Idle"),
];

// ---- local-state-query ----------------------------------------------------------------
const LS_STATES: States = &[("Idle", C), ("Acquiring", S), ("Acquired", C), ("Querying", S), ("Done", N)];
const LS_TRANS: Trans = &[
    ("Idle", "Acquire", 0, "Acquiring"),
    ("Idle", "Done", 7, "Done"),
    ("Acquiring", "Acquired", 1, "Acquired"),
    ("Acquiring", "Failure", 2, "Idle"),
    ("Acquired", "Query", 3, "Querying"),
    ("Acquired", "ReAcquire", 6, "Acquiring"),
    ("Acquired", "Release", 5, "Idle"),
    ("Querying", "Result", 4, "Acquired"),
];

// ---- local-tx-submission --------------------------------------------------------------
const LT_STATES: States = &[("Idle", C), ("Busy", S), ("Done", N)];
const LT_TRANS: Trans = &[
    ("Idle", "SubmitTx", 0, "Busy"),
    ("Idle", "Done", 3, "Done"),
    ("Busy", "AcceptTx", 1, "Idle"),
    ("Busy", "RejectTx", 2, "Idle"),
];

// ---- local-tx-monitor -----------------------------------------------------------------
const TM_STATES: States = &[
    ("Idle", C),
    ("Acquiring", S),
    ("Acquired", C),
    ("BusyNextTx", S),
    ("BusyHasTx", S),
    ("BusyGetSizes", S),
    ("Done", N),
];
const TM_TRANS: Trans = &[
    ("Idle", "Acquire", 1, "Acquiring"),
    ("Idle", "Done", 0, "Done"),
    ("Acquiring", "Acquired", 2, "Acquired"),
    ("Acquired", "AwaitAcquire", 1, "Acquiring"),
    ("Acquired", "NextTx", 5, "BusyNextTx"),
    ("Acquired", "HasTx", 7, "BusyHasTx"),
    ("Acquired", "GetSizes", 9, "BusyGetSizes"),
    ("Acquired", "Release", 3, "Idle"),
    ("BusyNextTx", "ReplyNextTx", 6, "Acquired"),
    ("BusyHasTx", "ReplyHasTx", 8, "Acquired"),
    ("BusyGetSizes", "ReplyGetSizes", 10, "Acquired"),
];

// ---- leios-notify ---------------------------------------------------------------------
const LN_STATES: States = &[("Idle", C), ("Busy", S), ("Done", N)];
const LN_TRANS: Trans = &[
    ("Idle", "RequestNext", 0, "Busy"),
    ("Idle", "Done", 5, "Done"),
    ("Busy", "BlockAnnouncement", 1, "Idle"),
    ("Busy", "BlockOffer", 2, "Idle"),
    ("Busy", "BlockTxsOffer", 3, "Idle"),
    ("Busy", "Votes", 4, "Idle"),
];

// ---- leios-fetch ----------------------------------------------------------------------
const LF_STATES: States = &[("Idle", C), ("BusyBlock", S), ("BusyBlockTxs", S), ("Done", N)];
const LF_TRANS: Trans = &[
    ("Idle", "BlockRequest", 0, "BusyBlock"),
    ("Idle", "BlockTxsRequest", 2, "BusyBlockTxs"),
    ("Idle", "Done", 9, "Done"),
    ("BusyBlock", "Block", 1, "Idle"),
    ("BusyBlockTxs", "BlockTxs", 3, "Idle"),
];

fn tables(p: Proto) -> (States, Trans) {
    match p {
        Proto::Handshake => (HS_STATES, HS_TRANS),
        Proto::ChainSync => (CS_STATES, CS_TRANS),
        Proto::BlockFetch => (BF_STATES, BF_TRANS),
        Proto::TxSubmission => (TX_STATES, TX_TRANS),
        Proto::KeepAlive => (KA_STATES, KA_TRANS),
        Proto::PeerSharing => (PS_STATES, PS_TRANS),
        Proto::LocalStateQuery => (LS_STATES, LS_TRANS),
        Proto::LocalTxSubmission => (LT_STATES, LT_TRANS),
        Proto::LocalTxMonitor => (TM_STATES, TM_TRANS),
        Proto::LeiosNotify => (LN_STATES, LN_TRANS),
        Proto::LeiosFetch => (LF_STATES, LF_TRANS),
    }
}

/// all states, initial state first, terminal state last
pub fn states(p: Proto) -> Vec<St> {
    tables(p).0.iter().map(|s| s.0).collect()
}

pub fn initial(p: Proto) -> St {
    tables(p).0[0].0
}

/// all message kinds of the protocol, in table order, without duplicates
pub fn messages(p: Proto) -> Vec<MsgKind> {
    let mut v: Vec<MsgKind> = vec![];
    for t in tables(p).1 {
        if !v.contains(&t.1) {
            v.push(t.1);
        }
    }
    v
}

pub fn agency_of(p: Proto, st: &str) -> Agency {
    tables(p).0.iter().find(|s| s.0 == st).map(|s| s.1).unwrap_or(Agency::Nobody)
}

/// the interned name of a state (None if the protocol has no such state)
pub fn state_named(p: Proto, st: &str) -> Option<St> {
    tables(p).0.iter().find(|s| s.0 == st).map(|s| s.0)
}

/// next state if `msg` is legal in `st` (sent by whoever has agency there)
pub fn next(p: Proto, st: &str, msg: &str) -> Option<St> {
    tables(p).1.iter().find(|t| t.0 == st && t.1 == msg).map(|t| t.3)
}

/// the role that sends `msg` (every message belongs to exactly one side); Nobody = unknown message
pub fn sender_of(p: Proto, msg: &str) -> Agency {
    tables(p).1.iter().find(|t| t.1 == msg).map(|t| agency_of(p, t.0)).unwrap_or(Agency::Nobody)
}

/// CBOR label (first array element) of the message in the specification's CDDL
pub fn wire_tag(p: Proto, msg: &str) -> Option<u16> {
    tables(p).1.iter().find(|t| t.1 == msg).map(|t| t.2)
}

/// messages legal in `st`
pub fn allowed_in(p: Proto, st: &str) -> Vec<MsgKind> {
    tables(p).1.iter().filter(|t| t.0 == st).map(|t| t.1).collect()
}

/// Two names of one wire message: local-tx-monitor `Acquire` (Idle) / `AwaitAcquire` (Acquired)
/// are both `[1]`. Returns the name that applies in `st`; every other kind is returned unchanged.
pub fn canon(p: Proto, st: &str, msg: MsgKind) -> MsgKind {
    if p == Proto::LocalTxMonitor && (msg == "Acquire" || msg == "AwaitAcquire") {
        if st == "Acquired" {
            "AwaitAcquire"
        } else {
            "Acquire"
        }
    } else {
        msg
    }
}

/// a shortest message sequence from the initial state to `target` (empty for the initial state)
pub fn shortest_path(p: Proto, target: &str) -> Option<Vec<MsgKind>> {
    let init = initial(p);
    if init == target {
        return Some(vec![]);
    }
    let mut seen: Vec<St> = vec![init];
    let mut queue: std::collections::VecDeque<(St, Vec<MsgKind>)> = std::collections::VecDeque::new();
    queue.push_back((init, vec![]));
    while let Some((st, path)) = queue.pop_front() {
        for t in tables(p).1.iter().filter(|t| t.0 == st) {
            if seen.contains(&t.3) {
                continue;
            }
            let mut np = path.clone();
            np.push(t.1);
            if t.3 == target {
                return Some(np);
            }
            seen.push(t.3);
            queue.push_back((t.3, np));
        }
    }
    None
}

/// every spec-legal message sequence from the initial state with length 0..=max_len,
/// in depth-first table order (deterministic)
pub fn legal_paths(p: Proto, max_len: usize) -> Vec<Vec<MsgKind>> {
    fn rec(p: Proto, st: St, cur: &mut Vec<MsgKind>, max_len: usize, out: &mut Vec<Vec<MsgKind>>) {
        out.push(cur.clone());
        if cur.len() == max_len {
            return;
        }
        for t in tables(p).1.iter().filter(|t| t.0 == st) {
            cur.push(t.1);
            rec(p, t.3, cur, max_len, out);
            cur.pop();
        }
    }
    let mut out = vec![];
    rec(p, initial(p), &mut vec![], max_len, &mut out);
    out
}

/// One running automaton.
#[derive(Clone, Copy, Debug, PartialEq, Eq)]
pub struct Spec {
    pub proto: Proto,
    st: St,
}

impl Spec {
    pub fn new(proto: Proto) -> Spec {
        Spec { proto, st: initial(proto) }
    }
    /// automaton placed in state `st` (panics on an unknown state name: harness bug)
    pub fn at(proto: Proto, st: &str) -> Spec {
        Spec { proto, st: state_named(proto, st).unwrap_or_else(|| panic!("specs: {} has no state {st}", proto.name())) }
    }
    pub fn state(&self) -> St {
        self.st
    }
    pub fn agency(&self) -> Agency {
        agency_of(self.proto, self.st)
    }
    pub fn is_done(&self) -> bool {
        self.agency() == Agency::Nobody
    }
    pub fn allowed(&self) -> Vec<MsgKind> {
        allowed_in(self.proto, self.st)
    }
    pub fn peek(&self, msg: &str) -> Option<St> {
        next(self.proto, self.st, canon(self.proto, self.st, intern(self.proto, msg)))
    }
    /// may `role` send `msg` in the current state?
    pub fn can(&self, role: Agency, msg: &str) -> bool {
        role != Agency::Nobody && self.agency() == role && self.peek(msg).is_some()
    }
    /// advance by `msg` (sent by whoever has agency); Err = illegal here, state unchanged
    pub fn step(&mut self, msg: &str) -> Result<(), ()> {
        match self.peek(msg) {
            Some(n) => {
                self.st = n;
                Ok(())
            }
            None => Err(()),
        }
    }
}

fn intern(p: Proto, msg: &str) -> MsgKind {
    tables(p).1.iter().find(|t| t.1 == msg).map(|t| t.1).unwrap_or("")
}

/// Structural sanity of the tables (run by the selftest and at the start of C23/C24):
/// deterministic, every state declared and reachable, exactly one terminal state `Done`
/// without outgoing transitions, each message sent by one side only.
pub fn selfcheck() -> Result<(), String> {
    for p in ALL_PROTOS {
        let (sts, trs) = tables(p);
        let n_term = sts.iter().filter(|s| s.1 == Agency::Nobody).count();
        if n_term != 1 || sts.last().map(|s| s.0) != Some("Done") {
            return Err(format!("{}: terminal state", p.name()));
        }
        for (i, t) in trs.iter().enumerate() {
            if state_named(p, t.0).is_none() || state_named(p, t.3).is_none() {
                return Err(format!("{}: undeclared state in {:?}", p.name(), t));
            }
            if agency_of(p, t.0) == Agency::Nobody {
                return Err(format!("{}: transition out of Done", p.name()));
            }
            if trs.iter().enumerate().any(|(j, u)| j != i && u.0 == t.0 && u.1 == t.1) {
                return Err(format!("{}: non-deterministic {:?}", p.name(), t));
            }
            if trs.iter().any(|u| u.1 == t.1 && agency_of(p, u.0) != agency_of(p, t.0)) {
                return Err(format!("{}: message {} sent by both sides", p.name(), t.1));
            }
            // one message name = one wire label, and (tx-submission's blocking flag apart) one label = one name
            if trs.iter().any(|u| u.1 == t.1 && u.2 != t.2) {
                return Err(format!("{}: message {} has two labels", p.name(), t.1));
            }
        }
        for s in sts.iter() {
            if shortest_path(p, s.0).is_none() {
                return Err(format!("{}: state {} unreachable", p.name(), s.0));
            }
            if s.1 != Agency::Nobody && allowed_in(p, s.0).is_empty() {
                return Err(format!("{}: state {} is stuck", p.name(), s.0));
            }
        }
    }
    // a few pinned facts from the specification text
    let mut s = Spec::new(Proto::TxSubmission);
    if s.agency() != Agency::Client || s.step("Init").is_err() || s.agency() != Agency::Server {
        return Err("txsubmission init".into());
    }
    if s.step("RequestTxIdsNonBlocking").is_err() || s.can(Agency::Client, "Done") || !s.can(Agency::Client, "ReplyTxIds") {
        return Err("txsubmission non-blocking".into());
    }
    s.step("ReplyTxIds").map_err(|_| "reply")?;
    if s.state() != "Idle" || s.step("RequestTxIdsBlocking").is_err() || !s.can(Agency::Client, "Done") {
        return Err("txsubmission blocking".into());
    }
    let mut k = Spec::new(Proto::KeepAlive);
    if !k.can(Agency::Client, "Done") || k.step("KeepAlive").is_err() || k.can(Agency::Client, "KeepAlive") || k.step("ResponseKeepAlive").is_err() || k.state() != "Client" {
        return Err("keepalive".into());
    }
    let m = Spec::at(Proto::LocalTxMonitor, "Acquired");
    if m.peek("Acquire") != Some("Acquiring") || m.peek("Release") != Some("Idle") || Spec::new(Proto::LocalTxMonitor).peek("AwaitAcquire") != Some("Acquiring") {
        return Err("txmonitor".into());
    }
    Ok(())
}
