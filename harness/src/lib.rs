pub mod cbor;
pub mod corpus;
pub mod ctx;
pub mod panics;
pub mod prng;
pub mod refhash;
pub mod specs;
pub mod fixgen;
pub mod kesdrv;
pub mod kesref;
pub mod plexhist;
pub mod eragen;
pub mod pdgen;

pub use ctx::{hex_short, hexs, Ctx, Tier};
pub use prng::{fp, fp_mix, Rng};
pub use serde_json::json;
