//! Shared machinery for C08 / C40 / C41:
//!  * generators of Plutus data, native scripts, auxiliary data, addresses (own encoder `cbor::Node`)
//!  * a shadow model of `pallas_txbuilder::StagingTransaction` (every public staging method)
//!  * a reader of built transactions based on the own CBOR walker (never on pallas decoders)
//!  * the comparison "built bytes == staged content" used by C40.
//!
//! Nothing in here calls into pallas except `apply_real` (which drives the real staging API).

use crate::cbor::{self, Item, Node};
use crate::prng::Rng;
use crate::refhash::{blake2b_224, blake2b_256};
use std::collections::{BTreeMap, BTreeSet};

/// byte string with a hex `Debug`
#[derive(Clone, PartialEq, Eq, PartialOrd, Ord, Hash, Default)]
pub struct Hx(pub Vec<u8>);
impl std::fmt::Debug for Hx {
    fn fmt(&self, f: &mut std::fmt::Formatter<'_>) -> std::fmt::Result {
        write!(f, "h'{}'", hex::encode(&self.0))
    }
}
impl Hx {
    pub fn a28(&self) -> [u8; 28] {
        self.0.as_slice().try_into().expect("28 bytes")
    }
    pub fn a32(&self) -> [u8; 32] {
        self.0.as_slice().try_into().expect("32 bytes")
    }
}

pub type In = (Hx, u64);

// ---------------------------------------------------------------------------------------
// generators (encodings chosen to be the ones the ledger's own tools emit: minimal heads,
// byte strings > 64 bytes chunked by 64, definite or indefinite lists)
// ---------------------------------------------------------------------------------------

fn pbytes(b: Vec<u8>) -> Node {
    if b.len() <= 64 {
        Node::Bytes(b, 0)
    } else {
        Node::BytesIndef(b.chunks(64).map(|c| c.to_vec()).collect())
    }
}

pub fn gen_plutus(rng: &mut Rng, depth: usize) -> Node {
    let leaf = depth == 0 || rng.chance(1, 2);
    if leaf {
        match rng.below(8) {
            0 | 1 | 2 => Node::UInt(rng.edgy_u64(), 0),
            3 => Node::NInt(rng.edgy_u64(), 0),
            4 | 5 => {
                let n = rng.usize_below(40);
                pbytes(rng.bytes(n))
            }
            6 => {
                let n = 65 + rng.usize_below(100);
                pbytes(rng.bytes(n))
            }
            _ => {
                let n = 9 + rng.usize_below(12);
                let mut b = rng.bytes(n);
                b[0] |= 1;
                Node::Tag(2 + rng.below(2), 0, Box::new(pbytes(b)))
            }
        }
    } else {
        let n = rng.usize_below(4);
        let kids = |rng: &mut Rng| -> Vec<Node> { (0..n).map(|_| gen_plutus(rng, depth - 1)).collect() };
        let list = |rng: &mut Rng, xs: Vec<Node>| if rng.bool() { Node::Array(xs, 0) } else { Node::ArrayIndef(xs) };
        match rng.below(6) {
            0 | 1 => {
                let xs = kids(rng);
                list(rng, xs)
            }
            2 => Node::Map((0..n).map(|_| (gen_plutus(rng, 0), gen_plutus(rng, depth - 1))).collect(), 0),
            3 => {
                let xs = kids(rng);
                Node::Tag(121 + rng.below(7), 0, Box::new(list(rng, xs)))
            }
            4 => {
                let xs = kids(rng);
                Node::Tag(1280 + rng.below(121), 0, Box::new(list(rng, xs)))
            }
            _ => {
                let xs = kids(rng);
                let fields = list(rng, xs);
                Node::Tag(102, 0, Box::new(Node::arr(vec![Node::u(rng.edgy_u64()), fields])))
            }
        }
    }
}

pub fn gen_native(rng: &mut Rng, depth: usize) -> Node {
    let leaf = depth == 0 || rng.chance(1, 2);
    if leaf {
        match rng.below(3) {
            0 => Node::arr(vec![Node::u(0), Node::bytes(&rng.bytes(28))]),
            1 => Node::arr(vec![Node::u(4), Node::u(rng.edgy_u64())]),
            _ => Node::arr(vec![Node::u(5), Node::u(rng.edgy_u64())]),
        }
    } else {
        let n = rng.usize_below(4);
        let kids: Vec<Node> = (0..n).map(|_| gen_native(rng, depth - 1)).collect();
        match rng.below(3) {
            0 => Node::arr(vec![Node::u(1), Node::arr(kids)]),
            1 => Node::arr(vec![Node::u(2), Node::arr(kids)]),
            _ => Node::arr(vec![Node::u(3), Node::u(rng.below(5)), Node::arr(kids)]),
        }
    }
}

fn gen_metadatum(rng: &mut Rng, depth: usize) -> Node {
    let leaf = depth == 0 || rng.chance(3, 5);
    if leaf {
        match rng.below(4) {
            0 => Node::UInt(rng.edgy_u64(), 0),
            1 => Node::NInt(rng.edgy_u64(), 0),
            2 => {
                let n = rng.usize_below(65);
                Node::Bytes(rng.bytes(n), 0)
            }
            _ => {
                let mut s = cbor::gen_text(rng, 16);
                while s.len() > 64 {
                    s.pop();
                }
                Node::Text(s, 0)
            }
        }
    } else {
        let n = rng.usize_below(4);
        if rng.bool() {
            Node::arr((0..n).map(|_| gen_metadatum(rng, depth - 1)).collect())
        } else {
            Node::map((0..n).map(|_| (gen_metadatum(rng, 0), gen_metadatum(rng, depth - 1))).collect())
        }
    }
}

fn gen_metadata(rng: &mut Rng) -> Node {
    let n = rng.usize_below(4);
    let mut keys = BTreeSet::new();
    for _ in 0..n {
        keys.insert(rng.edgy_u64());
    }
    Node::map(keys.into_iter().map(|k| (Node::u(k), gen_metadatum(rng, 2))).collect())
}

/// auxiliary data; returns (bytes, form label)
pub fn gen_aux(rng: &mut Rng, allow_v2v3: bool) -> (Vec<u8>, &'static str) {
    match rng.below(4) {
        0 => (gen_metadata(rng).to_vec(), "shelley"),
        1 => {
            let n = rng.usize_below(3);
            (Node::arr(vec![gen_metadata(rng), Node::arr((0..n).map(|_| gen_native(rng, 1)).collect())]).to_vec(), "shelley-ma")
        }
        _ => {
            let mut es = vec![];
            let mut label = "post-alonzo";
            if rng.chance(3, 4) {
                es.push((Node::u(0), gen_metadata(rng)));
            }
            if rng.chance(1, 3) {
                let n = 1 + rng.usize_below(2);
                es.push((Node::u(1), Node::arr((0..n).map(|_| gen_native(rng, 1)).collect())));
            }
            if rng.chance(1, 3) {
                let k = rng.usize_below(30);
                es.push((Node::u(2), Node::arr(vec![Node::bytes(&rng.bytes(k))])));
            }
            if allow_v2v3 && rng.chance(1, 3) {
                let key = 3 + rng.below(2);
                let k = 1 + rng.usize_below(30);
                es.push((Node::u(key), Node::arr(vec![Node::bytes(&rng.bytes(k))])));
                label = "post-alonzo-v2v3-scripts";
            }
            (Node::tag(259, Node::map(es)).to_vec(), label)
        }
    }
}

pub fn gen_address(rng: &mut Rng) -> Vec<u8> {
    let net = rng.below(2) as u8;
    let (ty, len) = *rng.pick(&[(0u8, 56usize), (1, 56), (2, 56), (3, 56), (6, 28), (7, 28), (14, 28), (15, 28)]);
    let mut v = vec![(ty << 4) | net];
    v.extend(rng.bytes(len));
    v
}

pub fn gen_cost_model(rng: &mut Rng) -> Vec<i64> {
    let n = match rng.below(6) {
        0 => 0,
        1 => rng.usize_below(4),
        2 => 23 + rng.usize_below(3),
        3 => 255 + rng.usize_below(3),
        _ => rng.usize_below(301),
    };
    (0..n).map(|_| if rng.chance(1, 3) { rng.irange(-2000, 200000) } else { rng.edgy_i64() }).collect()
}

// ---------------------------------------------------------------------------------------
// own encoder of the language views (ledger `getLanguageView` + canonical map order)
// ---------------------------------------------------------------------------------------

/// `views`: language id (0 = PlutusV1, 1 = V2, 2 = V3) -> cost model.
pub fn language_views_bytes(views: &BTreeMap<u8, Vec<i64>>) -> Vec<u8> {
    let mut entries: Vec<(Vec<u8>, Vec<u8>)> = vec![];
    for (lang, cm) in views {
        let ints: Vec<Node> = cm.iter().map(|v| Node::int(*v as i128)).collect();
        if *lang == 0 {
            // PlutusV1: key = bytes(serialise(0)), value = bytes(indefinite list)
            let inner = Node::ArrayIndef(ints).to_vec();
            entries.push((Node::bytes(&[0x00]).to_vec(), Node::bytes(&inner).to_vec()));
        } else {
            entries.push((Node::u(*lang as u64).to_vec(), Node::arr(ints).to_vec()));
        }
    }
    // canonical CBOR: shorter encoded key first, then bytewise
    entries.sort_by(|a, b| (a.0.len(), &a.0).cmp(&(b.0.len(), &b.0)));
    let mut out = vec![];
    cbor::head(5, entries.len() as u64, 0, &mut out);
    for (k, v) in entries {
        out.extend(k);
        out.extend(v);
    }
    out
}

/// ledger formula: Blake2b-256( redeemer bytes | a0 ,  datum bytes (if any) , language views )
pub fn script_integrity_hash(redeemers: Option<&[u8]>, datums: Option<&[u8]>, views: Option<&BTreeMap<u8, Vec<i64>>>) -> [u8; 32] {
    let mut buf = vec![];
    match redeemers {
        Some(r) => buf.extend_from_slice(r),
        None => buf.push(0xa0),
    }
    if let Some(d) = datums {
        buf.extend_from_slice(d);
    }
    match views {
        Some(v) => buf.extend(language_views_bytes(v)),
        None => buf.push(0xa0),
    }
    blake2b_256(&buf)
}

// ---------------------------------------------------------------------------------------
// shadow model
// ---------------------------------------------------------------------------------------

#[derive(Clone, Debug, PartialEq, Eq)]
pub struct MOutput {
    pub addr: Hx,
    pub lovelace: u64,
    /// add_asset calls in order (policy, name, amount)
    pub asset_calls: Vec<(Hx, Hx, u64)>,
    /// (inline?, bytes): inline datum cbor or 32-byte hash
    pub datum: Option<(bool, Hx)>,
    /// (kind 0 native / 1,2,3 plutus, bytes)
    pub script: Option<(u8, Hx)>,
}

impl MOutput {
    /// accumulated assets; None if a name is too long (add_asset fails) — those calls are skipped
    pub fn assets(&self) -> BTreeMap<Hx, BTreeMap<Hx, u128>> {
        let mut m: BTreeMap<Hx, BTreeMap<Hx, u128>> = BTreeMap::new();
        for (p, n, a) in &self.asset_calls {
            if n.0.len() > 32 {
                continue;
            }
            *m.entry(p.clone()).or_default().entry(n.clone()).or_insert(0) += *a as u128;
        }
        m
    }
}

#[derive(Clone, Debug, PartialEq, Eq)]
pub enum Op {
    Input(In),
    RemoveInput(In),
    RefInput(In),
    RemoveRefInput(In),
    CollInput(In),
    RemoveCollInput(In),
    Output(MOutput),
    RemoveOutput(usize),
    Fee(u64),
    ClearFee,
    Mint(Hx, Hx, i64),
    RemoveMint(Hx, Hx),
    ValidFrom(u64),
    ClearValidFrom,
    InvalidFrom(u64),
    ClearInvalidFrom,
    NetworkId(u8),
    ClearNetworkId,
    CollOutput(MOutput),
    ClearCollOutput,
    Signer(Hx),
    RemoveSigner(Hx),
    Script(u8, Hx),
    RemoveScript(Hx),
    Datum(Hx),
    RemoveDatum(Hx),
    RemoveDatumByHash(Hx),
    LangViews(BTreeMap<u8, Vec<i64>>),
    AddLanguage(u8, Vec<i64>),
    SpendRedeemer(In, Hx, Option<(u64, u64)>),
    RemoveSpendRedeemer(In),
    MintRedeemer(Hx, Hx, Option<(u64, u64)>),
    RemoveMintRedeemer(Hx),
    SigOverride(u8),
    ClearSigOverride,
    ChangeAddr(Hx),
    ClearChangeAddr,
    Aux(Hx),
    ClearAux,
}

impl Op {
    pub fn name(&self) -> &'static str {
        match self {
            Op::Input(..) => "input",
            Op::RemoveInput(..) => "remove_input",
            Op::RefInput(..) => "reference_input",
            Op::RemoveRefInput(..) => "remove_reference_input",
            Op::CollInput(..) => "collateral_input",
            Op::RemoveCollInput(..) => "remove_collateral_input",
            Op::Output(..) => "output",
            Op::RemoveOutput(..) => "remove_output",
            Op::Fee(..) => "fee",
            Op::ClearFee => "clear_fee",
            Op::Mint(..) => "mint_asset",
            Op::RemoveMint(..) => "remove_mint_asset",
            Op::ValidFrom(..) => "valid_from_slot",
            Op::ClearValidFrom => "clear_valid_from_slot",
            Op::InvalidFrom(..) => "invalid_from_slot",
            Op::ClearInvalidFrom => "clear_invalid_from_slot",
            Op::NetworkId(..) => "network_id",
            Op::ClearNetworkId => "clear_network_id",
            Op::CollOutput(..) => "collateral_output",
            Op::ClearCollOutput => "clear_collateral_output",
            Op::Signer(..) => "disclosed_signer",
            Op::RemoveSigner(..) => "remove_disclosed_signer",
            Op::Script(..) => "script",
            Op::RemoveScript(..) => "remove_script_by_hash",
            Op::Datum(..) => "datum",
            Op::RemoveDatum(..) => "remove_datum",
            Op::RemoveDatumByHash(..) => "remove_datum_by_hash",
            Op::LangViews(..) => "language_views",
            Op::AddLanguage(..) => "add_language",
            Op::SpendRedeemer(..) => "add_spend_redeemer",
            Op::RemoveSpendRedeemer(..) => "remove_spend_redeemer",
            Op::MintRedeemer(..) => "add_mint_redeemer",
            Op::RemoveMintRedeemer(..) => "remove_mint_redeemer",
            Op::SigOverride(..) => "signature_amount_override",
            Op::ClearSigOverride => "clear_signature_amount_override",
            Op::ChangeAddr(..) => "change_address",
            Op::ClearChangeAddr => "clear_change_address",
            Op::Aux(..) => "add_auxiliary_data",
            Op::ClearAux => "clear_auxiliary_data",
        }
    }
}

pub const N_OP_KINDS: usize = 39;

#[derive(Clone, Debug, PartialEq, Eq, PartialOrd, Ord)]
pub enum Purpose {
    Spend(In),
    Mint(Hx),
}

#[derive(Clone, Debug, Default)]
pub struct Model {
    pub inputs: Vec<In>,
    pub ref_inputs: Vec<In>,
    pub collateral: Vec<In>,
    pub outputs: Vec<MOutput>,
    pub fee: Option<u64>,
    /// policy -> name -> accumulated amount (exact)
    pub mint: BTreeMap<Hx, BTreeMap<Hx, i128>>,
    pub valid_from: Option<u64>,
    pub invalid_from: Option<u64>,
    pub network_id: Option<u8>,
    pub coll_output: Option<MOutput>,
    pub signers: Vec<Hx>,
    /// script hash -> (kind, bytes)
    pub scripts: BTreeMap<Hx, (u8, Hx)>,
    /// datum hash -> bytes
    pub datums: BTreeMap<Hx, Hx>,
    pub redeemers: BTreeMap<Purpose, (Hx, Option<(u64, u64)>)>,
    pub language_views: Option<BTreeMap<u8, Vec<i64>>>,
    pub aux: Option<Hx>,
    /// datums that `remove_datum_by_hash(Blake2b-256(datum bytes))` removed from the model
    pub removed_by_hash: BTreeSet<Hx>,
}

pub fn script_hash(kind: u8, bytes: &[u8]) -> Hx {
    let mut v = vec![kind];
    v.extend_from_slice(bytes);
    Hx(blake2b_224(&v).to_vec())
}
pub fn datum_hash(bytes: &[u8]) -> Hx {
    Hx(blake2b_256(bytes).to_vec())
}

impl Model {
    /// Applies the op to the model. Returns false when the model predicts that the real call
    /// cannot succeed (arithmetic overflow in accumulation, `remove_output` out of range).
    pub fn apply(&mut self, op: &Op, aux_accepted: bool) -> bool {
        match op {
            Op::Input(i) => self.inputs.push(i.clone()),
            Op::RemoveInput(i) => self.inputs.retain(|x| x != i),
            Op::RefInput(i) => self.ref_inputs.push(i.clone()),
            Op::RemoveRefInput(i) => self.ref_inputs.retain(|x| x != i),
            Op::CollInput(i) => self.collateral.push(i.clone()),
            Op::RemoveCollInput(i) => self.collateral.retain(|x| x != i),
            Op::Output(o) => {
                if o.assets().values().any(|m| m.values().any(|a| *a > u64::MAX as u128)) {
                    return false;
                }
                self.outputs.push(o.clone())
            }
            Op::RemoveOutput(i) => {
                if *i >= self.outputs.len() {
                    return false;
                }
                self.outputs.remove(*i);
            }
            Op::Fee(f) => self.fee = Some(*f),
            Op::ClearFee => self.fee = None,
            Op::Mint(p, n, a) => {
                if n.0.len() > 32 {
                    return true; // rejected with AssetNameTooLong, state unchanged
                }
                let cur = self.mint.get(p).and_then(|m| m.get(n)).copied().unwrap_or(0);
                let s = cur + *a as i128;
                if s > i64::MAX as i128 || s < i64::MIN as i128 {
                    return false;
                }
                self.mint.entry(p.clone()).or_default().insert(n.clone(), s);
            }
            Op::RemoveMint(p, n) => {
                if let Some(m) = self.mint.get_mut(p) {
                    m.remove(n);
                    if m.is_empty() {
                        self.mint.remove(p);
                    }
                }
            }
            Op::ValidFrom(s) => self.valid_from = Some(*s),
            Op::ClearValidFrom => self.valid_from = None,
            Op::InvalidFrom(s) => self.invalid_from = Some(*s),
            Op::ClearInvalidFrom => self.invalid_from = None,
            Op::NetworkId(n) => self.network_id = Some(*n),
            Op::ClearNetworkId => self.network_id = None,
            Op::CollOutput(o) => {
                if o.assets().values().any(|m| m.values().any(|a| *a > u64::MAX as u128)) {
                    return false;
                }
                self.coll_output = Some(o.clone())
            }
            Op::ClearCollOutput => self.coll_output = None,
            Op::Signer(k) => self.signers.push(k.clone()),
            Op::RemoveSigner(k) => self.signers.retain(|x| x != k),
            Op::Script(kind, b) => {
                self.scripts.insert(script_hash(*kind, &b.0), (*kind, b.clone()));
            }
            Op::RemoveScript(h) => {
                self.scripts.remove(h);
            }
            Op::Datum(d) => {
                self.removed_by_hash.remove(d);
                self.datums.insert(datum_hash(&d.0), d.clone());
            }
            Op::RemoveDatum(d) => {
                self.removed_by_hash.remove(d);
                self.datums.remove(&datum_hash(&d.0));
            }
            Op::RemoveDatumByHash(h) => {
                if let Some(d) = self.datums.remove(h) {
                    self.removed_by_hash.insert(d);
                }
            }
            Op::LangViews(v) => self.language_views = Some(v.clone()),
            Op::AddLanguage(kind, cm) => {
                if *kind != 0 {
                    let mut m = self.language_views.clone().unwrap_or_default();
                    m.insert(*kind - 1, cm.clone());
                    self.language_views = Some(m);
                }
            }
            Op::SpendRedeemer(i, d, ex) => {
                self.redeemers.insert(Purpose::Spend(i.clone()), (d.clone(), *ex));
            }
            Op::RemoveSpendRedeemer(i) => {
                self.redeemers.remove(&Purpose::Spend(i.clone()));
            }
            Op::MintRedeemer(p, d, ex) => {
                self.redeemers.insert(Purpose::Mint(p.clone()), (d.clone(), *ex));
            }
            Op::RemoveMintRedeemer(p) => {
                self.redeemers.remove(&Purpose::Mint(p.clone()));
            }
            Op::SigOverride(_) | Op::ClearSigOverride | Op::ChangeAddr(_) | Op::ClearChangeAddr => {}
            Op::Aux(b) => {
                if aux_accepted {
                    self.aux = Some(b.clone());
                }
            }
            Op::ClearAux => self.aux = None,
        }
        true
    }

    pub fn input_set(&self) -> Vec<In> {
        let s: BTreeSet<In> = self.inputs.iter().cloned().collect();
        s.into_iter().collect()
    }
    /// mint with zero entries (and policies left empty by that) dropped
    pub fn effective_mint(&self) -> BTreeMap<Hx, BTreeMap<Hx, i128>> {
        let mut out = BTreeMap::new();
        for (p, m) in &self.mint {
            let mm: BTreeMap<Hx, i128> = m.iter().filter(|(_, a)| **a != 0).map(|(n, a)| (n.clone(), *a)).collect();
            if !mm.is_empty() {
                out.insert(p.clone(), mm);
            }
        }
        out
    }
    pub fn has_zero_mint(&self) -> bool {
        self.mint.values().any(|m| m.values().any(|a| *a == 0))
    }
    pub fn has_zero_output_asset(&self) -> bool {
        self.outputs.iter().chain(self.coll_output.iter()).any(|o| o.assets().values().any(|m| m.values().any(|a| *a == 0)))
    }
    pub fn has_redeemer_without_exunits(&self) -> bool {
        self.redeemers.values().any(|(_, ex)| ex.is_none())
    }
    pub fn has_dup(v: &[In]) -> bool {
        let s: BTreeSet<&In> = v.iter().collect();
        s.len() != v.len()
    }
}

// ---------------------------------------------------------------------------------------
// op generator
// ---------------------------------------------------------------------------------------

pub struct Pools {
    pub txh: Vec<Hx>,
    pub pol: Vec<Hx>,
    pub names: Vec<Hx>,
    pub kh: Vec<Hx>,
    pub datums: Vec<Hx>,
    pub scripts: Vec<(u8, Hx)>,
    pub addrs: Vec<Hx>,
}

impl Pools {
    pub fn new(rng: &mut Rng) -> Pools {
        let mut txh: Vec<Hx> = (0..4).map(|_| Hx(rng.bytes(32))).collect();
        // two hashes sharing a long prefix: ordering decided by the last byte
        let mut t = txh[0].0.clone();
        t[31] = t[31].wrapping_add(1);
        txh.push(Hx(t));
        let pol: Vec<Hx> = (0..4).map(|_| Hx(rng.bytes(28))).collect();
        let mut names = vec![Hx(vec![]), Hx(rng.bytes(32)), Hx(b"tok".to_vec())];
        let k = 1 + rng.usize_below(31);
        names.push(Hx(rng.bytes(k)));
        let kh = (0..4).map(|_| Hx(rng.bytes(28))).collect();
        let datums = (0..5).map(|_| Hx(gen_plutus(rng, 3).to_vec())).collect();
        let mut scripts = vec![];
        for _ in 0..5 {
            let kind = rng.below(4) as u8;
            let b = if kind == 0 {
                gen_native(rng, 2).to_vec()
            } else {
                let n = 1 + rng.usize_below(80);
                rng.bytes(n)
            };
            scripts.push((kind, Hx(b)));
        }
        let addrs = (0..4).map(|_| Hx(gen_address(rng))).collect();
        Pools { txh, pol, names, kh, datums, scripts, addrs }
    }
    fn input(&self, rng: &mut Rng) -> In {
        let idx = if rng.chance(1, 12) { rng.edgy_u64() } else { rng.below(3) };
        (rng.pick(&self.txh).clone(), idx)
    }
}

#[derive(Clone, Copy, Debug)]
pub struct GenCfg {
    /// allow inputs of the classes with already-known defects (zero quantities, cancelling mints,
    /// redeemers without ex-units, removals out of range, duplicates in set-like fields,
    /// arithmetic overflow in accumulation, aux data with V2/V3 scripts, re-styled datums)
    pub poison: bool,
    /// allow things the builder must *reject* (bad network id, malformed script / datum, missing redeemer target)
    pub rejects: bool,
}

fn gen_exunits(rng: &mut Rng) -> (u64, u64) {
    (rng.edgy_u64(), rng.edgy_u64())
}

pub fn gen_output(rng: &mut Rng, p: &Pools, cfg: &GenCfg) -> MOutput {
    let mut o = MOutput { addr: rng.pick(&p.addrs).clone(), lovelace: rng.edgy_u64(), asset_calls: vec![], datum: None, script: None };
    if rng.chance(1, 2) {
        let n = 1 + rng.usize_below(4);
        let mut acc: BTreeMap<(Hx, Hx), u128> = BTreeMap::new();
        for _ in 0..n {
            let pol = rng.pick(&p.pol).clone();
            let name = if cfg.rejects && rng.chance(1, 30) { Hx(rng.bytes(33)) } else { rng.pick(&p.names).clone() };
            let mut amt = if rng.chance(1, 4) { rng.edgy_u64() } else { 1 + rng.below(1_000_000) };
            if cfg.poison && rng.chance(1, 60) {
                amt = 0;
            }
            if name.0.len() <= 32 {
                let e = acc.entry((pol.clone(), name.clone())).or_insert(0);
                let overflow = *e + amt as u128 > u64::MAX as u128;
                let zero = *e + amt as u128 == 0;
                if (overflow && !(cfg.poison && rng.chance(1, 4))) || (zero && !cfg.poison) {
                    amt = 1;
                    if *e + 1 > u64::MAX as u128 {
                        continue;
                    }
                }
                *e += amt as u128;
            }
            o.asset_calls.push((pol, name, amt));
        }
    }
    match rng.below(6) {
        0 => o.datum = Some((true, rng.pick(&p.datums).clone())),
        1 => o.datum = Some((false, Hx(rng.bytes(32)))),
        2 if cfg.rejects && rng.chance(1, 10) => o.datum = Some((true, Hx(vec![0xf6]))), // null is not plutus data
        _ => {}
    }
    if rng.chance(1, 5) {
        o.script = Some(rng.pick(&p.scripts).clone());
    }
    o
}

/// One random op. `m` = current model (used to aim removals at present / absent items and to keep
/// the no-poison mode inside the classes expected to work).
pub fn gen_op(rng: &mut Rng, p: &Pools, m: &Model, cfg: &GenCfg) -> Op {
    loop {
        let k = rng.below(100);
        let op = match k {
            0..=9 => {
                let i = p.input(rng);
                if !cfg.poison && m.inputs.contains(&i) {
                    continue;
                }
                Op::Input(i)
            }
            10..=12 => Op::RemoveInput(if !m.inputs.is_empty() && rng.chance(2, 3) { rng.pick(&m.inputs).clone() } else { p.input(rng) }),
            13..=15 => {
                let i = p.input(rng);
                if !cfg.poison && m.ref_inputs.contains(&i) {
                    continue;
                }
                Op::RefInput(i)
            }
            16 => Op::RemoveRefInput(if !m.ref_inputs.is_empty() && rng.chance(2, 3) { rng.pick(&m.ref_inputs).clone() } else { p.input(rng) }),
            17..=19 => {
                let i = p.input(rng);
                if !cfg.poison && m.collateral.contains(&i) {
                    continue;
                }
                Op::CollInput(i)
            }
            20 => Op::RemoveCollInput(if !m.collateral.is_empty() && rng.chance(2, 3) { rng.pick(&m.collateral).clone() } else { p.input(rng) }),
            21..=29 => Op::Output(gen_output(rng, p, cfg)),
            30..=31 => {
                let n = m.outputs.len();
                if cfg.poison && rng.chance(1, 12) {
                    Op::RemoveOutput(n + rng.usize_below(3))
                } else if n > 0 {
                    Op::RemoveOutput(rng.usize_below(n))
                } else {
                    continue;
                }
            }
            32..=33 => Op::Fee(rng.edgy_u64()),
            34 => Op::ClearFee,
            35..=44 => {
                let pol = rng.pick(&p.pol).clone();
                let name = if cfg.rejects && rng.chance(1, 30) { Hx(rng.bytes(33)) } else { rng.pick(&p.names).clone() };
                let cur = m.mint.get(&pol).and_then(|x| x.get(&name)).copied().unwrap_or(0);
                let mut amt: i64 = match rng.below(5) {
                    0 => rng.edgy_i64(),
                    1 => -(1 + rng.below(1000) as i64),
                    _ => 1 + rng.below(1000) as i64,
                };
                if cfg.poison && rng.chance(1, 25) {
                    amt = match rng.below(4) {
                        0 => 0,
                        1 | 2 if cur != 0 && cur != i64::MIN as i128 => -(cur as i64), // cancel
                        1 | 2 => 0,
                        _ if cur > 0 => i64::MAX,                                     // overflow
                        _ if cur < 0 => i64::MIN,
                        _ => 0,
                    };
                } else if name.0.len() <= 32 {
                    let s = cur + amt as i128;
                    if s == 0 || s > i64::MAX as i128 || s < i64::MIN as i128 || amt == 0 {
                        amt = if cur == -1 { 2 } else if cur < i64::MAX as i128 { 1 } else { continue };
                    }
                }
                Op::Mint(pol, name, amt)
            }
            45..=46 => {
                let pol = rng.pick(&p.pol).clone();
                let name = match m.mint.get(&pol) {
                    Some(x) if !x.is_empty() && rng.chance(2, 3) => x.keys().nth(rng.usize_below(x.len())).unwrap().clone(),
                    _ => rng.pick(&p.names).clone(),
                };
                Op::RemoveMint(pol, name)
            }
            47 => Op::ValidFrom(rng.edgy_u64()),
            48 => Op::ClearValidFrom,
            49 => Op::InvalidFrom(rng.edgy_u64()),
            50 => Op::ClearInvalidFrom,
            51..=52 => Op::NetworkId(if cfg.rejects && rng.chance(1, 10) { 2 + rng.below(254) as u8 } else { rng.below(2) as u8 }),
            53 => Op::ClearNetworkId,
            54..=55 => Op::CollOutput(gen_output(rng, p, cfg)),
            56 => Op::ClearCollOutput,
            57..=59 => {
                let k = rng.pick(&p.kh).clone();
                if !cfg.poison && m.signers.contains(&k) {
                    continue;
                }
                Op::Signer(k)
            }
            60 => Op::RemoveSigner(rng.pick(&p.kh).clone()),
            61..=65 => {
                let (kind, b) = rng.pick(&p.scripts).clone();
                if cfg.rejects && kind == 0 && rng.chance(1, 10) {
                    Op::Script(0, Hx(vec![0x82, 0x07, 0x00]))
                } else {
                    Op::Script(kind, b)
                }
            }
            66 => {
                if !m.scripts.is_empty() && rng.chance(2, 3) {
                    Op::RemoveScript(m.scripts.keys().nth(rng.usize_below(m.scripts.len())).unwrap().clone())
                } else {
                    Op::RemoveScript(Hx(rng.bytes(28)))
                }
            }
            67..=71 => {
                if cfg.rejects && rng.chance(1, 25) {
                    Op::Datum(Hx(vec![0xf5]))
                } else if cfg.poison && rng.chance(1, 15) {
                    // same value, non-minimal integer head: 0 encoded as 1800 inside a list
                    Op::Datum(Hx(vec![0x82, 0x18, 0x00, 0x01]))
                } else {
                    Op::Datum(rng.pick(&p.datums).clone())
                }
            }
            72 => Op::RemoveDatum(rng.pick(&p.datums).clone()),
            73 => {
                // (removal of a present datum through its hash is one of the classes with a known defect)
                if cfg.poison && !m.datums.is_empty() && rng.chance(2, 3) {
                    Op::RemoveDatumByHash(m.datums.keys().nth(rng.usize_below(m.datums.len())).unwrap().clone())
                } else {
                    Op::RemoveDatumByHash(Hx(rng.bytes(32)))
                }
            }
            74 => {
                let mut v = BTreeMap::new();
                for l in 0..3u8 {
                    if rng.bool() {
                        v.insert(l, gen_cost_model(rng));
                    }
                }
                Op::LangViews(v)
            }
            75..=76 => Op::AddLanguage(rng.below(4) as u8, gen_cost_model(rng)),
            77..=82 => {
                let i = if !m.inputs.is_empty() && (!cfg.rejects || rng.chance(9, 10)) {
                    rng.pick(&m.inputs).clone()
                } else if cfg.rejects {
                    p.input(rng)
                } else {
                    continue;
                };
                let ex = if cfg.poison && rng.chance(1, 25) { None } else { Some(gen_exunits(rng)) };
                Op::SpendRedeemer(i, rng.pick(&p.datums).clone(), ex)
            }
            83 => Op::RemoveSpendRedeemer(p.input(rng)),
            84..=88 => {
                let em = m.effective_mint();
                let pol = if !em.is_empty() && (!cfg.rejects || rng.chance(9, 10)) {
                    em.keys().nth(rng.usize_below(em.len())).unwrap().clone()
                } else if cfg.rejects {
                    rng.pick(&p.pol).clone()
                } else {
                    continue;
                };
                let ex = if cfg.poison && rng.chance(1, 25) { None } else { Some(gen_exunits(rng)) };
                Op::MintRedeemer(pol, rng.pick(&p.datums).clone(), ex)
            }
            89 => Op::RemoveMintRedeemer(rng.pick(&p.pol).clone()),
            90 => Op::SigOverride(rng.next_u8()),
            91 => Op::ClearSigOverride,
            92 => Op::ChangeAddr(rng.pick(&p.addrs).clone()),
            93 => Op::ClearChangeAddr,
            94..=97 => {
                if rng.chance(1, 8) {
                    Op::Aux(Hx(vec![0x01])) // not auxiliary data: silently ignored by the API
                } else {
                    Op::Aux(Hx(gen_aux(rng, cfg.poison).0))
                }
            }
            _ => Op::ClearAux,
        };
        // in no-rejects mode keep redeemer targets alive: do not remove an input / mint a redeemer points at
        if !cfg.rejects {
            match &op {
                Op::RemoveInput(i) if m.redeemers.contains_key(&Purpose::Spend(i.clone())) => continue,
                Op::RemoveMint(pol, _) | Op::Mint(pol, _, _) if m.redeemers.contains_key(&Purpose::Mint(pol.clone())) => {
                    // the policy must keep a non-zero entry
                    let mut t = m.clone();
                    t.apply(&op, false);
                    if !t.effective_mint().contains_key(pol) {
                        continue;
                    }
                }
                _ => {}
            }
        }
        return op;
    }
}

// ---------------------------------------------------------------------------------------
// driving the real API
// ---------------------------------------------------------------------------------------

use pallas_txbuilder::{ExUnits, Input, Output, ScriptKind, StagingTransaction};

fn kind_of(k: u8) -> ScriptKind {
    match k {
        0 => ScriptKind::Native,
        1 => ScriptKind::PlutusV1,
        2 => ScriptKind::PlutusV2,
        _ => ScriptKind::PlutusV3,
    }
}
fn mk_input(i: &In) -> Input {
    Input::new(i.0.a32().into(), i.1)
}
fn mk_output(o: &MOutput) -> Output {
    let addr = pallas_addresses::Address::from_bytes(&o.addr.0).expect("generated address parses");
    let mut out = Output::new(addr, o.lovelace);
    for (p, n, a) in &o.asset_calls {
        let keep = out.clone();
        out = match out.add_asset(p.a28().into(), n.0.clone(), *a) {
            Ok(x) => x,
            Err(_) => keep,
        };
    }
    if let Some((inline, b)) = &o.datum {
        out = if *inline { out.set_inline_datum(b.0.clone()) } else { out.set_datum_hash(b.a32().into()) };
    }
    if let Some((k, b)) = &o.script {
        out = out.set_inline_script(kind_of(*k), b.0.clone());
    }
    out
}

/// Applies one op to the real staging transaction (may panic: wrap in `panics::catch`).
pub fn apply_real(tx: StagingTransaction, op: &Op) -> StagingTransaction {
    match op {
        Op::Input(i) => tx.input(mk_input(i)),
        Op::RemoveInput(i) => tx.remove_input(mk_input(i)),
        Op::RefInput(i) => tx.reference_input(mk_input(i)),
        Op::RemoveRefInput(i) => tx.remove_reference_input(mk_input(i)),
        Op::CollInput(i) => tx.collateral_input(mk_input(i)),
        Op::RemoveCollInput(i) => tx.remove_collateral_input(mk_input(i)),
        Op::Output(o) => tx.output(mk_output(o)),
        Op::RemoveOutput(i) => tx.remove_output(*i),
        Op::Fee(f) => tx.fee(*f),
        Op::ClearFee => tx.clear_fee(),
        Op::Mint(p, n, a) => {
            let keep = tx.clone();
            match tx.mint_asset(p.a28().into(), n.0.clone(), *a) {
                Ok(t) => t,
                Err(_) => keep,
            }
        }
        Op::RemoveMint(p, n) => tx.remove_mint_asset(p.a28().into(), n.0.clone()),
        Op::ValidFrom(s) => tx.valid_from_slot(*s),
        Op::ClearValidFrom => tx.clear_valid_from_slot(),
        Op::InvalidFrom(s) => tx.invalid_from_slot(*s),
        Op::ClearInvalidFrom => tx.clear_invalid_from_slot(),
        Op::NetworkId(n) => tx.network_id(*n),
        Op::ClearNetworkId => tx.clear_network_id(),
        Op::CollOutput(o) => tx.collateral_output(mk_output(o)),
        Op::ClearCollOutput => tx.clear_collateral_output(),
        Op::Signer(k) => tx.disclosed_signer(k.a28().into()),
        Op::RemoveSigner(k) => tx.remove_disclosed_signer(k.a28().into()),
        Op::Script(k, b) => tx.script(kind_of(*k), b.0.clone()),
        Op::RemoveScript(h) => tx.remove_script_by_hash(h.a28().into()),
        Op::Datum(d) => tx.datum(d.0.clone()),
        Op::RemoveDatum(d) => tx.remove_datum(d.0.clone()),
        Op::RemoveDatumByHash(h) => tx.remove_datum_by_hash(h.a32().into()),
        Op::LangViews(v) => tx.language_views(pallas_primitives::conway::LanguageViews(v.clone())),
        Op::AddLanguage(k, cm) => tx.add_language(kind_of(*k), cm.clone()),
        Op::SpendRedeemer(i, d, ex) => tx.add_spend_redeemer(mk_input(i), d.0.clone(), ex.map(|(mem, steps)| ExUnits { mem, steps })),
        Op::RemoveSpendRedeemer(i) => tx.remove_spend_redeemer(mk_input(i)),
        Op::MintRedeemer(p, d, ex) => tx.add_mint_redeemer(p.a28().into(), d.0.clone(), ex.map(|(mem, steps)| ExUnits { mem, steps })),
        Op::RemoveMintRedeemer(p) => tx.remove_mint_redeemer(p.a28().into()),
        Op::SigOverride(n) => tx.signature_amount_override(*n),
        Op::ClearSigOverride => tx.clear_signature_amount_override(),
        Op::ChangeAddr(a) => tx.change_address(pallas_addresses::Address::from_bytes(&a.0).expect("generated address parses")),
        Op::ClearChangeAddr => tx.clear_change_address(),
        Op::Aux(b) => tx.add_auxiliary_data(b.0.clone()),
        Op::ClearAux => tx.clear_auxiliary_data(),
    }
}

// ---------------------------------------------------------------------------------------
// reader of built transactions (own walker)
// ---------------------------------------------------------------------------------------

#[derive(Clone, Debug, PartialEq, Eq)]
pub struct POut {
    pub addr: Hx,
    pub coin: u64,
    pub assets: BTreeMap<Hx, BTreeMap<Hx, u128>>,
    pub datum: Option<(bool, Hx)>,
    pub script: Option<(u8, Hx)>,
}

#[derive(Clone, Debug, PartialEq, Eq, PartialOrd, Ord)]
pub struct PRedeemer {
    pub tag: u64,
    pub index: u64,
    pub data: Hx,
    pub ex: (u64, u64),
}

#[derive(Clone, Debug, Default)]
pub struct PTx {
    pub body: (usize, usize),
    pub wits: (usize, usize),
    pub inputs: Vec<In>,
    pub outputs: Vec<POut>,
    pub fee: Option<u64>,
    pub ttl: Option<u64>,
    pub aux_hash: Option<Hx>,
    pub start: Option<u64>,
    pub mint: Option<BTreeMap<Hx, BTreeMap<Hx, i128>>>,
    pub sdh: Option<Hx>,
    pub collateral: Option<Vec<In>>,
    pub signers: Option<Vec<Hx>>,
    pub network: Option<u64>,
    pub coll_ret: Option<POut>,
    pub ref_inputs: Option<Vec<In>>,
    pub other_body_keys: Vec<u64>,
    pub vkeys: Option<Vec<(Hx, Hx)>>,
    pub native: Option<Vec<Hx>>,
    pub plutus: [Option<Vec<Hx>>; 3],
    pub datums: Option<Vec<Hx>>,
    pub datums_span: Option<(usize, usize)>,
    pub redeemers: Option<Vec<PRedeemer>>,
    pub redeemers_span: Option<(usize, usize)>,
    pub other_wit_keys: Vec<u64>,
    /// spans of every witness-set entry except key 0, concatenated (for "unchanged" checks)
    pub nonvkey_wit_bytes: Vec<u8>,
    pub valid: Option<bool>,
    pub aux: Option<Hx>,
}

fn unset<'a>(it: &'a Item) -> &'a Item {
    if it.major == 6 && it.arg == 258 {
        &it.children[0]
    } else {
        it
    }
}
fn uint(it: &Item, what: &str) -> Result<u64, String> {
    if it.major == 0 {
        Ok(it.arg)
    } else {
        Err(format!("{what}: expected uint, major {}", it.major))
    }
}
fn bytes(src: &[u8], it: &Item, what: &str) -> Result<Hx, String> {
    if it.major == 2 {
        Ok(Hx(it.str_payload(src)))
    } else {
        Err(format!("{what}: expected bytes, major {}", it.major))
    }
}
fn array<'a>(it: &'a Item, what: &str) -> Result<&'a [Item], String> {
    if it.major == 4 {
        Ok(&it.children)
    } else {
        Err(format!("{what}: expected array, major {}", it.major))
    }
}
fn read_input(src: &[u8], it: &Item) -> Result<In, String> {
    let a = array(it, "input")?;
    if a.len() != 2 {
        return Err("input: not a pair".into());
    }
    let h = bytes(src, &a[0], "input.hash")?;
    if h.0.len() != 32 {
        return Err("input.hash: not 32 bytes".into());
    }
    Ok((h, uint(&a[1], "input.index")?))
}
fn read_inputs(src: &[u8], it: &Item) -> Result<Vec<In>, String> {
    array(unset(it), "input set")?.iter().map(|x| read_input(src, x)).collect()
}
fn read_assets<T: TryFrom<i128>>(src: &[u8], it: &Item, what: &str) -> Result<BTreeMap<Hx, BTreeMap<Hx, T>>, String> {
    if it.major != 5 {
        return Err(format!("{what}: expected map"));
    }
    let mut out = BTreeMap::new();
    for (k, v) in it.map_entries() {
        let pol = bytes(src, k, what)?;
        if pol.0.len() != 28 {
            return Err(format!("{what}: policy id is not 28 bytes"));
        }
        if v.major != 5 {
            return Err(format!("{what}: expected inner map"));
        }
        let mut inner = BTreeMap::new();
        for (n, q) in v.map_entries() {
            let name = bytes(src, n, what)?;
            let val: i128 = match q.major {
                0 => q.arg as i128,
                1 => -1 - q.arg as i128,
                _ => return Err(format!("{what}: quantity is not an integer")),
            };
            let val = T::try_from(val).map_err(|_| format!("{what}: quantity out of range"))?;
            if inner.insert(name, val).is_some() {
                return Err(format!("{what}: duplicate asset name"));
            }
        }
        if out.insert(pol, inner).is_some() {
            return Err(format!("{what}: duplicate policy"));
        }
    }
    Ok(out)
}
fn read_output(src: &[u8], it: &Item) -> Result<POut, String> {
    if it.major != 5 {
        return Err("output: expected post-alonzo map".into());
    }
    let addr = bytes(src, it.map_get_uint(0).ok_or("output: no address")?, "output.address")?;
    let v = it.map_get_uint(1).ok_or("output: no value")?;
    let (coin, assets) = if v.major == 0 {
        (v.arg, BTreeMap::new())
    } else {
        let a = array(v, "output.value")?;
        if a.len() != 2 {
            return Err("output.value: not a pair".into());
        }
        (uint(&a[0], "output.coin")?, read_assets::<u128>(src, &a[1], "output.assets")?)
    };
    let datum = match it.map_get_uint(2) {
        None => None,
        Some(d) => {
            let a = array(d, "output.datum")?;
            if a.len() != 2 {
                return Err("output.datum: not a pair".into());
            }
            match uint(&a[0], "output.datum.kind")? {
                0 => Some((false, bytes(src, &a[1], "output.datum.hash")?)),
                1 => {
                    if a[1].major != 6 || a[1].arg != 24 {
                        return Err("output.datum: inline datum not wrapped in tag 24".into());
                    }
                    Some((true, bytes(src, &a[1].children[0], "output.datum.inline")?))
                }
                k => return Err(format!("output.datum: kind {k}")),
            }
        }
    };
    let script = match it.map_get_uint(3) {
        None => None,
        Some(s) => {
            if s.major != 6 || s.arg != 24 {
                return Err("output.script_ref: not wrapped in tag 24".into());
            }
            let inner = bytes(src, &s.children[0], "output.script_ref")?;
            let p = cbor::parse(&inner.0).map_err(|e| format!("output.script_ref: inner bytes not cbor: {e:?}"))?;
            let a = array(&p, "output.script_ref.inner")?;
            if a.len() != 2 {
                return Err("output.script_ref: not a pair".into());
            }
            let kind = uint(&a[0], "output.script_ref.kind")?;
            let body = if kind == 0 { Hx(a[1].bytes(&inner.0).to_vec()) } else { bytes(&inner.0, &a[1], "output.script_ref.bytes")? };
            Some((kind as u8, body))
        }
    };
    for (k, _) in it.map_entries() {
        if k.major != 0 || k.arg > 3 {
            return Err("output: unexpected key".into());
        }
    }
    Ok(POut { addr, coin, assets, datum, script })
}

pub fn read_tx(src: &[u8]) -> Result<PTx, String> {
    let top = cbor::parse(src).map_err(|e| format!("tx bytes are not one well-formed CBOR item: {e:?}"))?;
    let t = array(&top, "tx")?;
    if t.len() != 4 {
        return Err(format!("tx: array of {} items", t.len()));
    }
    let mut p = PTx { body: (t[0].start, t[0].end), wits: (t[1].start, t[1].end), ..Default::default() };
    let b = &t[0];
    if b.major != 5 {
        return Err("body: not a map".into());
    }
    let mut seen = BTreeSet::new();
    for (k, v) in b.map_entries() {
        let key = uint(k, "body key")?;
        if !seen.insert(key) {
            return Err(format!("body: duplicate key {key}"));
        }
        match key {
            0 => p.inputs = read_inputs(src, v)?,
            1 => p.outputs = array(v, "outputs")?.iter().map(|o| read_output(src, o)).collect::<Result<_, _>>()?,
            2 => p.fee = Some(uint(v, "fee")?),
            3 => p.ttl = Some(uint(v, "ttl")?),
            7 => p.aux_hash = Some(bytes(src, v, "aux hash")?),
            8 => p.start = Some(uint(v, "validity start")?),
            9 => p.mint = Some(read_assets::<i128>(src, v, "mint")?),
            11 => p.sdh = Some(bytes(src, v, "script data hash")?),
            13 => p.collateral = Some(read_inputs(src, v)?),
            14 => p.signers = Some(array(unset(v), "required signers")?.iter().map(|x| bytes(src, x, "signer")).collect::<Result<_, _>>()?),
            15 => p.network = Some(uint(v, "network id")?),
            16 => p.coll_ret = Some(read_output(src, v)?),
            18 => p.ref_inputs = Some(read_inputs(src, v)?),
            other => p.other_body_keys.push(other),
        }
    }
    let w = &t[1];
    if w.major != 5 {
        return Err("witness set: not a map".into());
    }
    let mut seen = BTreeSet::new();
    for (k, v) in w.map_entries() {
        let key = uint(k, "witness key")?;
        if !seen.insert(key) {
            return Err(format!("witness set: duplicate key {key}"));
        }
        if key != 0 {
            p.nonvkey_wit_bytes.extend_from_slice(k.bytes(src));
            p.nonvkey_wit_bytes.extend_from_slice(v.bytes(src));
        }
        match key {
            0 => {
                let mut out = vec![];
                for x in array(unset(v), "vkey witnesses")? {
                    let a = array(x, "vkey witness")?;
                    if a.len() != 2 {
                        return Err("vkey witness: not a pair".into());
                    }
                    out.push((bytes(src, &a[0], "vkey")?, bytes(src, &a[1], "signature")?));
                }
                p.vkeys = Some(out);
            }
            1 => p.native = Some(array(unset(v), "native scripts")?.iter().map(|x| Hx(x.bytes(src).to_vec())).collect()),
            3 | 6 | 7 => {
                let i = match key {
                    3 => 0,
                    6 => 1,
                    _ => 2,
                };
                p.plutus[i] = Some(array(unset(v), "plutus scripts")?.iter().map(|x| bytes(src, x, "plutus script")).collect::<Result<_, _>>()?);
            }
            4 => {
                p.datums_span = Some((v.start, v.end));
                p.datums = Some(array(unset(v), "datums")?.iter().map(|x| Hx(x.bytes(src).to_vec())).collect());
            }
            5 => {
                p.redeemers_span = Some((v.start, v.end));
                let mut out = vec![];
                if v.major == 4 {
                    for x in &v.children {
                        let a = array(x, "redeemer")?;
                        if a.len() != 4 {
                            return Err("redeemer: not 4 items".into());
                        }
                        let ex = array(&a[3], "ex units")?;
                        if ex.len() != 2 {
                            return Err("ex units: not a pair".into());
                        }
                        out.push(PRedeemer {
                            tag: uint(&a[0], "redeemer tag")?,
                            index: uint(&a[1], "redeemer index")?,
                            data: Hx(a[2].bytes(src).to_vec()),
                            ex: (uint(&ex[0], "mem")?, uint(&ex[1], "steps")?),
                        });
                    }
                } else if v.major == 5 {
                    for (rk, rv) in v.map_entries() {
                        let ka = array(rk, "redeemer key")?;
                        let va = array(rv, "redeemer value")?;
                        if ka.len() != 2 || va.len() != 2 {
                            return Err("redeemer map entry: wrong arity".into());
                        }
                        let ex = array(&va[1], "ex units")?;
                        if ex.len() != 2 {
                            return Err("ex units: not a pair".into());
                        }
                        out.push(PRedeemer {
                            tag: uint(&ka[0], "redeemer tag")?,
                            index: uint(&ka[1], "redeemer index")?,
                            data: Hx(va[0].bytes(src).to_vec()),
                            ex: (uint(&ex[0], "mem")?, uint(&ex[1], "steps")?),
                        });
                    }
                } else {
                    return Err("redeemers: neither list nor map".into());
                }
                p.redeemers = Some(out);
            }
            other => p.other_wit_keys.push(other),
        }
    }
    p.valid = match (t[2].major, t[2].ai) {
        (7, 21) => Some(true),
        (7, 20) => Some(false),
        _ => None,
    };
    p.aux = if t[3].is_null() { None } else { Some(Hx(t[3].bytes(src).to_vec())) };
    Ok(p)
}

// ---------------------------------------------------------------------------------------
// built == staged ?
// ---------------------------------------------------------------------------------------

fn expected_out(o: &MOutput) -> POut {
    let assets: BTreeMap<Hx, BTreeMap<Hx, u128>> = o
        .assets()
        .into_iter()
        .map(|(p, m)| (p, m.into_iter().filter(|(_, a)| *a != 0).collect::<BTreeMap<_, _>>()))
        .filter(|(_, m)| !m.is_empty())
        .collect();
    POut { addr: o.addr.clone(), coin: o.lovelace, assets, datum: o.datum.clone(), script: o.script.clone() }
}

/// semantic normal form: minimal heads, definite containers, unchunked strings (own encoder)
pub fn normalize(b: &[u8]) -> Vec<u8> {
    fn go(n: &Node) -> Node {
        match n {
            Node::UInt(v, _) => Node::UInt(*v, 0),
            Node::NInt(v, _) => Node::NInt(*v, 0),
            Node::Bytes(b, _) => Node::Bytes(b.clone(), 0),
            Node::BytesIndef(cs) => Node::Bytes(cs.concat(), 0),
            Node::Text(s, _) => Node::Text(s.clone(), 0),
            Node::TextIndef(cs) => Node::Text(cs.concat(), 0),
            Node::Array(xs, _) | Node::ArrayIndef(xs) => Node::Array(xs.iter().map(go).collect(), 0),
            Node::Map(xs, _) | Node::MapIndef(xs) => Node::Map(xs.iter().map(|(k, v)| (go(k), go(v))).collect(), 0),
            Node::Tag(t, _, x) => Node::Tag(*t, 0, Box::new(go(x))),
            other => other.clone(),
        }
    }
    match cbor::parse(b) {
        Ok(it) => go(&cbor::to_node(b, &it)).to_vec(),
        Err(_) => b.to_vec(),
    }
}

/// which non-minimal / unusual encoding feature a byte string uses (first found)
pub fn noncanonical_style(b: &[u8]) -> &'static str {
    fn go(it: &Item) -> Option<&'static str> {
        let min = if it.arg < 24 { 1 } else if it.arg < 256 { 2 } else if it.arg < 65536 { 3 } else if it.arg < (1 << 32) { 5 } else { 9 };
        if !it.indef && it.major != 7 && it.head_len > min {
            return Some("nonminimal-head");
        }
        for c in &it.children {
            if let Some(s) = go(c) {
                return Some(s);
            }
        }
        None
    }
    match cbor::parse(b) {
        Ok(it) => go(&it).unwrap_or("ledger-style"),
        Err(_) => "not-cbor",
    }
}

/// auxiliary data with the Plutus V2 / V3 script lists (keys 3, 4 of the tag-259 map) removed
fn drop_aux_v2v3(b: &[u8]) -> Option<Vec<u8>> {
    let it = cbor::parse(b).ok()?;
    if let Node::Tag(259, _, inner) = cbor::to_node(b, &it) {
        if let Node::Map(es, _) | Node::MapIndef(es) = *inner {
            let kept: Vec<(Node, Node)> = es.into_iter().filter(|(k, _)| !matches!(k, Node::UInt(3, _) | Node::UInt(4, _))).collect();
            return Some(Node::tag(259, Node::map(kept)).to_vec());
        }
    }
    None
}

fn sorted<T: Ord + Clone>(v: &[T]) -> Vec<T> {
    let mut w = v.to_vec();
    w.sort();
    w
}
fn set_of<T: Ord + Clone>(v: &[T]) -> Vec<T> {
    let s: BTreeSet<T> = v.iter().cloned().collect();
    s.into_iter().collect()
}

/// set-like field: (signature class, detail) list
fn cmp_set<T: Ord + Clone + std::fmt::Debug>(field: &str, staged: &[T], built: Option<&Vec<T>>, out: &mut Vec<(String, String)>) {
    let want = set_of(staged);
    match built {
        None => {
            if !want.is_empty() {
                out.push((format!("C40:{field}:missing"), format!("staged {want:?}, field absent in built body")));
            }
        }
        Some(b) => {
            if b.is_empty() {
                out.push((format!("C40:{field}:empty-set-encoded"), "field present but empty".into()));
            }
            if set_of(b) != want {
                out.push((format!("C40:{field}:mismatch"), format!("staged {want:?}, built {b:?}")));
            } else if b.len() != want.len() {
                out.push((format!("C40:{field}:duplicate-kept"), format!("staged set {want:?}, built list with repeated members {b:?}")));
            }
        }
    }
}

/// Compares a successfully built transaction with the model. Returns (signature, detail) pairs.
pub fn compare(m: &Model, tx_bytes: &[u8], tx_hash: &[u8; 32]) -> (Vec<(String, String)>, Option<PTx>) {
    let mut out = vec![];
    let p = match read_tx(tx_bytes) {
        Ok(p) => p,
        Err(e) => {
            let cls: String = e.split(':').next().unwrap_or("?").to_string();
            out.push((format!("C40:structure:{cls}"), e));
            return (out, None);
        }
    };
    // id
    let want_id = blake2b_256(&tx_bytes[p.body.0..p.body.1]);
    if &want_id != tx_hash {
        out.push(("C40:id:not-hash-of-body-bytes".into(), format!("tx_hash {} but Blake2b-256(body bytes) {}", hex::encode(tx_hash), hex::encode(want_id))));
    }
    // inputs (always present)
    cmp_set("inputs", &m.inputs, Some(&p.inputs), &mut out);
    out.retain(|(s, _)| s != "C40:inputs:empty-set-encoded"); // key 0 is mandatory, empty allowed
    cmp_set("reference_inputs", &m.ref_inputs, p.ref_inputs.as_ref(), &mut out);
    cmp_set("collateral", &m.collateral, p.collateral.as_ref(), &mut out);
    cmp_set("required_signers", &m.signers, p.signers.as_ref(), &mut out);
    // outputs
    let want_outs: Vec<POut> = m.outputs.iter().map(expected_out).collect();
    if want_outs != p.outputs {
        let cls = if want_outs.len() != p.outputs.len() {
            "count"
        } else {
            let i = (0..want_outs.len()).find(|i| want_outs[*i] != p.outputs[*i]).unwrap();
            let (a, b) = (&want_outs[i], &p.outputs[i]);
            if a.addr != b.addr {
                "address"
            } else if a.coin != b.coin {
                "coin"
            } else if a.assets != b.assets {
                "assets"
            } else if a.datum != b.datum {
                "datum"
            } else {
                "script_ref"
            }
        };
        out.push((format!("C40:outputs:{cls}"), format!("staged {want_outs:?}, built {:?}", p.outputs)));
    }
    let want_cr = m.coll_output.as_ref().map(expected_out);
    if want_cr != p.coll_ret {
        out.push(("C40:collateral_return:mismatch".into(), format!("staged {want_cr:?}, built {:?}", p.coll_ret)));
    }
    if let Some(f) = m.fee {
        if p.fee != Some(f) {
            out.push(("C40:fee:mismatch".into(), format!("staged {f}, built {:?}", p.fee)));
        }
    }
    if p.fee.is_none() {
        out.push(("C40:fee:absent".into(), "body has no fee (key 2 is mandatory)".into()));
    }
    if p.ttl != m.invalid_from {
        out.push(("C40:ttl:mismatch".into(), format!("staged {:?}, built {:?}", m.invalid_from, p.ttl)));
    }
    if p.start != m.valid_from {
        out.push(("C40:validity_start:mismatch".into(), format!("staged {:?}, built {:?}", m.valid_from, p.start)));
    }
    if p.network != m.network_id.map(|x| x as u64) {
        out.push(("C40:network_id:mismatch".into(), format!("staged {:?}, built {:?}", m.network_id, p.network)));
    }
    // mint
    let em = m.effective_mint();
    let built_mint = p.mint.clone().unwrap_or_default();
    if p.mint.as_ref().map(|x| x.is_empty()).unwrap_or(false) {
        out.push(("C40:mint:empty-map-encoded".into(), "mint present but empty".into()));
    }
    if built_mint != em {
        let zero = built_mint.values().any(|x| x.values().any(|a| *a == 0));
        out.push((format!("C40:mint:{}", if zero { "zero-quantity-built" } else { "mismatch" }), format!("staged {em:?}, built {built_mint:?}")));
    }
    // aux data
    match (&m.aux, &p.aux) {
        (None, None) => {
            if p.aux_hash.is_some() {
                out.push(("C40:aux:hash-without-data".into(), "auxiliary_data_hash set but no auxiliary data".into()));
            }
        }
        (Some(a), Some(b)) => {
            if a != b {
                let cls = if normalize(&a.0) == normalize(&b.0) {
                    "reencoded"
                } else if drop_aux_v2v3(&a.0).map(|x| normalize(&x) == normalize(&b.0)).unwrap_or(false) {
                    "post-alonzo-plutus-v2v3-scripts-dropped"
                } else {
                    "content-differs"
                };
                out.push((format!("C40:aux:{cls}"), format!("staged {a:?}, built {b:?}")));
            }
            let h = Hx(blake2b_256(&b.0).to_vec());
            if p.aux_hash.as_ref() != Some(&h) {
                out.push(("C40:aux:hash-mismatch".into(), format!("auxiliary_data_hash {:?}, Blake2b-256 of the aux bytes in the tx {h:?}", p.aux_hash)));
            }
        }
        (a, b) => out.push(("C40:aux:presence".into(), format!("staged {a:?}, built {b:?}"))),
    }
    if !p.other_body_keys.is_empty() {
        out.push(("C40:body:unstaged-field".into(), format!("body keys {:?} were never staged", p.other_body_keys)));
    }
    // witness set
    if p.vkeys.is_some() {
        out.push(("C40:witness:vkeys-on-unsigned".into(), "freshly built tx carries vkey witnesses".into()));
    }
    if !p.other_wit_keys.is_empty() {
        out.push(("C40:witness:unstaged-field".into(), format!("witness keys {:?}", p.other_wit_keys)));
    }
    for kind in 0..4u8 {
        let want: Vec<Hx> = sorted(&m.scripts.values().filter(|(k, _)| *k == kind).map(|(_, b)| b.clone()).collect::<Vec<_>>());
        let got_opt = if kind == 0 { &p.native } else { &p.plutus[kind as usize - 1] };
        let got = sorted(got_opt.as_deref().unwrap_or(&[]));
        if got_opt.as_ref().map(|x| x.is_empty()).unwrap_or(false) {
            out.push((format!("C40:scripts:kind{kind}:empty-set-encoded"), "script field present but empty".into()));
        }
        if want != got {
            out.push((format!("C40:scripts:kind{kind}:mismatch"), format!("staged {want:?}, built {got:?}")));
        }
    }
    let want_d: Vec<Hx> = sorted(&m.datums.values().cloned().collect::<Vec<_>>());
    let got_d = sorted(p.datums.as_deref().unwrap_or(&[]));
    if p.datums.as_ref().map(|x| x.is_empty()).unwrap_or(false) {
        out.push(("C40:datums:empty-set-encoded".into(), "datum field present but empty".into()));
    }
    if want_d != got_d {
        let want_s: BTreeSet<&Hx> = want_d.iter().collect();
        let got_s: BTreeSet<&Hx> = got_d.iter().collect();
        let mut extra: Vec<&Hx> = got_s.difference(&want_s).cloned().collect();
        let mut missing: Vec<&Hx> = want_s.difference(&got_s).cloned().collect();
        let detail = format!("staged {want_d:?}, built {got_d:?}");
        // (1) same data under different bytes (=> a different datum hash)
        let mut styles: BTreeSet<&str> = BTreeSet::new();
        missing.retain(|d| {
            let nd = normalize(&d.0);
            if let Some(pos) = extra.iter().position(|e| normalize(&e.0) == nd) {
                extra.remove(pos);
                styles.insert(noncanonical_style(&d.0));
                false
            } else {
                true
            }
        });
        if !styles.is_empty() {
            out.push((format!("C40:datums:reencoded:staged-style={}", styles.into_iter().collect::<Vec<_>>().join("+")), detail.clone()));
        }
        // (2) surplus datums which the caller had removed through their Blake2b-256 hash
        let removed_norm: BTreeSet<Vec<u8>> = m.removed_by_hash.iter().map(|d| normalize(&d.0)).collect();
        let before = extra.len();
        extra.retain(|e| !removed_norm.contains(&normalize(&e.0)));
        if extra.len() != before {
            out.push(("C40:datums:remove_datum_by_hash-ineffective".into(), detail.clone()));
        }
        // (3) anything else
        if !extra.is_empty() || !missing.is_empty() || (want_d.len() != got_d.len() && before == 0 && got_s.len() == want_s.len()) {
            out.push(("C40:datums:mismatch".into(), detail));
        }
    }
    // redeemers
    let ins = m.input_set();
    let pols: Vec<Hx> = em.keys().cloned().collect();
    let mut want_r = vec![];
    let mut resolvable = true;
    for (pu, (d, ex)) in &m.redeemers {
        let (tag, idx) = match pu {
            Purpose::Spend(i) => (0u64, ins.iter().position(|x| x == i)),
            Purpose::Mint(pol) => (1u64, pols.iter().position(|x| x == pol)),
        };
        match idx {
            Some(ix) => want_r.push((tag, ix as u64, d.clone(), *ex)),
            None => resolvable = false,
        }
    }
    if !resolvable {
        out.push(("C40:redeemers:dangling-target-accepted".into(), "a redeemer whose target is not in the transaction was accepted".into()));
    } else {
        let got = sorted(p.redeemers.as_deref().unwrap_or(&[]));
        let mut want_full: Vec<PRedeemer> = vec![];
        let mut got_cmp = got.clone();
        for (tag, index, data, ex) in &want_r {
            want_full.push(PRedeemer { tag: *tag, index: *index, data: data.clone(), ex: ex.unwrap_or((0, 0)) });
        }
        // redeemers staged without ex-units: any budget is acceptable in the built tx
        let free: BTreeSet<(u64, Hx)> = want_r.iter().filter(|r| r.3.is_none()).map(|r| (r.0, r.2.clone())).collect();
        if !free.is_empty() {
            for g in got_cmp.iter_mut() {
                if free.contains(&(g.tag, g.data.clone())) {
                    g.ex = (0, 0);
                }
            }
            got_cmp.sort();
        }
        want_full.sort();
        if want_full != got_cmp {
            let same_but_index = want_full.len() == got_cmp.len() && {
                let strip = |v: &Vec<PRedeemer>| sorted(&v.iter().map(|r| (r.tag, r.data.clone(), r.ex)).collect::<Vec<_>>());
                strip(&want_full) == strip(&got_cmp)
            };
            let cls = if same_but_index {
                let spend_idx = |v: &Vec<PRedeemer>| v.iter().filter(|r| r.tag == 0).map(|r| (r.data.clone(), r.ex, r.index)).collect::<Vec<_>>();
                let spend_off = spend_idx(&want_full) != spend_idx(&got_cmp);
                if spend_off {
                    // what indexing into the sorted list *with* repeated members would give
                    let multi = sorted(&m.inputs);
                    let mut with_dups: Vec<PRedeemer> = vec![];
                    for (pu, (d, ex)) in &m.redeemers {
                        if let Purpose::Spend(i) = pu {
                            with_dups.push(PRedeemer { tag: 0, index: multi.iter().position(|x| x == i).unwrap() as u64, data: d.clone(), ex: ex.unwrap_or((0, 0)) });
                        }
                    }
                    with_dups.sort();
                    let got_spend: Vec<PRedeemer> = got_cmp.iter().filter(|r| r.tag == 0).cloned().collect();
                    if Model::has_dup(&m.inputs) && with_dups == got_spend {
                        "index:spend:shifted-by-duplicate-input"
                    } else {
                        "index:spend:wrong"
                    }
                } else {
                    "index:mint:wrong"
                }
            } else {
                "mismatch"
            };
            out.push((format!("C40:redeemers:{cls}"), format!("expected (index = position in the sorted set of inputs / policies) {want_full:?}, built {got_cmp:?}")));
        }
    }
    if p.valid != Some(true) {
        out.push(("C40:validity-flag".into(), format!("{:?}", p.valid)));
    }
    (out, Some(p))
}
