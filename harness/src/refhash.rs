//! Reference Blake2b (RFC 7693) and CRC-32/ISO-HDLC, written from the specs;
//! independent of cryptoxide / crc crates used by pallas. Self-tested in `selftest`.

const IV: [u64; 8] = [
    0x6a09e667f3bcc908,
    0xbb67ae8584caa73b,
    0x3c6ef372fe94f82b,
    0xa54ff53a5f1d36f1,
    0x510e527fade682d1,
    0x9b05688c2b3e6c1f,
    0x1f83d9abfb41bd6b,
    0x5be0cd19137e2179,
];

const SIGMA: [[usize; 16]; 12] = [
    [0, 1, 2, 3, 4, 5, 6, 7, 8, 9, 10, 11, 12, 13, 14, 15],
    [14, 10, 4, 8, 9, 15, 13, 6, 1, 12, 0, 2, 11, 7, 5, 3],
    [11, 8, 12, 0, 5, 2, 15, 13, 10, 14, 3, 6, 7, 1, 9, 4],
    [7, 9, 3, 1, 13, 12, 11, 14, 2, 6, 5, 10, 4, 0, 15, 8],
    [9, 0, 5, 7, 2, 4, 10, 15, 14, 1, 11, 12, 6, 8, 3, 13],
    [2, 12, 6, 10, 0, 11, 8, 3, 4, 13, 7, 5, 15, 14, 1, 9],
    [12, 5, 1, 15, 14, 13, 4, 10, 0, 7, 6, 3, 9, 2, 8, 11],
    [13, 11, 7, 14, 12, 1, 3, 9, 5, 0, 15, 4, 8, 6, 2, 10],
    [6, 15, 14, 9, 11, 3, 0, 8, 12, 2, 13, 7, 1, 4, 10, 5],
    [10, 2, 8, 4, 7, 6, 1, 5, 15, 11, 9, 14, 3, 12, 13, 0],
    [0, 1, 2, 3, 4, 5, 6, 7, 8, 9, 10, 11, 12, 13, 14, 15],
    [14, 10, 4, 8, 9, 15, 13, 6, 1, 12, 0, 2, 11, 7, 5, 3],
];

#[inline]
fn g(v: &mut [u64; 16], a: usize, b: usize, c: usize, d: usize, x: u64, y: u64) {
    v[a] = v[a].wrapping_add(v[b]).wrapping_add(x);
    v[d] = (v[d] ^ v[a]).rotate_right(32);
    v[c] = v[c].wrapping_add(v[d]);
    v[b] = (v[b] ^ v[c]).rotate_right(24);
    v[a] = v[a].wrapping_add(v[b]).wrapping_add(y);
    v[d] = (v[d] ^ v[a]).rotate_right(16);
    v[c] = v[c].wrapping_add(v[d]);
    v[b] = (v[b] ^ v[c]).rotate_right(63);
}

fn compress(h: &mut [u64; 8], block: &[u8; 128], t: u128, last: bool) {
    let mut m = [0u64; 16];
    for i in 0..16 {
        m[i] = u64::from_le_bytes(block[i * 8..i * 8 + 8].try_into().unwrap());
    }
    let mut v = [0u64; 16];
    v[..8].copy_from_slice(h);
    v[8..].copy_from_slice(&IV);
    v[12] ^= t as u64;
    v[13] ^= (t >> 64) as u64;
    if last {
        v[14] = !v[14];
    }
    for r in 0..12 {
        let s = &SIGMA[r];
        g(&mut v, 0, 4, 8, 12, m[s[0]], m[s[1]]);
        g(&mut v, 1, 5, 9, 13, m[s[2]], m[s[3]]);
        g(&mut v, 2, 6, 10, 14, m[s[4]], m[s[5]]);
        g(&mut v, 3, 7, 11, 15, m[s[6]], m[s[7]]);
        g(&mut v, 0, 5, 10, 15, m[s[8]], m[s[9]]);
        g(&mut v, 1, 6, 11, 12, m[s[10]], m[s[11]]);
        g(&mut v, 2, 7, 8, 13, m[s[12]], m[s[13]]);
        g(&mut v, 3, 4, 9, 14, m[s[14]], m[s[15]]);
    }
    for i in 0..8 {
        h[i] ^= v[i] ^ v[i + 8];
    }
}

/// unkeyed Blake2b with `outlen` bytes of output (1..=64)
pub fn blake2b(outlen: usize, data: &[u8]) -> Vec<u8> {
    assert!((1..=64).contains(&outlen));
    let mut h = IV;
    h[0] ^= 0x01010000 ^ outlen as u64;
    let mut t: u128 = 0;
    let mut off = 0usize;
    // all blocks but the last
    while data.len() - off > 128 {
        let blk: &[u8; 128] = data[off..off + 128].try_into().unwrap();
        t += 128;
        compress(&mut h, blk, t, false);
        off += 128;
    }
    let rest = &data[off..];
    let mut blk = [0u8; 128];
    blk[..rest.len()].copy_from_slice(rest);
    t += rest.len() as u128;
    compress(&mut h, &blk, t, true);
    let mut out = Vec::with_capacity(64);
    for w in h.iter() {
        out.extend_from_slice(&w.to_le_bytes());
    }
    out.truncate(outlen);
    out
}

pub fn blake2b_256(data: &[u8]) -> [u8; 32] {
    blake2b(32, data).try_into().unwrap()
}
pub fn blake2b_224(data: &[u8]) -> [u8; 28] {
    blake2b(28, data).try_into().unwrap()
}
pub fn blake2b_160(data: &[u8]) -> [u8; 20] {
    blake2b(20, data).try_into().unwrap()
}

/// CRC-32/ISO-HDLC (poly 0xEDB88320 reflected, init/xorout 0xffffffff), bitwise
pub fn crc32(data: &[u8]) -> u32 {
    let mut c: u32 = 0xffff_ffff;
    for b in data {
        c ^= *b as u32;
        for _ in 0..8 {
            c = if c & 1 == 1 { (c >> 1) ^ 0xEDB8_8320 } else { c >> 1 };
        }
    }
    !c
}

/// SHA3-256 is needed for Byron address roots (sha3_256 then blake2b_224)
pub fn sha3_256(data: &[u8]) -> [u8; 32] {
    const RC: [u64; 24] = [
        0x0000000000000001,
        0x0000000000008082,
        0x800000000000808a,
        0x8000000080008000,
        0x000000000000808b,
        0x0000000080000001,
        0x8000000080008081,
        0x8000000000008009,
        0x000000000000008a,
        0x0000000000000088,
        0x0000000080008009,
        0x000000008000000a,
        0x000000008000808b,
        0x800000000000008b,
        0x8000000000008089,
        0x8000000000008003,
        0x8000000000008002,
        0x8000000000000080,
        0x000000000000800a,
        0x800000008000000a,
        0x8000000080008081,
        0x8000000000008080,
        0x0000000080000001,
        0x8000000080008008,
    ];
    const ROT: [u32; 25] = [0, 1, 62, 28, 27, 36, 44, 6, 55, 20, 3, 10, 43, 25, 39, 41, 45, 15, 21, 8, 18, 2, 61, 56, 14];
    fn f(a: &mut [u64; 25]) {
        for rc in RC.iter() {
            let mut c = [0u64; 5];
            for x in 0..5 {
                c[x] = a[x] ^ a[x + 5] ^ a[x + 10] ^ a[x + 15] ^ a[x + 20];
            }
            for x in 0..5 {
                let d = c[(x + 4) % 5] ^ c[(x + 1) % 5].rotate_left(1);
                for y in 0..5 {
                    a[x + 5 * y] ^= d;
                }
            }
            let mut b = [0u64; 25];
            for x in 0..5 {
                for y in 0..5 {
                    b[y + 5 * ((2 * x + 3 * y) % 5)] = a[x + 5 * y].rotate_left(ROT[x + 5 * y]);
                }
            }
            for x in 0..5 {
                for y in 0..5 {
                    a[x + 5 * y] = b[x + 5 * y] ^ (!b[(x + 1) % 5 + 5 * y] & b[(x + 2) % 5 + 5 * y]);
                }
            }
            a[0] ^= rc;
        }
    }
    let rate = 136;
    let mut st = [0u64; 25];
    let mut padded = data.to_vec();
    padded.push(0x06);
    while padded.len() % rate != 0 {
        padded.push(0);
    }
    let n = padded.len();
    padded[n - 1] |= 0x80;
    for blk in padded.chunks(rate) {
        for i in 0..rate / 8 {
            st[i] ^= u64::from_le_bytes(blk[i * 8..i * 8 + 8].try_into().unwrap());
        }
        f(&mut st);
    }
    let mut out = [0u8; 32];
    for i in 0..4 {
        out[i * 8..i * 8 + 8].copy_from_slice(&st[i].to_le_bytes());
    }
    out
}

/// RFC 7693 appendix A vector, empty-input vectors, CRC check value, SHA3 vectors.
pub fn selftest() -> Result<(), String> {
    let abc512 = hex::encode(blake2b(64, b"abc"));
    if abc512
        != "ba80a53f981c4d0d6a2797b69f12f6e94c212f14685ac4b74b12bb6fdbffa2d17d87c5392aab792dc252d5de4533cc9518d38aa8dbf1925ab92386edd4009923"
    {
        return Err(format!("blake2b-512(abc) = {abc512}"));
    }
    let e256 = hex::encode(blake2b(32, b""));
    if e256 != "0e5751c026e543b2e8ab2eb06099daa1d1e5df47778f7787faab45cdf12fe3a8" {
        return Err(format!("blake2b-256('') = {e256}"));
    }
    let e224 = hex::encode(blake2b(28, b""));
    if e224 != "836cc68931c2e4e3e838602eca1902591d216837bafddfe6f0c8cb07" {
        return Err(format!("blake2b-224('') = {e224}"));
    }
    if crc32(b"123456789") != 0xCBF43926 {
        return Err("crc32 check value".into());
    }
    let s = hex::encode(sha3_256(b""));
    if s != "a7ffc6f8bf1ed76651c14756a061d662f580ff4de43b49fa82d80a4b80f8434a" {
        return Err(format!("sha3-256('') = {s}"));
    }
    let s = hex::encode(sha3_256(b"abc"));
    if s != "3a985da74fe225b2045c172d6bd390bd855f086e3e9d525b46bfe24511431532" {
        return Err(format!("sha3-256(abc) = {s}"));
    }
    // multi-block consistency: 129..300 byte inputs must differ from each other and be stable under split points
    let data: Vec<u8> = (0..300u32).map(|i| (i * 7 + 3) as u8).collect();
    let a = blake2b(32, &data[..128]);
    let b = blake2b(32, &data[..129]);
    if a == b {
        return Err("block boundary".into());
    }
    Ok(())
}
