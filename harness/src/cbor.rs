//! Own CBOR toolkit (RFC 8949), independent of minicbor:
//!  * `parse`   : span tree of one data item (+ strict well-formedness checking)
//!  * `Node`    : value tree with explicit encoding style, own encoder
//!  * `restyle` : semantics-preserving re-encoding (head widths, def/indef, tag 258, map order)
//!  * `mutate`  : semantics-breaking byte-level / structure-aware mutations

use crate::prng::Rng;

#[derive(Clone, Debug, PartialEq, Eq)]
pub enum CborError {
    Truncated(usize),
    Reserved(usize),
    StrayBreak(usize),
    BadChunk(usize),
    Trailing(usize),
    TooDeep(usize),
    Utf8(usize),
}

/// Span tree of a parsed item.
#[derive(Clone, Debug)]
pub struct Item {
    pub start: usize,
    pub end: usize,
    pub major: u8,
    /// additional-information value 0..31
    pub ai: u8,
    /// argument (value / length / tag / simple or float bits); 0 for indefinite
    pub arg: u64,
    pub head_len: usize,
    pub indef: bool,
    /// arrays: elements; maps: k0,v0,k1,v1..; tags: one child; indefinite strings: chunks
    pub children: Vec<Item>,
}

impl Item {
    pub fn bytes<'a>(&self, src: &'a [u8]) -> &'a [u8] {
        &src[self.start..self.end]
    }
    pub fn is_array(&self) -> bool {
        self.major == 4
    }
    pub fn is_map(&self) -> bool {
        self.major == 5
    }
    pub fn is_uint(&self) -> bool {
        self.major == 0
    }
    pub fn is_null(&self) -> bool {
        self.major == 7 && self.ai == 22
    }
    /// payload of a definite byte/text string or concatenation of chunks
    pub fn str_payload(&self, src: &[u8]) -> Vec<u8> {
        if self.indef {
            let mut v = vec![];
            for c in &self.children {
                v.extend_from_slice(&src[c.start + c.head_len..c.end]);
            }
            v
        } else {
            src[self.start + self.head_len..self.end].to_vec()
        }
    }
    pub fn map_entries(&self) -> impl Iterator<Item = (&Item, &Item)> {
        self.children.chunks(2).map(|c| (&c[0], &c[1]))
    }
    /// value of a map entry whose key is the unsigned integer `k`
    pub fn map_get_uint(&self, k: u64) -> Option<&Item> {
        if self.major != 5 {
            return None;
        }
        self.map_entries().find(|(key, _)| key.major == 0 && key.arg == k).map(|(_, v)| v)
    }
    pub fn count_nodes(&self) -> usize {
        1 + self.children.iter().map(|c| c.count_nodes()).sum::<usize>()
    }
}

fn read_head(src: &[u8], pos: usize) -> Result<(u8, u8, u64, usize), CborError> {
    if pos >= src.len() {
        return Err(CborError::Truncated(pos));
    }
    let b = src[pos];
    let major = b >> 5;
    let ai = b & 0x1f;
    let (arg, len) = match ai {
        0..=23 => (ai as u64, 1),
        24 => {
            if pos + 2 > src.len() {
                return Err(CborError::Truncated(pos));
            }
            (src[pos + 1] as u64, 2)
        }
        25 => {
            if pos + 3 > src.len() {
                return Err(CborError::Truncated(pos));
            }
            (u16::from_be_bytes([src[pos + 1], src[pos + 2]]) as u64, 3)
        }
        26 => {
            if pos + 5 > src.len() {
                return Err(CborError::Truncated(pos));
            }
            (u32::from_be_bytes(src[pos + 1..pos + 5].try_into().unwrap()) as u64, 5)
        }
        27 => {
            if pos + 9 > src.len() {
                return Err(CborError::Truncated(pos));
            }
            (u64::from_be_bytes(src[pos + 1..pos + 9].try_into().unwrap()), 9)
        }
        28..=30 => return Err(CborError::Reserved(pos)),
        _ => (0, 1),
    };
    Ok((major, ai, arg, len))
}

const MAX_DEPTH: usize = 4000;

fn parse_at(src: &[u8], pos: usize, depth: usize) -> Result<Item, CborError> {
    if depth > MAX_DEPTH {
        return Err(CborError::TooDeep(pos));
    }
    let (major, ai, arg, head_len) = read_head(src, pos)?;
    let indef = ai == 31;
    let mut it = Item { start: pos, end: pos + head_len, major, ai, arg, head_len, indef, children: vec![] };
    match major {
        0 | 1 => {
            if indef {
                return Err(CborError::Reserved(pos));
            }
        }
        2 | 3 => {
            if indef {
                let mut p = pos + 1;
                loop {
                    if p >= src.len() {
                        return Err(CborError::Truncated(p));
                    }
                    if src[p] == 0xff {
                        p += 1;
                        break;
                    }
                    let c = parse_at(src, p, depth + 1)?;
                    if c.major != major || c.indef {
                        return Err(CborError::BadChunk(p));
                    }
                    p = c.end;
                    it.children.push(c);
                }
                it.end = p;
            } else {
                let end = (pos + head_len).checked_add(arg as usize).ok_or(CborError::Truncated(pos))?;
                if arg > src.len() as u64 || end > src.len() {
                    return Err(CborError::Truncated(pos));
                }
                if major == 3 && std::str::from_utf8(&src[pos + head_len..end]).is_err() {
                    return Err(CborError::Utf8(pos));
                }
                it.end = end;
            }
        }
        4 | 5 => {
            let mult = if major == 5 { 2 } else { 1 };
            let mut p = pos + head_len;
            if indef {
                loop {
                    if p >= src.len() {
                        return Err(CborError::Truncated(p));
                    }
                    if src[p] == 0xff {
                        if major == 5 && it.children.len() % 2 == 1 {
                            return Err(CborError::StrayBreak(p));
                        }
                        p += 1;
                        break;
                    }
                    let c = parse_at(src, p, depth + 1)?;
                    p = c.end;
                    it.children.push(c);
                }
            } else {
                if arg > src.len() as u64 {
                    return Err(CborError::Truncated(pos));
                }
                let n = arg as usize * mult;
                for _ in 0..n {
                    let c = parse_at(src, p, depth + 1)?;
                    p = c.end;
                    it.children.push(c);
                }
            }
            it.end = p;
        }
        6 => {
            if indef {
                return Err(CborError::Reserved(pos));
            }
            let c = parse_at(src, pos + head_len, depth + 1)?;
            it.end = c.end;
            it.children.push(c);
        }
        _ => {
            if indef {
                return Err(CborError::StrayBreak(pos));
            }
            if ai == 24 && arg < 32 {
                return Err(CborError::Reserved(pos));
            }
        }
    }
    Ok(it)
}

/// Parse the first data item of `src`.
pub fn parse_prefix(src: &[u8]) -> Result<Item, CborError> {
    parse_at(src, 0, 0)
}

/// Strict: exactly one well-formed item, nothing after it.
pub fn parse(src: &[u8]) -> Result<Item, CborError> {
    let it = parse_at(src, 0, 0)?;
    if it.end != src.len() {
        return Err(CborError::Trailing(it.end));
    }
    Ok(it)
}

pub fn strict_check(src: &[u8]) -> Result<(), CborError> {
    parse(src).map(|_| ())
}

/// split a concatenation of items
pub fn parse_seq(src: &[u8]) -> Result<Vec<Item>, CborError> {
    let mut v = vec![];
    let mut p = 0;
    while p < src.len() {
        let it = parse_at(src, p, 0)?;
        p = it.end;
        v.push(it);
    }
    Ok(v)
}

// ---------------------------------------------------------------------------------------
// Node: value + style, own encoder
// ---------------------------------------------------------------------------------------

/// head width: 0 = shortest possible, 1/2/4/8 = that many argument bytes (if it fits, else shortest)
pub type W = u8;

#[derive(Clone, Debug, PartialEq)]
pub enum Node {
    UInt(u64, W),
    NInt(u64, W), // value = -1 - n
    Bytes(Vec<u8>, W),
    BytesIndef(Vec<Vec<u8>>),
    Text(String, W),
    TextIndef(Vec<String>),
    Array(Vec<Node>, W),
    ArrayIndef(Vec<Node>),
    Map(Vec<(Node, Node)>, W),
    MapIndef(Vec<(Node, Node)>),
    Tag(u64, W, Box<Node>),
    Simple(u8),
    Bool(bool),
    Null,
    Undefined,
    F64(f64),
    /// pre-encoded bytes inserted verbatim
    Raw(Vec<u8>),
}

pub fn head(major: u8, arg: u64, w: W, out: &mut Vec<u8>) {
    let min = if arg < 24 {
        0
    } else if arg < 256 {
        1
    } else if arg < 65536 {
        2
    } else if arg < (1 << 32) {
        4
    } else {
        8
    };
    let w = if w < min || ![0, 1, 2, 4, 8].contains(&w) { min } else { w };
    let m = major << 5;
    match w {
        0 => out.push(m | arg as u8),
        1 => {
            out.push(m | 24);
            out.push(arg as u8);
        }
        2 => {
            out.push(m | 25);
            out.extend_from_slice(&(arg as u16).to_be_bytes());
        }
        4 => {
            out.push(m | 26);
            out.extend_from_slice(&(arg as u32).to_be_bytes());
        }
        _ => {
            out.push(m | 27);
            out.extend_from_slice(&arg.to_be_bytes());
        }
    }
}

impl Node {
    pub fn encode(&self, out: &mut Vec<u8>) {
        match self {
            Node::UInt(v, w) => head(0, *v, *w, out),
            Node::NInt(v, w) => head(1, *v, *w, out),
            Node::Bytes(b, w) => {
                head(2, b.len() as u64, *w, out);
                out.extend_from_slice(b);
            }
            Node::BytesIndef(cs) => {
                out.push(0x5f);
                for c in cs {
                    head(2, c.len() as u64, 0, out);
                    out.extend_from_slice(c);
                }
                out.push(0xff);
            }
            Node::Text(s, w) => {
                head(3, s.len() as u64, *w, out);
                out.extend_from_slice(s.as_bytes());
            }
            Node::TextIndef(cs) => {
                out.push(0x7f);
                for c in cs {
                    head(3, c.len() as u64, 0, out);
                    out.extend_from_slice(c.as_bytes());
                }
                out.push(0xff);
            }
            Node::Array(xs, w) => {
                head(4, xs.len() as u64, *w, out);
                for x in xs {
                    x.encode(out);
                }
            }
            Node::ArrayIndef(xs) => {
                out.push(0x9f);
                for x in xs {
                    x.encode(out);
                }
                out.push(0xff);
            }
            Node::Map(xs, w) => {
                head(5, xs.len() as u64, *w, out);
                for (k, v) in xs {
                    k.encode(out);
                    v.encode(out);
                }
            }
            Node::MapIndef(xs) => {
                out.push(0xbf);
                for (k, v) in xs {
                    k.encode(out);
                    v.encode(out);
                }
                out.push(0xff);
            }
            Node::Tag(t, w, x) => {
                head(6, *t, *w, out);
                x.encode(out);
            }
            Node::Simple(v) => {
                if *v < 24 {
                    out.push(0xe0 | v);
                } else {
                    out.push(0xf8);
                    out.push(*v);
                }
            }
            Node::Bool(b) => out.push(if *b { 0xf5 } else { 0xf4 }),
            Node::Null => out.push(0xf6),
            Node::Undefined => out.push(0xf7),
            Node::F64(f) => {
                out.push(0xfb);
                out.extend_from_slice(&f.to_bits().to_be_bytes());
            }
            Node::Raw(b) => out.extend_from_slice(b),
        }
    }
    pub fn to_vec(&self) -> Vec<u8> {
        let mut v = vec![];
        self.encode(&mut v);
        v
    }
    pub fn int(v: i128) -> Node {
        if v >= 0 {
            Node::UInt(v as u64, 0)
        } else {
            Node::NInt((-1 - v) as u64, 0)
        }
    }
    pub fn u(v: u64) -> Node {
        Node::UInt(v, 0)
    }
    pub fn bytes(b: &[u8]) -> Node {
        Node::Bytes(b.to_vec(), 0)
    }
    pub fn text(s: &str) -> Node {
        Node::Text(s.to_string(), 0)
    }
    pub fn arr(xs: Vec<Node>) -> Node {
        Node::Array(xs, 0)
    }
    pub fn map(xs: Vec<(Node, Node)>) -> Node {
        Node::Map(xs, 0)
    }
    pub fn tag(t: u64, x: Node) -> Node {
        Node::Tag(t, 0, Box::new(x))
    }
    pub fn raw(b: &[u8]) -> Node {
        Node::Raw(b.to_vec())
    }
}

/// Style-free normal form: minimal heads, definite containers, chunked strings merged. Two
/// encodings denote the same data item (up to encoding style) iff their normal forms are equal.
pub fn canon(n: &Node) -> Node {
    match n {
        Node::UInt(v, _) => Node::UInt(*v, 0),
        Node::NInt(v, _) => Node::NInt(*v, 0),
        Node::Bytes(b, _) => Node::Bytes(b.clone(), 0),
        Node::BytesIndef(cs) => Node::Bytes(cs.concat(), 0),
        Node::Text(t, _) => Node::Text(t.clone(), 0),
        Node::TextIndef(cs) => Node::Text(cs.concat(), 0),
        Node::Array(xs, _) | Node::ArrayIndef(xs) => Node::Array(xs.iter().map(canon).collect(), 0),
        Node::Map(xs, _) | Node::MapIndef(xs) => Node::Map(xs.iter().map(|(k, v)| (canon(k), canon(v))).collect(), 0),
        Node::Tag(t, _, x) => Node::Tag(*t, 0, Box::new(canon(x))),
        other => other.clone(),
    }
}

/// Build a Node tree from a parsed Item (keeps the original style).
pub fn to_node(src: &[u8], it: &Item) -> Node {
    let w = match it.ai {
        24 => 1,
        25 => 2,
        26 => 4,
        27 => 8,
        _ => 0,
    };
    match it.major {
        0 => Node::UInt(it.arg, w),
        1 => Node::NInt(it.arg, w),
        2 => {
            if it.indef {
                Node::BytesIndef(it.children.iter().map(|c| src[c.start + c.head_len..c.end].to_vec()).collect())
            } else {
                Node::Bytes(src[it.start + it.head_len..it.end].to_vec(), w)
            }
        }
        3 => {
            if it.indef {
                Node::TextIndef(
                    it.children.iter().map(|c| String::from_utf8_lossy(&src[c.start + c.head_len..c.end]).to_string()).collect(),
                )
            } else {
                match std::str::from_utf8(&src[it.start + it.head_len..it.end]) {
                    Ok(s) => Node::Text(s.to_string(), w),
                    Err(_) => Node::Raw(it.bytes(src).to_vec()),
                }
            }
        }
        4 => {
            let xs = it.children.iter().map(|c| to_node(src, c)).collect();
            if it.indef {
                Node::ArrayIndef(xs)
            } else {
                Node::Array(xs, w)
            }
        }
        5 => {
            let xs = it.children.chunks(2).map(|c| (to_node(src, &c[0]), to_node(src, &c[1]))).collect();
            if it.indef {
                Node::MapIndef(xs)
            } else {
                Node::Map(xs, w)
            }
        }
        6 => Node::Tag(it.arg, w, Box::new(to_node(src, &it.children[0]))),
        _ => Node::Raw(it.bytes(src).to_vec()),
    }
}

// ---------------------------------------------------------------------------------------
// restyle: semantics-preserving re-encoding
// ---------------------------------------------------------------------------------------

#[derive(Clone, Copy, Debug)]
pub struct Restyle {
    /// per-node probability (out of 100) of changing a head width
    pub width_pct: u64,
    /// per-container probability of flipping definite <-> indefinite
    pub indef_pct: u64,
    /// per-string probability of chunking (indefinite strings)
    pub chunk_pct: u64,
    /// per-map probability of permuting the entries
    pub permute_pct: u64,
    /// per-array probability of adding / dropping tag 258
    pub tag258_pct: u64,
    /// do not touch anything below this depth (0 = top item is depth 0)
    pub min_depth: usize,
    /// only widths of integers (keys and values), not of containers / strings
    pub int_heads_only: bool,
}

impl Restyle {
    pub const NONE: Restyle =
        Restyle { width_pct: 0, indef_pct: 0, chunk_pct: 0, permute_pct: 0, tag258_pct: 0, min_depth: 0, int_heads_only: false };
    pub fn widths(p: u64) -> Restyle {
        Restyle { width_pct: p, ..Restyle::NONE }
    }
    pub fn containers(p: u64) -> Restyle {
        Restyle { indef_pct: p, ..Restyle::NONE }
    }
    pub fn all(p: u64) -> Restyle {
        Restyle { width_pct: p, indef_pct: p, chunk_pct: p / 2, permute_pct: 0, tag258_pct: 0, min_depth: 0, int_heads_only: false }
    }
}

fn wider(rng: &mut Rng, arg: u64) -> W {
    let min: u8 = if arg < 24 {
        0
    } else if arg < 256 {
        1
    } else if arg < 65536 {
        2
    } else if arg < (1 << 32) {
        4
    } else {
        8
    };
    let opts: Vec<u8> = [1u8, 2, 4, 8].iter().copied().filter(|w| *w > min).collect();
    if opts.is_empty() {
        8
    } else {
        *rng.pick(&opts)
    }
}

/// Returns the restyled node and the number of style changes applied.
pub fn restyle(node: &Node, rng: &mut Rng, st: &Restyle) -> (Node, usize) {
    let mut n = 0;
    let r = restyle_rec(node, rng, st, 0, &mut n);
    (r, n)
}

fn restyle_rec(node: &Node, rng: &mut Rng, st: &Restyle, depth: usize, changes: &mut usize) -> Node {
    let active = depth >= st.min_depth;
    let roll = |rng: &mut Rng, pct: u64| active && pct > 0 && rng.below(100) < pct;
    match node {
        Node::UInt(v, w) => {
            if roll(rng, st.width_pct) {
                let nw = wider(rng, *v);
                if head_w(*v, nw) != head_w(*v, *w) {
                    *changes += 1;
                }
                Node::UInt(*v, nw)
            } else {
                node.clone()
            }
        }
        Node::NInt(v, w) => {
            if roll(rng, st.width_pct) {
                let nw = wider(rng, *v);
                if head_w(*v, nw) != head_w(*v, *w) {
                    *changes += 1;
                }
                Node::NInt(*v, nw)
            } else {
                node.clone()
            }
        }
        Node::Bytes(b, w) => {
            if roll(rng, st.chunk_pct) {
                *changes += 1;
                Node::BytesIndef(chunk(rng, b))
            } else if !st.int_heads_only && roll(rng, st.width_pct) {
                *changes += 1;
                Node::Bytes(b.clone(), wider(rng, b.len() as u64))
            } else {
                Node::Bytes(b.clone(), *w)
            }
        }
        Node::Text(s, w) => {
            if !st.int_heads_only && roll(rng, st.width_pct) {
                *changes += 1;
                Node::Text(s.clone(), wider(rng, s.len() as u64))
            } else {
                Node::Text(s.clone(), *w)
            }
        }
        Node::Array(xs, w) => {
            let ys: Vec<Node> = xs.iter().map(|x| restyle_rec(x, rng, st, depth + 1, changes)).collect();
            if roll(rng, st.indef_pct) {
                *changes += 1;
                Node::ArrayIndef(ys)
            } else if !st.int_heads_only && roll(rng, st.width_pct) {
                *changes += 1;
                Node::Array(ys, wider(rng, xs.len() as u64))
            } else {
                Node::Array(ys, *w)
            }
        }
        Node::ArrayIndef(xs) => {
            let ys: Vec<Node> = xs.iter().map(|x| restyle_rec(x, rng, st, depth + 1, changes)).collect();
            if roll(rng, st.indef_pct) {
                *changes += 1;
                Node::Array(ys, 0)
            } else {
                Node::ArrayIndef(ys)
            }
        }
        Node::Map(xs, w) => {
            let mut ys: Vec<(Node, Node)> = xs
                .iter()
                .map(|(k, v)| (restyle_rec(k, rng, st, depth + 1, changes), restyle_rec(v, rng, st, depth + 1, changes)))
                .collect();
            if ys.len() > 1 && roll(rng, st.permute_pct) {
                *changes += 1;
                rng.shuffle(&mut ys);
            }
            if roll(rng, st.indef_pct) {
                *changes += 1;
                Node::MapIndef(ys)
            } else if !st.int_heads_only && roll(rng, st.width_pct) {
                *changes += 1;
                Node::Map(ys, wider(rng, xs.len() as u64))
            } else {
                Node::Map(ys, *w)
            }
        }
        Node::MapIndef(xs) => {
            let mut ys: Vec<(Node, Node)> = xs
                .iter()
                .map(|(k, v)| (restyle_rec(k, rng, st, depth + 1, changes), restyle_rec(v, rng, st, depth + 1, changes)))
                .collect();
            if ys.len() > 1 && roll(rng, st.permute_pct) {
                *changes += 1;
                rng.shuffle(&mut ys);
            }
            if roll(rng, st.indef_pct) {
                *changes += 1;
                Node::Map(ys, 0)
            } else {
                Node::MapIndef(ys)
            }
        }
        Node::Tag(t, w, x) => {
            if *t == 258 && roll(rng, st.tag258_pct) {
                *changes += 1;
                return restyle_rec(x, rng, st, depth + 1, changes);
            }
            let y = restyle_rec(x, rng, st, depth + 1, changes);
            if !st.int_heads_only && roll(rng, st.width_pct) {
                *changes += 1;
                Node::Tag(*t, wider(rng, *t), Box::new(y))
            } else {
                Node::Tag(*t, *w, Box::new(y))
            }
        }
        other => other.clone(),
    }
}

fn head_w(arg: u64, w: W) -> W {
    let min = if arg < 24 {
        0
    } else if arg < 256 {
        1
    } else if arg < 65536 {
        2
    } else if arg < (1 << 32) {
        4
    } else {
        8
    };
    if w < min {
        min
    } else {
        w
    }
}

fn chunk(rng: &mut Rng, b: &[u8]) -> Vec<Vec<u8>> {
    let mut out = vec![];
    let mut p = 0;
    while p < b.len() {
        let n = 1 + rng.usize_below((b.len() - p).min(80));
        out.push(b[p..p + n].to_vec());
        p += n;
    }
    if rng.chance(1, 8) {
        out.push(vec![]);
    }
    out
}

// ---------------------------------------------------------------------------------------
// mutate: semantics-breaking
// ---------------------------------------------------------------------------------------

/// Collect the spans (start,end) of every node of a parsed item.
pub fn all_spans(it: &Item, out: &mut Vec<(usize, usize, usize)>) {
    out.push((it.start, it.end, it.head_len));
    for c in &it.children {
        all_spans(c, out);
    }
}

/// One random mutation of `src`. `others` is the pool used for splices. Returns (bytes, mutation kind).
pub fn mutate(src: &[u8], others: &[&[u8]], rng: &mut Rng) -> (Vec<u8>, &'static str) {
    let mut v = src.to_vec();
    if v.is_empty() {
        { let n = 1 + rng.usize_below(16); return (rng.bytes(n), "random"); }
    }
    let spans = || -> Vec<(usize, usize, usize)> {
        let mut s = vec![];
        if let Ok(it) = parse_prefix(src) {
            all_spans(&it, &mut s);
        }
        s
    };
    match rng.below(14) {
        0 => {
            let n = 1 + rng.usize_below(3);
            for _ in 0..n {
                let i = rng.usize_below(v.len());
                v[i] ^= 1 << rng.below(8);
            }
            (v, "bitflip")
        }
        1 => {
            let i = rng.usize_below(v.len());
            v[i] = rng.next_u8();
            (v, "byteset")
        }
        2 => {
            let cut = rng.usize_below(v.len());
            v.truncate(cut);
            (v, "truncate")
        }
        3 => {
            // truncate at an item boundary
            let s = spans();
            if s.is_empty() {
                v.truncate(rng.usize_below(src.len()));
            } else {
                let (a, b, h) = *rng.pick(&s);
                let cut = *rng.pick(&[a, a + h, b.saturating_sub(1), b]);
                v.truncate(cut.min(src.len()));
            }
            (v, "truncate-item")
        }
        4 => {
            // corrupt a head (length field / type)
            let s = spans();
            if let Some((a, _, h)) = s.get(rng.usize_below(s.len().max(1))).copied() {
                match rng.below(4) {
                    0 => v[a] = (v[a] & 0xe0) | rng.below(32) as u8,
                    1 => v[a] = (v[a] & 0x1f) | ((rng.below(8) as u8) << 5),
                    2 if h > 1 => {
                        let i = a + 1 + rng.usize_below(h - 1);
                        let r = rng.next_u8(); v[i] = *rng.pick(&[0u8, 1, 0x7f, 0x80, 0xff, r]);
                    }
                    _ => v[a] = v[a].wrapping_add(*rng.pick(&[1u8, 0xff, 2, 0xfe])),
                }
            }
            (v, "head")
        }
        5 => {
            // replace a sub-item by a sub-item of another artefact
            let s = spans();
            let o = if others.is_empty() { src } else { *rng.pick(others) };
            let mut so = vec![];
            if let Ok(it) = parse_prefix(o) {
                all_spans(&it, &mut so);
            }
            if s.is_empty() || so.is_empty() {
                { let n = 1 + rng.usize_below(64); return (rng.bytes(n), "random"); }
            }
            let (a, b, _) = *rng.pick(&s);
            let (c, d, _) = *rng.pick(&so);
            let mut w = src[..a].to_vec();
            w.extend_from_slice(&o[c..d]);
            w.extend_from_slice(&src[b..]);
            (w, "splice-item")
        }
        6 => {
            // delete a sub-item (parent count now wrong)
            let s = spans();
            if s.len() < 2 {
                v.pop();
                return (v, "truncate");
            }
            let (a, b, _) = s[1 + rng.usize_below(s.len() - 1)];
            let mut w = src[..a].to_vec();
            w.extend_from_slice(&src[b..]);
            (w, "delete-item")
        }
        7 => {
            // duplicate a sub-item
            let s = spans();
            if s.is_empty() {
                return (v, "none");
            }
            let (a, b, _) = *rng.pick(&s);
            let mut w = src[..b].to_vec();
            w.extend_from_slice(&src[a..b]);
            w.extend_from_slice(&src[b..]);
            (w, "dup-item")
        }
        8 => {
            // replace a sub-item by a small hostile item
            let s = spans();
            if s.is_empty() {
                return (v, "none");
            }
            let (a, b, _) = *rng.pick(&s);
            let hostile: &[&[u8]] = &[
                &[0x00],
                &[0x1b, 0xff, 0xff, 0xff, 0xff, 0xff, 0xff, 0xff, 0xff],
                &[0x3b, 0xff, 0xff, 0xff, 0xff, 0xff, 0xff, 0xff, 0xff],
                &[0x3b, 0x7f, 0xff, 0xff, 0xff, 0xff, 0xff, 0xff, 0xff],
                &[0x40],
                &[0x60],
                &[0x80],
                &[0xa0],
                &[0x9f, 0xff],
                &[0xbf, 0xff],
                &[0x5f, 0xff],
                &[0xf6],
                &[0xf7],
                &[0xf4],
                &[0xf5],
                &[0xc2, 0x40],
                &[0xc3, 0x40],
                &[0xc2, 0x49, 1, 0, 0, 0, 0, 0, 0, 0, 0],
                &[0xc3, 0x49, 1, 0, 0, 0, 0, 0, 0, 0, 0],
                &[0xd8, 0x18, 0x40],
                &[0xd9, 0x01, 0x02, 0x80],
                &[0xfb, 0x7f, 0xf0, 0, 0, 0, 0, 0, 0],
                &[0xf9, 0x7e, 0x00],
                &[0x18, 0x00],
                &[0x19, 0x00, 0x00],
                &[0x81, 0x00],
                &[0x82, 0x00, 0x00],
                &[0xa1, 0x00, 0x00],
                &[0x5b, 0xff, 0xff, 0xff, 0xff, 0xff, 0xff, 0xff, 0xff],
                &[0x9b, 0xff, 0xff, 0xff, 0xff, 0xff, 0xff, 0xff, 0xff],
                &[0xbb, 0x7f, 0xff, 0xff, 0xff, 0xff, 0xff, 0xff, 0xff],
                &[0x9a, 0x7f, 0xff, 0xff, 0xff],
                &[0x7a, 0x00, 0x00, 0x00, 0x10],
            ];
            let h = *rng.pick(hostile);
            let mut w = src[..a].to_vec();
            w.extend_from_slice(h);
            w.extend_from_slice(&src[b..]);
            (w, "hostile-item")
        }
        9 => {
            // swap two sibling-ish items
            let s = spans();
            if s.len() < 3 {
                return (v, "none");
            }
            let (a, b, _) = s[1 + rng.usize_below(s.len() - 1)];
            let (c, d, _) = s[1 + rng.usize_below(s.len() - 1)];
            if b <= c {
                let mut w = src[..a].to_vec();
                w.extend_from_slice(&src[c..d]);
                w.extend_from_slice(&src[b..c]);
                w.extend_from_slice(&src[a..b]);
                w.extend_from_slice(&src[d..]);
                (w, "swap-items")
            } else {
                (v, "none")
            }
        }
        10 => {
            // insert random bytes
            let i = rng.usize_below(v.len() + 1);
            let n = 1 + rng.usize_below(8); let ins = rng.bytes(n);
            let mut w = src[..i].to_vec();
            w.extend_from_slice(&ins);
            w.extend_from_slice(&src[i..]);
            (w, "insert")
        }
        11 => {
            // change an integer argument to a boundary value keeping the width
            let s = spans();
            let cands: Vec<_> = s.iter().filter(|(_, _, h)| *h > 1).collect();
            if cands.is_empty() {
                return (v, "none");
            }
            let (a, _, h) = **rng.pick(&cands);
            let pat = *rng.pick(&[0x00u8, 0xff, 0x7f, 0x80]);
            for i in a + 1..a + h {
                v[i] = pat;
            }
            (v, "arg-boundary")
        }
        12 => {
            // splice a prefix of this with a suffix of another
            let o = if others.is_empty() { src } else { *rng.pick(others) };
            let i = rng.usize_below(v.len());
            let j = rng.usize_below(o.len().max(1));
            v.truncate(i);
            v.extend_from_slice(&o[j.min(o.len())..]);
            (v, "splice-bytes")
        }
        _ => {
            // wrap a sub-item in a tag / array
            let s = spans();
            if s.is_empty() {
                return (v, "none");
            }
            let (a, b, _) = *rng.pick(&s);
            let mut w = src[..a].to_vec();
            w.extend_from_slice(*rng.pick(&[&[0xd8u8, 0x18][..], &[0x81], &[0xd9, 0x01, 0x02], &[0xc2], &[0x9f], &[0xd8, 0x79]]));
            w.extend_from_slice(&src[a..b]);
            w.extend_from_slice(&src[b..]);
            (w, "wrap-item")
        }
    }
}

/// deep nesting wrappers: `depth` nested arrays/tags/maps around a small payload
pub fn nesting_bomb(kind: u8, depth: usize) -> Vec<u8> {
    let mut v = Vec::with_capacity(depth * 2 + 4);
    for _ in 0..depth {
        match kind {
            0 => v.push(0x81),
            1 => v.push(0x9f),
            2 => v.extend_from_slice(&[0xd8, 0x79, 0x81]),
            3 => v.extend_from_slice(&[0xa1, 0x00]),
            4 => v.push(0xc2),
            _ => v.extend_from_slice(&[0xd8, 0x79, 0x9f]),
        }
    }
    v.push(0x00);
    if kind == 1 || kind == 5 {
        v.extend(std::iter::repeat(0xff).take(depth));
    }
    v
}

/// random well-formed Node tree
pub fn gen_node(rng: &mut Rng, depth: usize) -> Node {
    let leaf = depth == 0 || rng.chance(2, 5);
    if leaf {
        match rng.below(8) {
            0 | 1 => Node::UInt(rng.edgy_u64(), *rng.pick(&[0u8, 0, 0, 1, 2, 4, 8])),
            2 => Node::NInt(rng.edgy_u64(), *rng.pick(&[0u8, 0, 0, 1, 2, 4, 8])),
            3 => {
                let n = rng.usize_below(40);
                Node::Bytes(rng.bytes(n), 0)
            }
            4 => Node::Text(gen_text(rng, 12), 0),
            5 => rng.pick(&[Node::Bool(true), Node::Bool(false), Node::Null, Node::Undefined]).clone(),
            6 => {
                let n = rng.usize_below(4);
                Node::BytesIndef((0..n).map(|_| { let k = rng.usize_below(10); rng.bytes(k) }).collect())
            }
            _ => Node::F64(f64::from_bits(rng.next_u64())),
        }
    } else {
        let n = rng.usize_below(5);
        match rng.below(6) {
            0 => Node::Array((0..n).map(|_| gen_node(rng, depth - 1)).collect(), 0),
            1 => Node::ArrayIndef((0..n).map(|_| gen_node(rng, depth - 1)).collect()),
            2 => Node::Map((0..n).map(|_| (gen_node(rng, 0), gen_node(rng, depth - 1))).collect(), 0),
            3 => Node::MapIndef((0..n).map(|_| (gen_node(rng, 0), gen_node(rng, depth - 1))).collect()),
            4 => Node::Tag(*rng.pick(&[0u64, 2, 3, 24, 30, 121, 122, 258, 1280, 102]), 0, Box::new(gen_node(rng, depth - 1))),
            _ => Node::Array((0..n).map(|_| gen_node(rng, depth - 1)).collect(), *rng.pick(&[1u8, 2, 4, 8])),
        }
    }
}

pub fn gen_text(rng: &mut Rng, max: usize) -> String {
    let n = rng.usize_below(max + 1);
    let mut s = String::new();
    for _ in 0..n {
        let c = match rng.below(6) {
            0 => char::from_u32(rng.range(0x80, 0x7ff) as u32).unwrap_or('x'),
            1 => char::from_u32(rng.range(0x800, 0xd7ff) as u32).unwrap_or('y'),
            2 => char::from_u32(rng.range(0x10000, 0x10ffff) as u32).unwrap_or('z'),
            _ => (rng.range(0x20, 0x7e) as u8) as char,
        };
        s.push(c);
    }
    s
}

pub fn selftest() -> Result<(), String> {
    // RFC 8949 appendix A samples
    let ok: &[&str] = &[
        "00", "17", "1818", "1903e8", "1a000f4240", "1b000000e8d4a51000", "3863", "c249010000000000000000", "f4", "f6", "f7",
        "f93c00", "fb3ff199999999999a", "c074323031332d30332d32315432303a30343a30305a", "4401020304", "6449455446",
        "62c3bc", "80", "83010203", "8301820203820405", "a0", "a201020304", "a26161016162820203", "5f42010243030405ff",
        "7f657374726561646d696e67ff", "9fff", "9f018202039f0405ffff", "bf61610161629f0203ffff", "826161bf61626163ff",
        "d818456449455446",
    ];
    for h in ok {
        let b = hex::decode(h).unwrap();
        let it = parse(&b).map_err(|e| format!("{h}: {e:?}"))?;
        let n = to_node(&b, &it);
        if n.to_vec() != b {
            return Err(format!("re-encode {h} -> {}", hex::encode(n.to_vec())));
        }
    }
    let bad: &[&str] = &["", "18", "19 00", "82 01", "9f 01", "ff", "81 ff", "bf 01 ff", "5f 00 ff", "5f 61 61 ff", "1c", "a1 01", "01 01", "f8 10", "62 c3 28"];
    for h in bad {
        let b = hex::decode(h.replace(' ', "")).unwrap();
        if parse(&b).is_ok() {
            return Err(format!("accepted malformed {h}"));
        }
    }
    // peer-address bug shape: array(8) with 6 items followed by break of the outer indefinite array
    let b = hex::decode("82019f880100000001190bb9ff").unwrap();
    if parse(&b).is_ok() {
        return Err("accepted array(8) with 6 items".into());
    }
    Ok(())
}
