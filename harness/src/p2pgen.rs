//! Generators of arbitrary pallas-network2 messages (all eight mini-protocols, every variant),
//! with boundary payloads. Every message is a pure function of the `Rng` state, so a message
//! can be regenerated from a seed (`msg_from_seed`) — that is what replay files store.

use crate::p2pspec::{self, Kind, Proto};
use crate::prng::Rng;
use pallas_network2::behavior::AnyMessage;
use pallas_network2::protocol as proto;
use pallas_network2::protocol::{AnyCbor, Point};
use proto::{blockfetch as bf, chainsync as cs, handshake as hs, keepalive as ka, leiosfetch as lf, leiosnotify as ln, peersharing as ps, txsubmission as tx};
use std::collections::{BTreeMap, HashMap};
use std::net::{Ipv4Addr, Ipv6Addr};

pub fn small_len(r: &mut Rng) -> usize {
    match r.below(10) {
        0 => 0,
        1..=5 => 1 + r.usize_below(3),
        6..=8 => r.usize_below(40),
        _ => r.usize_below(300),
    }
}

pub fn blob(r: &mut Rng) -> Vec<u8> {
    let n = match r.below(12) {
        0 => 0,
        1..=6 => 32,
        7..=9 => r.usize_below(64),
        10 => r.usize_below(2000),
        _ => 28,
    };
    r.bytes(n)
}

pub fn point(r: &mut Rng) -> Point {
    if r.chance(1, 5) {
        Point::Origin
    } else {
        let slot = r.edgy_u64();
        let hash = if r.chance(4, 5) { r.bytes(32) } else { blob(r) };
        Point::Specific(slot, hash)
    }
}

pub fn tip(r: &mut Rng) -> cs::Tip {
    cs::Tip(point(r), r.edgy_u64())
}

pub fn header(r: &mut Rng) -> cs::HeaderContent {
    let variant = match r.below(6) {
        0 => 0u8,
        1 => 255,
        _ => 1 + r.below(7) as u8,
    };
    // variant 0 without a byron prefix is a value the type allows (its encoder rejects it)
    let byron_prefix = if variant == 0 && r.chance(4, 5) || variant != 0 && r.chance(1, 20) { Some((r.next_u8(), r.edgy_u64())) } else { None };
    cs::HeaderContent { variant, byron_prefix, cbor: blob(r) }
}

pub fn any_cbor(r: &mut Rng) -> AnyCbor {
    match r.below(4) {
        0 => AnyCbor::from_raw_bytes(vec![0x80]),
        1 => AnyCbor::from_raw_bytes(vec![]),
        2 => AnyCbor::from_raw_bytes(blob(r)),
        _ => AnyCbor::from_raw_bytes(vec![0x83, 0x01, 0x02, 0x03]),
    }
}

pub fn version_data(r: &mut Rng) -> hs::n2n::VersionData {
    let magic = match r.below(5) {
        0 => proto::MAINNET_MAGIC,
        1 => proto::PREPROD_MAGIC,
        2 => 0,
        3 => u64::MAX,
        _ => r.edgy_u64(),
    };
    let ps_ = match r.below(4) {
        0 => None,
        1 => Some(0),
        2 => Some(1),
        _ => Some(r.next_u8()),
    };
    let q = match r.below(3) {
        0 => None,
        1 => Some(false),
        _ => Some(true),
    };
    hs::n2n::VersionData::new(magic, r.bool(), ps_, q)
}

pub fn version_number(r: &mut Rng) -> u64 {
    match r.below(8) {
        0 => 0,
        1 => 13,
        2 => 14,
        3 => 15,
        4 => 16,
        5 => u64::MAX,
        6 => 7 + r.below(9),
        _ => r.edgy_u64(),
    }
}

pub fn version_table(r: &mut Rng) -> hs::n2n::VersionTable {
    let n = match r.below(6) {
        0 => 0,
        1 | 2 => 1,
        _ => r.usize_below(12),
    };
    let mut values = HashMap::new();
    for _ in 0..n {
        values.insert(version_number(r), version_data(r));
    }
    hs::VersionTable { values }
}

pub fn refuse_reason(r: &mut Rng) -> hs::RefuseReason {
    match r.below(3) {
        0 => {
            let n = small_len(r).min(40);
            hs::RefuseReason::VersionMismatch((0..n).map(|_| version_number(r)).collect())
        }
        1 => hs::RefuseReason::HandshakeDecodeError(version_number(r), text(r)),
        _ => hs::RefuseReason::Refused(version_number(r), text(r)),
    }
}

pub fn text(r: &mut Rng) -> String {
    match r.below(4) {
        0 => String::new(),
        1 => "network magic mismatch".to_string(),
        2 => "\u{0}\u{fffd}é漢".to_string(),
        _ => {
            let n = r.usize_below(64);
            (0..n).map(|_| (b'a' + r.below(26) as u8) as char).collect()
        }
    }
}

pub fn peer_address(r: &mut Rng) -> ps::PeerAddress {
    match r.below(6) {
        0 => ps::PeerAddress::V6(Ipv6Addr::from(r.array::<16>()), r.next_u32() as u16),
        1 => ps::PeerAddress::V4(Ipv4Addr::new(0, 0, 0, 0), 0),
        2 => ps::PeerAddress::V4(Ipv4Addr::new(255, 255, 255, 255), u16::MAX),
        3 => ps::PeerAddress::V6(Ipv6Addr::UNSPECIFIED, 0),
        _ => ps::PeerAddress::V4(Ipv4Addr::from(r.array::<4>()), r.next_u32() as u16),
    }
}

pub fn era_tx_id(r: &mut Rng) -> tx::EraTxId {
    tx::EraTxId(r.below(8) as u16 * if r.chance(1, 10) { 8000 } else { 1 }, blob(r))
}

pub fn era_tx_body(r: &mut Rng) -> tx::EraTxBody {
    tx::EraTxBody(r.below(8) as u16, blob(r))
}

pub fn bitmaps(r: &mut Rng) -> lf::Bitmaps {
    match r.below(5) {
        0 => lf::Bitmaps(BTreeMap::new()),
        1 => lf::Bitmaps::all(r.usize_below(200)),
        2 => lf::Bitmaps::from_indices((0..r.usize_below(10)).map(|_| r.usize_below(4000)).collect::<Vec<_>>()),
        _ => {
            let mut m = BTreeMap::new();
            for _ in 0..r.usize_below(6) {
                m.insert(r.next_u32() as u16, r.edgy_u64());
            }
            lf::Bitmaps(m)
        }
    }
}

/// all message kinds of a protocol, in a fixed order
pub fn kinds_of(p: Proto) -> Vec<Kind> {
    p2pspec::kinds(p).into_iter().map(|(k, _)| k).collect()
}

/// a message of the given protocol and kind with random payload
pub fn message(p: Proto, kind: Kind, r: &mut Rng) -> AnyMessage {
    match (p, kind) {
        (Proto::Handshake, "Propose") => AnyMessage::Handshake(hs::Message::Propose(version_table(r))),
        (Proto::Handshake, "Accept") => AnyMessage::Handshake(hs::Message::Accept(version_number(r), version_data(r))),
        (Proto::Handshake, "Refuse") => AnyMessage::Handshake(hs::Message::Refuse(refuse_reason(r))),
        (Proto::Handshake, "QueryReply") => AnyMessage::Handshake(hs::Message::QueryReply(version_table(r))),

        (Proto::KeepAlive, "KeepAlive") => AnyMessage::KeepAlive(ka::Message::KeepAlive(cookie(r))),
        (Proto::KeepAlive, "ResponseKeepAlive") => AnyMessage::KeepAlive(ka::Message::ResponseKeepAlive(cookie(r))),
        (Proto::KeepAlive, "Done") => AnyMessage::KeepAlive(ka::Message::Done),

        (Proto::ChainSync, "RequestNext") => AnyMessage::ChainSync(cs::Message::RequestNext),
        (Proto::ChainSync, "AwaitReply") => AnyMessage::ChainSync(cs::Message::AwaitReply),
        (Proto::ChainSync, "RollForward") => AnyMessage::ChainSync(cs::Message::RollForward(header(r), tip(r))),
        (Proto::ChainSync, "RollBackward") => AnyMessage::ChainSync(cs::Message::RollBackward(point(r), tip(r))),
        (Proto::ChainSync, "FindIntersect") => {
            let n = small_len(r).min(60);
            AnyMessage::ChainSync(cs::Message::FindIntersect((0..n).map(|_| point(r)).collect()))
        }
        (Proto::ChainSync, "IntersectFound") => AnyMessage::ChainSync(cs::Message::IntersectFound(point(r), tip(r))),
        (Proto::ChainSync, "IntersectNotFound") => AnyMessage::ChainSync(cs::Message::IntersectNotFound(tip(r))),
        (Proto::ChainSync, "Done") => AnyMessage::ChainSync(cs::Message::Done),

        (Proto::BlockFetch, "RequestRange") => AnyMessage::BlockFetch(bf::Message::RequestRange((point(r), point(r)))),
        (Proto::BlockFetch, "ClientDone") => AnyMessage::BlockFetch(bf::Message::ClientDone),
        (Proto::BlockFetch, "StartBatch") => AnyMessage::BlockFetch(bf::Message::StartBatch),
        (Proto::BlockFetch, "NoBlocks") => AnyMessage::BlockFetch(bf::Message::NoBlocks),
        (Proto::BlockFetch, "Block") => AnyMessage::BlockFetch(bf::Message::Block(blob(r))),
        (Proto::BlockFetch, "BatchDone") => AnyMessage::BlockFetch(bf::Message::BatchDone),

        (Proto::TxSubmission, "Init") => AnyMessage::TxSubmission(tx::Message::Init),
        (Proto::TxSubmission, "RequestTxIdsBlocking") => AnyMessage::TxSubmission(tx::Message::RequestTxIds(true, r.edgy_u64() as u16, r.edgy_u64() as u16)),
        (Proto::TxSubmission, "RequestTxIdsNonBlocking") => AnyMessage::TxSubmission(tx::Message::RequestTxIds(false, r.edgy_u64() as u16, r.edgy_u64() as u16)),
        (Proto::TxSubmission, "ReplyTxIds") => {
            let n = small_len(r).min(50);
            AnyMessage::TxSubmission(tx::Message::ReplyTxIds((0..n).map(|_| tx::TxIdAndSize(era_tx_id(r), r.edgy_u64() as u32)).collect()))
        }
        (Proto::TxSubmission, "RequestTxs") => {
            let n = small_len(r).min(50);
            AnyMessage::TxSubmission(tx::Message::RequestTxs((0..n).map(|_| era_tx_id(r)).collect()))
        }
        (Proto::TxSubmission, "ReplyTxs") => {
            let n = small_len(r).min(50);
            AnyMessage::TxSubmission(tx::Message::ReplyTxs((0..n).map(|_| era_tx_body(r)).collect()))
        }
        (Proto::TxSubmission, "Done") => AnyMessage::TxSubmission(tx::Message::Done),

        (Proto::PeerSharing, "ShareRequest") => AnyMessage::PeerSharing(ps::Message::ShareRequest(match r.below(4) {
            0 => 0,
            1 => 255,
            _ => r.next_u8(),
        })),
        (Proto::PeerSharing, "SharePeers") => {
            let n = small_len(r).min(300);
            AnyMessage::PeerSharing(ps::Message::SharePeers((0..n).map(|_| peer_address(r)).collect()))
        }
        (Proto::PeerSharing, "Done") => AnyMessage::PeerSharing(ps::Message::Done),

        (Proto::LeiosNotify, "RequestNext") => AnyMessage::LeiosNotify(ln::Message::RequestNext),
        (Proto::LeiosNotify, "BlockAnnouncement") => AnyMessage::LeiosNotify(ln::Message::BlockAnnouncement(any_cbor(r))),
        (Proto::LeiosNotify, "BlockOffer") => AnyMessage::LeiosNotify(ln::Message::BlockOffer(point(r), r.edgy_u64() as u32)),
        (Proto::LeiosNotify, "BlockTxsOffer") => AnyMessage::LeiosNotify(ln::Message::BlockTxsOffer(point(r))),
        (Proto::LeiosNotify, "Votes") => {
            let n = small_len(r).min(40);
            AnyMessage::LeiosNotify(ln::Message::Votes((0..n).map(|_| any_cbor(r)).collect()))
        }
        (Proto::LeiosNotify, "Done") => AnyMessage::LeiosNotify(ln::Message::Done),

        (Proto::LeiosFetch, "BlockRequest") => AnyMessage::LeiosFetch(lf::Message::BlockRequest(point(r))),
        (Proto::LeiosFetch, "Block") => AnyMessage::LeiosFetch(lf::Message::Block(any_cbor(r))),
        (Proto::LeiosFetch, "BlockTxsRequest") => AnyMessage::LeiosFetch(lf::Message::BlockTxsRequest(point(r), bitmaps(r))),
        (Proto::LeiosFetch, "BlockTxs") => {
            let n = small_len(r).min(40);
            AnyMessage::LeiosFetch(lf::Message::BlockTxs { point: point(r), bitmaps: bitmaps(r), txs: (0..n).map(|_| any_cbor(r)).collect() })
        }
        (Proto::LeiosFetch, "Done") => AnyMessage::LeiosFetch(lf::Message::Done),
        (p, k) => panic!("p2pgen: no generator for {} {k}", p.name()),
    }
}

fn cookie(r: &mut Rng) -> u16 {
    match r.below(4) {
        0 => 0,
        1 => u16::MAX,
        _ => r.next_u32() as u16,
    }
}

/// a message of any protocol / any kind
pub fn any_message(r: &mut Rng) -> AnyMessage {
    let p = p2pspec::ALL_PROTOS[r.usize_below(8)];
    let ks = kinds_of(p);
    let k = ks[r.usize_below(ks.len())];
    message(p, k, r)
}

/// the message a replay file names by seed
pub fn msg_from_seed(seed: u64) -> AnyMessage {
    let mut r = Rng::new(seed);
    any_message(&mut r)
}

/// message of a given protocol/kind from a seed (payload only)
pub fn msg_kind_from_seed(p: Proto, kind: Kind, seed: u64) -> AnyMessage {
    let mut r = Rng::new(seed);
    message(p, kind, &mut r)
}

/// short printable description (protocol + kind) for counters / witnesses
pub fn describe(m: &AnyMessage) -> String {
    let (p, k) = p2pspec::kind_of(m);
    format!("{}:{}", p.name(), k)
}

/// total number of (protocol, kind) pairs the generator covers
pub fn n_kinds() -> usize {
    p2pspec::ALL_PROTOS.iter().map(|p| kinds_of(*p).len()).sum()
}
