//! Helpers on top of `fixtures.rs` for the phase-1 validation checks C33 / C34 / C38:
//!
//! * an own, pallas-independent *view* of a transaction ([`TxV`], [`OutV`], [`Val`]) built from the
//!   `pv::cbor` node tree, with quantities as `num_bigint::BigInt`;
//! * typed edit helpers for outputs / values / mint / inputs (bytes -> bytes, every untouched
//!   byte stays identical);
//! * re-keying of the two Byron fixtures (own bootstrap / redeem addresses + witnesses) so that
//!   mutated Byron transactions can be re-signed too;
//! * a UTxO store whose entries may each be encoded in a different era style ([`MixStore`]) and a
//!   validation wrapper that separates "does not decode" from "validation panicked" ([`run_validate`]).
//!
//! Nothing in here is an oracle by itself; the balance / rule predicates live in the check binaries.

use crate::cbor::{self, Node};
use crate::fixtures::*;
use crate::panics::{self, PanicInfo};
use crate::refhash;
use num_bigint::BigInt;
use pallas_primitives::alonzo as pa;
use pallas_traverse::{Era, MultiEraInput, MultiEraOutput, MultiEraTx};
use pallas_validate::phase1::{validate_tx, validate_txs};
use pallas_validate::utils::{CertState, Environment, UTxOs};
use std::borrow::Cow;
use std::collections::BTreeMap;

// ---------------------------------------------------------------------------------------
// node helpers
// ---------------------------------------------------------------------------------------

pub fn node_int(n: &Node) -> Option<BigInt> {
    match n {
        Node::UInt(v, _) => Some(BigInt::from(*v)),
        Node::NInt(v, _) => Some(-BigInt::from(*v) - 1),
        _ => None,
    }
}
pub fn node_map(n: &Node) -> Option<&Vec<(Node, Node)>> {
    match n {
        Node::Map(xs, _) | Node::MapIndef(xs) => Some(xs),
        _ => None,
    }
}
pub fn node_map_mut(n: &mut Node) -> Option<&mut Vec<(Node, Node)>> {
    match n {
        Node::Map(xs, _) | Node::MapIndef(xs) => Some(xs),
        _ => None,
    }
}
/// big-endian two's-complement-free rendering of an i128 as a CBOR integer node
pub fn int_node(v: i128) -> Node {
    Node::int(v)
}
/// same container style (definite / indefinite / tag 258) as `like`, new items
pub fn list_like(like: Option<&Node>, items: Vec<Node>) -> Node {
    match like {
        Some(Node::Tag(258, w, inner)) => Node::Tag(258, *w, Box::new(list_like(Some(inner), items))),
        Some(Node::ArrayIndef(_)) => Node::ArrayIndef(items),
        _ => Node::arr(items),
    }
}

// ---------------------------------------------------------------------------------------
// own view of values / outputs / transactions
// ---------------------------------------------------------------------------------------

pub type AssetId = (Vec<u8>, Vec<u8>);

#[derive(Clone, Debug, Default, PartialEq)]
pub struct Val {
    pub coin: BigInt,
    pub assets: BTreeMap<AssetId, BigInt>,
}

impl Val {
    pub fn add(&mut self, o: &Val) {
        self.coin += &o.coin;
        for (k, v) in &o.assets {
            *self.assets.entry(k.clone()).or_default() += v;
        }
    }
    pub fn add_assets(&mut self, m: &BTreeMap<AssetId, BigInt>) {
        for (k, v) in m {
            *self.assets.entry(k.clone()).or_default() += v;
        }
    }
    /// drop zero entries so that two values can be compared structurally
    pub fn normalised(&self) -> Val {
        let zero = BigInt::from(0);
        Val { coin: self.coin.clone(), assets: self.assets.iter().filter(|(_, v)| **v != zero).map(|(k, v)| (k.clone(), v.clone())).collect() }
    }
    pub fn from_out(o: &Out) -> Val {
        let mut v = Val { coin: BigInt::from(o.coin), assets: BTreeMap::new() };
        for (p, xs) in &o.assets {
            for (n, q) in xs {
                *v.assets.entry((p.clone(), n.clone())).or_default() += BigInt::from(*q);
            }
        }
        v
    }
}

/// `{policy: {name: quantity}}`; None when the node is not of that shape or a key occurs twice
pub fn parse_multiasset(n: &Node) -> Option<BTreeMap<AssetId, BigInt>> {
    let mut out = BTreeMap::new();
    let mut seen_p = std::collections::BTreeSet::new();
    for (p, inner) in node_map(n)? {
        let p = node_bytes(p)?;
        if !seen_p.insert(p.clone()) {
            return None;
        }
        for (name, q) in node_map(inner)? {
            let name = node_bytes(name)?;
            let q = node_int(q)?;
            if out.insert((p.clone(), name), q).is_some() {
                return None;
            }
        }
    }
    Some(out)
}

/// `coin` or `[coin, multiasset]`
pub fn parse_value(n: &Node) -> Option<Val> {
    match n {
        Node::UInt(v, _) => Some(Val { coin: BigInt::from(*v), assets: BTreeMap::new() }),
        Node::Array(xs, _) | Node::ArrayIndef(xs) if xs.len() == 2 => {
            let coin = match &xs[0] {
                Node::UInt(v, _) => BigInt::from(*v),
                _ => return None,
            };
            Some(Val { coin, assets: parse_multiasset(&xs[1])? })
        }
        _ => None,
    }
}

#[derive(Clone, Debug, PartialEq)]
pub struct OutV {
    pub addr: Vec<u8>,
    pub val: Val,
    pub datum_hash: Option<Vec<u8>>,
    /// CBOR of the inline datum
    pub inline_datum: Option<Vec<u8>>,
    pub script_ref: Option<Vec<u8>>,
    /// array form `[addr, value, ?datum_hash]`
    pub legacy: bool,
    /// number of bytes of the value as it is encoded in the transaction
    pub value_len: usize,
    /// the value is `[coin, {..}]` (even if the map is empty)
    pub has_ma: bool,
}

pub fn parse_output(n: &Node) -> Option<OutV> {
    match n {
        Node::Array(xs, _) | Node::ArrayIndef(xs) if xs.len() >= 2 => {
            let addr = node_bytes(&xs[0])?;
            let val = parse_value(&xs[1])?;
            let datum_hash = match xs.get(2) {
                Some(d) => Some(node_bytes(d)?),
                None => None,
            };
            Some(OutV { addr, val, datum_hash, inline_datum: None, script_ref: None, legacy: true, value_len: xs[1].to_vec().len(), has_ma: !matches!(xs[1], Node::UInt(..)) })
        }
        Node::Map(..) | Node::MapIndef(..) => {
            let addr = node_bytes(map_get(n, 0)?)?;
            let vn = map_get(n, 1)?;
            let val = parse_value(vn)?;
            let mut datum_hash = None;
            let mut inline_datum = None;
            if let Some(d) = map_get(n, 2) {
                let xs = elems(d)?;
                match node_u64(xs.first()?)? {
                    0 => datum_hash = Some(node_bytes(xs.get(1)?)?),
                    _ => {
                        inline_datum = Some(match xs.get(1)? {
                            Node::Tag(24, _, b) => node_bytes(b)?,
                            other => other.to_vec(),
                        })
                    }
                }
            }
            let script_ref = map_get(n, 3).map(|s| s.to_vec());
            Some(OutV { addr, val, datum_hash, inline_datum, script_ref, legacy: false, value_len: vn.to_vec().len(), has_ma: !matches!(vn, Node::UInt(..)) })
        }
        _ => None,
    }
}

pub type InRef = ([u8; 32], u64);

fn parse_inputs(n: &Node) -> Option<Vec<InRef>> {
    let mut out = vec![];
    for i in elems(n)? {
        let xs = elems(i)?;
        if xs.len() != 2 {
            return None;
        }
        let h: [u8; 32] = node_bytes(&xs[0])?.try_into().ok()?;
        out.push((h, node_u64(&xs[1])?));
    }
    Some(out)
}

/// Own view of a post-Byron transaction body (+ the parts of the witness set the checks look at).
#[derive(Clone, Debug, Default)]
pub struct TxV {
    pub inputs: Vec<InRef>,
    pub outputs: Vec<OutV>,
    pub fee: BigInt,
    pub ttl: Option<u64>,
    pub start: Option<u64>,
    pub has_certs: bool,
    pub has_withdrawals: bool,
    pub has_treasury: bool,
    pub has_donation: bool,
    pub has_proposals: bool,
    pub has_update: bool,
    pub mint: BTreeMap<AssetId, BigInt>,
    pub mint_policies: Vec<Vec<u8>>,
    pub aux_hash: Option<Vec<u8>>,
    pub script_data_hash: Option<Vec<u8>>,
    pub collateral: Option<Vec<InRef>>,
    pub required_signers: Vec<Vec<u8>>,
    pub network_id: Option<u64>,
    pub collateral_return: Option<OutV>,
    pub total_collateral: Option<u64>,
    pub reference_inputs: Option<Vec<InRef>>,
    /// body keys present
    pub keys: Vec<u64>,
}

/// None when the body has a shape this view does not understand (then no oracle is applied)
pub fn parse_tx(tx: &[u8]) -> Option<TxV> {
    let p = tx_parts(tx)?;
    if p.byron {
        return None;
    }
    let body = body_node(tx);
    let mut v = TxV::default();
    let mut seen = std::collections::BTreeSet::new();
    for (k, val) in node_map(&body)? {
        let k = node_u64(k)?;
        if !seen.insert(k) {
            return None;
        }
        v.keys.push(k);
        match k {
            0 => v.inputs = parse_inputs(val)?,
            1 => {
                for o in elems(val)? {
                    v.outputs.push(parse_output(o)?);
                }
            }
            2 => v.fee = BigInt::from(node_u64(val)?),
            3 => v.ttl = Some(node_u64(val)?),
            4 => v.has_certs = true,
            5 => v.has_withdrawals = true,
            6 => v.has_update = true,
            7 => v.aux_hash = Some(node_bytes(val)?),
            8 => v.start = Some(node_u64(val)?),
            9 => {
                v.mint = parse_multiasset(val)?;
                for (p, _) in node_map(val)? {
                    v.mint_policies.push(node_bytes(p)?);
                }
            }
            11 => v.script_data_hash = Some(node_bytes(val)?),
            13 => v.collateral = Some(parse_inputs(val)?),
            14 => {
                for s in elems(val)? {
                    v.required_signers.push(node_bytes(s)?);
                }
            }
            15 => v.network_id = Some(node_u64(val)?),
            16 => v.collateral_return = Some(parse_output(val)?),
            17 => v.total_collateral = Some(node_u64(val)?),
            18 => v.reference_inputs = Some(parse_inputs(val)?),
            19 | 20 => v.has_proposals = true,
            21 => v.has_treasury = true,
            22 => v.has_donation = true,
            _ => return None,
        }
    }
    Some(v)
}

/// Own view of a Byron transaction: inputs, (address payload, coin) outputs
#[derive(Clone, Debug, Default)]
pub struct ByronV {
    pub inputs: Vec<InRef>,
    pub outputs: Vec<(Vec<u8>, BigInt)>,
}

pub fn parse_byron(tx: &[u8]) -> Option<ByronV> {
    let p = tx_parts(tx)?;
    if !p.byron {
        return None;
    }
    let body = body_node(tx);
    let xs = elems(&body)?;
    let mut v = ByronV { inputs: body_inputs(tx, 0), outputs: vec![] };
    if v.inputs.len() != elems(xs.first()?)?.len() {
        return None;
    }
    for o in elems(xs.get(1)?)? {
        let oo = elems(o)?;
        let addr = elems(oo.first()?)?;
        let payload = match addr.first()? {
            Node::Tag(24, _, b) => node_bytes(b)?,
            _ => return None,
        };
        v.outputs.push((payload, BigInt::from(node_u64(oo.get(1)?)?)));
    }
    Some(v)
}

// ---------------------------------------------------------------------------------------
// typed edits (post-Byron)
// ---------------------------------------------------------------------------------------

pub type Assets = Vec<(Vec<u8>, Vec<(Vec<u8>, u64)>)>;

/// value node with policies and names in canonical (length, bytes) order
pub fn value_node(coin: u64, assets: &Assets) -> Node {
    if assets.is_empty() {
        return Node::u(coin);
    }
    let mut a = assets.clone();
    a.sort_by(|x, y| (x.0.len(), &x.0).cmp(&(y.0.len(), &y.0)));
    let ma = a
        .iter()
        .map(|(p, xs)| {
            let mut xs = xs.clone();
            xs.sort_by(|x, y| (x.0.len(), &x.0).cmp(&(y.0.len(), &y.0)));
            (Node::bytes(p), Node::map(xs.iter().map(|(n, q)| (Node::bytes(n), Node::u(*q))).collect()))
        })
        .collect();
    Node::arr(vec![Node::u(coin), Node::map(ma)])
}

pub fn out_value(out: &Node) -> Option<&Node> {
    match out {
        Node::Array(xs, _) | Node::ArrayIndef(xs) => xs.get(1),
        Node::Map(..) | Node::MapIndef(..) => map_get(out, 1),
        _ => None,
    }
}
pub fn out_value_mut(out: &mut Node) -> Option<&mut Node> {
    match out {
        Node::Array(xs, _) | Node::ArrayIndef(xs) => xs.get_mut(1),
        Node::Map(..) | Node::MapIndef(..) => node_map_mut(out)?.iter_mut().find(|(k, _)| node_u64(k) == Some(1)).map(|(_, v)| v),
        _ => None,
    }
}
pub fn out_address_mut(out: &mut Node) -> Option<&mut Node> {
    match out {
        Node::Array(xs, _) | Node::ArrayIndef(xs) => xs.get_mut(0),
        Node::Map(..) | Node::MapIndef(..) => node_map_mut(out)?.iter_mut().find(|(k, _)| node_u64(k) == Some(0)).map(|(_, v)| v),
        _ => None,
    }
}
/// (coin, assets) of an output node whose quantities are all unsigned
pub fn out_get(out: &Node) -> Option<(u64, Assets)> {
    match out_value(out)? {
        Node::UInt(c, _) => Some((*c, vec![])),
        Node::Array(xs, _) | Node::ArrayIndef(xs) if xs.len() == 2 => {
            let c = node_u64(&xs[0])?;
            let mut a: Assets = vec![];
            for (p, inner) in node_map(&xs[1])? {
                let mut ys = vec![];
                for (n, q) in node_map(inner)? {
                    ys.push((node_bytes(n)?, node_u64(q)?));
                }
                a.push((node_bytes(p)?, ys));
            }
            Some((c, a))
        }
        _ => None,
    }
}
pub fn out_set(out: &mut Node, coin: u64, assets: &Assets) {
    if let Some(v) = out_value_mut(out) {
        *v = value_node(coin, assets);
    }
}
pub fn assets_set(a: &mut Assets, policy: &[u8], name: &[u8], q: Option<u64>) {
    if let Some(e) = a.iter_mut().find(|(p, _)| p == policy) {
        if let Some(x) = e.1.iter_mut().find(|(n, _)| n == name) {
            match q {
                Some(q) => x.1 = q,
                None => e.1.retain(|(n, _)| n != name),
            }
        } else if let Some(q) = q {
            e.1.push((name.to_vec(), q));
        }
    } else if let Some(q) = q {
        a.push((policy.to_vec(), vec![(name.to_vec(), q)]));
    }
    a.retain(|(_, xs)| !xs.is_empty());
}

pub fn outputs(tx: &[u8]) -> Vec<Node> {
    body_get(tx, 1).and_then(|n| elems(&n).cloned()).unwrap_or_default()
}
pub fn set_outputs(tx: &[u8], outs: Vec<Node>) -> Vec<u8> {
    let like = body_get(tx, 1);
    body_set(tx, 1, Some(list_like(like.as_ref(), outs)))
}
pub fn edit_output(tx: &[u8], i: usize, f: impl FnOnce(&mut Node)) -> Vec<u8> {
    let mut outs = outputs(tx);
    if let Some(o) = outs.get_mut(i) {
        f(o);
    }
    set_outputs(tx, outs)
}
/// new output in the form the era prefers (`legacy` = array form)
pub fn mk_output(addr: &[u8], coin: u64, assets: &Assets, legacy: bool) -> Node {
    if legacy {
        Node::arr(vec![Node::bytes(addr), value_node(coin, assets)])
    } else {
        Node::map(vec![(Node::u(0), Node::bytes(addr)), (Node::u(1), value_node(coin, assets))])
    }
}

pub fn input_node(h: &[u8; 32], ix: u64) -> Node {
    Node::arr(vec![Node::bytes(h), Node::u(ix)])
}
/// replace the input list under body key `key` (0 / 13 / 18), keeping the container style
pub fn set_inputs(tx: &[u8], key: u64, ins: &[InRef]) -> Vec<u8> {
    let like = body_get(tx, key);
    let items = ins.iter().map(|(h, i)| input_node(h, *i)).collect();
    body_set(tx, key, Some(list_like(like.as_ref(), items)))
}

pub type MintList = Vec<(Vec<u8>, Vec<(Vec<u8>, i128)>)>;

pub fn mint_get(tx: &[u8]) -> MintList {
    let mut out = vec![];
    if let Some(m) = body_get(tx, 9) {
        for (p, inner) in node_map(&m).cloned().unwrap_or_default() {
            let mut ys = vec![];
            for (n, q) in node_map(&inner).cloned().unwrap_or_default() {
                let q = match q {
                    Node::UInt(v, _) => v as i128,
                    Node::NInt(v, _) => -1 - v as i128,
                    _ => 0,
                };
                ys.push((node_bytes(&n).unwrap_or_default(), q));
            }
            out.push((node_bytes(&p).unwrap_or_default(), ys));
        }
    }
    out
}
pub fn mint_node(m: &MintList) -> Node {
    let mut a = m.clone();
    a.sort_by(|x, y| (x.0.len(), &x.0).cmp(&(y.0.len(), &y.0)));
    Node::map(
        a.iter()
            .map(|(p, xs)| {
                let mut xs = xs.clone();
                xs.sort_by(|x, y| (x.0.len(), &x.0).cmp(&(y.0.len(), &y.0)));
                (Node::bytes(p), Node::map(xs.iter().map(|(n, q)| (Node::bytes(n), Node::int(*q))).collect()))
            })
            .collect(),
    )
}
/// set body key 9 (None / empty list removes it)
pub fn mint_set(tx: &[u8], m: &MintList) -> Vec<u8> {
    body_set(tx, 9, if m.is_empty() { None } else { Some(mint_node(m)) })
}
pub fn mint_put(m: &mut MintList, policy: &[u8], name: &[u8], q: i128) {
    if let Some(e) = m.iter_mut().find(|(p, _)| p == policy) {
        if let Some(x) = e.1.iter_mut().find(|(n, _)| n == name) {
            x.1 = q;
        } else {
            e.1.push((name.to_vec(), q));
        }
    } else {
        m.push((policy.to_vec(), vec![(name.to_vec(), q)]));
    }
}

/// an always-true native script `all [ all [] x nonce ]` (the nonce makes distinct scripts / policy ids)
/// and its script hash
pub fn native_always(nonce: u8) -> (Node, [u8; 28]) {
    let inner: Vec<Node> = (0..nonce).map(|_| Node::arr(vec![Node::u(1), Node::arr(vec![])])).collect();
    let s = Node::arr(vec![Node::u(1), Node::arr(inner)]);
    let mut pre = vec![0u8];
    pre.extend(s.to_vec());
    (s, refhash::blake2b_224(&pre))
}
/// append a native script to witness-set key 1
pub fn add_native_script(tx: &[u8], script: Node) -> Vec<u8> {
    let cur = wits_get(tx, 1);
    let mut items = cur.as_ref().and_then(|n| elems(n).cloned()).unwrap_or_default();
    items.push(script);
    wits_set(tx, 1, Some(list_like(cur.as_ref(), items)))
}

/// move `delta` lovelace between the fee and output `i` so that the ada balance is unchanged:
/// fee += delta, output.coin -= delta (delta may be negative). None if it would under/overflow.
pub fn shift_fee(tx: &[u8], i: usize, delta: i128) -> Option<Vec<u8>> {
    let f = fee(tx) as i128 + delta;
    let c = output_coin(tx, i) as i128 - delta;
    if f < 0 || c < 0 || f > u64::MAX as i128 || c > u64::MAX as i128 {
        return None;
    }
    Some(set_output_coin(&set_fee(tx, f as u64), i, c as u64))
}
/// index of the output with the largest coin
pub fn richest_output(tx: &[u8]) -> Option<usize> {
    let outs = outputs(tx);
    (0..outs.len()).max_by_key(|i| outs.get(*i).and_then(out_get).map(|x| x.0).unwrap_or(0))
}

// ---------------------------------------------------------------------------------------
// Byron re-keying
// ---------------------------------------------------------------------------------------

/// `[type, [type, key], attrs]` hashed with SHA3-256 then Blake2b-224 (address root)
pub fn byron_root(addr_type: u64, key: &[u8], attrs_raw: &[u8]) -> [u8; 28] {
    let n = Node::arr(vec![Node::u(addr_type), Node::arr(vec![Node::u(addr_type), Node::bytes(key)]), Node::raw(attrs_raw)]);
    refhash::blake2b_224(&refhash::sha3_256(&n.to_vec()))
}
/// (root, raw attributes, type) of a Byron address payload `[root, attrs, type]`
pub fn byron_payload_parts(payload: &[u8]) -> Option<(Vec<u8>, Vec<u8>, u64)> {
    let it = cbor::parse(payload).ok()?;
    if it.children.len() != 3 {
        return None;
    }
    Some((it.children[0].str_payload(payload), it.children[1].bytes(payload).to_vec(), it.children[2].arg))
}
pub fn byron_payload(root: &[u8], attrs_raw: &[u8], addr_type: u64) -> Vec<u8> {
    Node::arr(vec![Node::bytes(root), Node::raw(attrs_raw), Node::u(addr_type)]).to_vec()
}
/// data a Byron witness signs: tag (1 = pk, 2 = redeem) ‖ CBOR(magic) ‖ CBOR(bytes(tx id))
pub fn byron_sign_data(redeem: bool, magic: u32, txid: &[u8; 32]) -> Vec<u8> {
    let mut v = vec![if redeem { 2u8 } else { 1u8 }];
    v.extend(Node::u(magic as u64).to_vec());
    v.extend(Node::bytes(txid).to_vec());
    v
}
/// witness node `[tag, 24(bytes(cbor([key, sig])))]`
pub fn byron_witness(redeem: bool, key: &[u8], sig: &[u8]) -> Node {
    let inner = Node::arr(vec![Node::bytes(key), Node::bytes(sig)]).to_vec();
    Node::arr(vec![Node::u(if redeem { 2 } else { 0 }), Node::tag(24, Node::bytes(&inner))])
}

/// Byron fixture whose input addresses are owned by a harness key: the root of every input's
/// address payload is recomputed for the new key (type and attributes kept) and the witnesses are
/// regenerated. `keys[0].vk` is the Ed25519 key; the extended "public key" of a PubKey address is
/// `vk ‖ 32 bytes of chain code`.
pub fn byron_rekeyed(f: &Fixture) -> Fixture {
    let mut g = f.clone();
    if f.era != Era::Byron || f.rekeyed {
        return g;
    }
    let sk = refhash::blake2b_256(format!("pv-byron-key:{}", f.name).as_bytes());
    let vk = vk_of(&sk);
    for e in g.utxo.iter_mut() {
        if let Some((_, attrs, ty)) = byron_payload_parts(&e.out.address) {
            let key = byron_key_bytes(&vk, ty == 2);
            e.out.address = byron_payload(&byron_root(ty, &key, &attrs), &attrs, ty);
        }
    }
    g.keys = vec![OwnKey { sk, vk, hash: key_hash(&vk), old_vk: [0; 32], old_hash: [0; 28] }];
    g.rekeyed = true;
    g.tx_bytes = byron_resign(&g, &f.tx_bytes);
    g
}
pub fn byron_key_bytes(vk: &[u8; 32], redeem: bool) -> Vec<u8> {
    let mut k = vk.to_vec();
    if !redeem {
        k.extend_from_slice(&refhash::blake2b_256(b"pv-byron-chain-code"));
    }
    k
}
/// regenerate the witness list of a re-keyed Byron fixture: one witness per input, of the kind the
/// input's UTxO address asks for (redeem / public key)
pub fn byron_resign(f: &Fixture, tx: &[u8]) -> Vec<u8> {
    let Some(k) = f.keys.first() else { return tx.to_vec() };
    let id = tx_id(tx);
    let mut ws = vec![];
    let mut kinds = vec![];
    for (h, ix) in body_inputs(tx, 0) {
        let redeem = f.utxo.iter().find(|e| e.tx_hash == h && e.index == ix).and_then(|e| byron_payload_parts(&e.out.address)).map(|p| p.2 == 2).unwrap_or(false);
        if kinds.contains(&redeem) {
            continue;
        }
        kinds.push(redeem);
        let sig = sign(&k.sk, &byron_sign_data(redeem, f.env.prot_magic, &id));
        ws.push(byron_witness(redeem, &byron_key_bytes(&k.vk, redeem), &sig));
    }
    if ws.is_empty() {
        let sig = sign(&k.sk, &byron_sign_data(false, f.env.prot_magic, &id));
        ws.push(byron_witness(false, &byron_key_bytes(&k.vk, false), &sig));
    }
    let like = Some(wits_node(tx));
    replace_wits(tx, list_like(like.as_ref(), ws))
}

/// Byron outputs: `[[24(payload), crc], coin]`
pub fn byron_outputs(tx: &[u8]) -> Vec<Node> {
    elems(&body_node(tx)).and_then(|xs| xs.get(1)).and_then(|o| elems(o).cloned()).unwrap_or_default()
}
fn byron_set_part(tx: &[u8], idx: usize, items: Vec<Node>) -> Vec<u8> {
    let mut b = body_node(tx);
    if let Some(xs) = elems_mut(&mut b) {
        if let Some(slot) = xs.get_mut(idx) {
            *slot = list_like(Some(&slot.clone()), items);
        }
    }
    replace_body(tx, b)
}
pub fn byron_set_outputs(tx: &[u8], outs: Vec<Node>) -> Vec<u8> {
    byron_set_part(tx, 1, outs)
}
pub fn byron_set_inputs(tx: &[u8], ins: &[InRef]) -> Vec<u8> {
    let items = ins
        .iter()
        .map(|(h, i)| Node::arr(vec![Node::u(0), Node::tag(24, Node::bytes(&Node::arr(vec![Node::bytes(h), Node::u(*i)]).to_vec()))]))
        .collect();
    byron_set_part(tx, 0, items)
}
pub fn byron_output(payload: &[u8], coin: u64) -> Node {
    Node::arr(vec![Node::arr(vec![Node::tag(24, Node::bytes(payload)), Node::u(refhash::crc32(payload) as u64)]), Node::u(coin)])
}
pub fn byron_set_coin(tx: &[u8], i: usize, coin: u64) -> Vec<u8> {
    let mut outs = byron_outputs(tx);
    if let Some(Node::Array(xs, _) | Node::ArrayIndef(xs)) = outs.get_mut(i) {
        if xs.len() == 2 {
            xs[1] = Node::u(coin);
        }
    }
    byron_set_outputs(tx, outs)
}

/// re-sign whatever the era
pub fn resign_any(f: &Fixture, tx: &[u8]) -> Vec<u8> {
    if f.era == Era::Byron {
        byron_resign(f, tx)
    } else {
        f.resign(tx)
    }
}

/// all 24 fixtures re-keyed (Byron included) whose unmutated re-keyed form is accepted
pub fn all_rekeyed() -> Vec<Fixture> {
    all_fixtures().iter().map(|f| if f.era == Era::Byron { byron_rekeyed(f) } else { f.rekeyed() }).filter(|r| r.validate(&r.tx_bytes).accepted()).collect()
}

// ---------------------------------------------------------------------------------------
// UTxO entries with a per-entry encoding, validation wrapper
// ---------------------------------------------------------------------------------------

/// one UTxO entry: the input it is keyed by + the encoded output and the era it is decoded with
#[derive(Clone, Debug)]
pub struct MixEntry {
    pub tx_hash: [u8; 32],
    pub index: u64,
    /// key the map with a Byron-style input
    pub byron_input: bool,
    pub era: Era,
    pub bytes: Vec<u8>,
}

pub fn era_of_style(s: OutStyle) -> Era {
    match s {
        OutStyle::Byron => Era::Byron,
        OutStyle::AlonzoCompat => Era::Alonzo,
        OutStyle::Babbage => Era::Babbage,
        OutStyle::Conway => Era::Conway,
    }
}

impl MixEntry {
    pub fn from_entry(e: &UtxoEntry, style: OutStyle, byron_input: bool) -> MixEntry {
        MixEntry { tx_hash: e.tx_hash, index: e.index, byron_input, era: era_of_style(style), bytes: e.out.encode(style) }
    }
}

pub struct MixStore {
    pub items: Vec<MixEntry>,
}

impl MixStore {
    pub fn of_fixture(f: &Fixture, utxo: &[UtxoEntry]) -> MixStore {
        let st = f.style();
        MixStore { items: utxo.iter().map(|e| MixEntry::from_entry(e, st, st == OutStyle::Byron)).collect() }
    }
    /// Err = some harness-built output does not decode in its era (the case is skipped)
    pub fn utxos(&self) -> Result<UTxOs<'_>, String> {
        let mut m = UTxOs::new();
        for e in &self.items {
            let input = if e.byron_input {
                MultiEraInput::Byron(Box::new(Cow::Owned(pallas_primitives::byron::TxIn::Variant0(pallas_codec::utils::CborWrap((pallas_crypto::hash::Hash::<32>::from(e.tx_hash), e.index as u32))))))
            } else {
                MultiEraInput::AlonzoCompatible(Box::new(Cow::Owned(pa::TransactionInput { transaction_id: pallas_crypto::hash::Hash::<32>::from(e.tx_hash), index: e.index })))
            };
            let out = MultiEraOutput::decode(e.era, &e.bytes).map_err(|er| format!("{er}"))?;
            m.insert(input, out);
        }
        Ok(m)
    }
    pub fn fingerprint(&self) -> u64 {
        let mut h = 0u64;
        for e in &self.items {
            h = crate::fp_mix(h, crate::fp(&e.bytes));
            h = crate::fp_mix(h, crate::fp(&e.tx_hash) ^ e.index ^ ((e.byron_input as u64) << 40) ^ ((e.era as u64) << 48));
        }
        h
    }
}

#[derive(Debug)]
pub enum Outcome {
    /// tx or a UTxO output is not decodable (or decoding itself panicked): not a case of the property
    NotDecodable(String),
    Accepted,
    Rejected(String),
    Panicked(PanicInfo),
}

impl Outcome {
    pub fn label(&self) -> String {
        match self {
            Outcome::NotDecodable(_) => "undecodable".into(),
            Outcome::Accepted => "accepted".into(),
            Outcome::Rejected(e) => format!("rejected:{e}"),
            Outcome::Panicked(p) => format!("panic:{}", p.site()),
        }
    }
}

/// decode (panics and errors there are *not* validation results), then `validate_tx`, or
/// `validate_txs` over `copies` copies of the transaction when `copies > 0`
pub fn run_validate(era: Era, tx: &[u8], store: &MixStore, env: &Environment, cs: &mut CertState, copies: usize) -> Outcome {
    let dec = panics::catch(|| {
        let utxos = store.utxos()?;
        let metx = MultiEraTx::decode_for_era(era, tx).map_err(|e| format!("{e}"))?;
        Ok::<_, String>((utxos, metx))
    });
    let (utxos, metx) = match dec {
        Ok(Ok(x)) => x,
        Ok(Err(e)) => return Outcome::NotDecodable(e),
        Err(p) => return Outcome::NotDecodable(format!("decode panicked: {}", p.site())),
    };
    let r = panics::catch(|| {
        if copies == 0 {
            validate_tx(&metx, 0, env, &utxos, cs)
        } else {
            let v: Vec<MultiEraTx> = (0..copies).map(|_| metx.clone()).collect();
            validate_txs(&v, env, &utxos, cs)
        }
    });
    match r {
        Ok(Ok(())) => Outcome::Accepted,
        Ok(Err(e)) => Outcome::Rejected(format!("{e:?}")),
        Err(p) => Outcome::Panicked(p),
    }
}

/// first word of a `Debug`-formatted validation error, e.g. `PostAlonzo(FeeBelowMin)` -> `FeeBelowMin`
pub fn err_variant(e: &str) -> String {
    let inner = e.split_once('(').map(|x| x.1).unwrap_or(e);
    inner.chars().take_while(|c| c.is_ascii_alphanumeric()).collect()
}

pub fn era_name(e: Era) -> &'static str {
    match e {
        Era::Byron => "byron",
        Era::Shelley | Era::Allegra | Era::Mary => "shelley_ma",
        Era::Alonzo => "alonzo",
        Era::Babbage => "babbage",
        _ => "conway",
    }
}
