#!/bin/bash
# ./run_some.sh <tier> <seed> Cnn... : like run_all.sh for a subset
cd "$(dirname "$0")"; tier=$1; s=$2; shift 2; mkdir -p run/all
for c in "$@"; do st=$(date +%s); VERIF_SEED=$s ./check $c $tier > run/all/$c-$tier-$s.log 2>&1; rc=$?; en=$(date +%s)
  echo "$c $tier seed=$s rc=$rc violations=$(grep -c '^VIOLATION' run/all/$c-$tier-$s.log) known=$(grep -c '^KNOWN-FINDING' run/all/$c-$tier-$s.log) inconclusive=$(grep -c '^INCONCLUSIVE' run/all/$c-$tier-$s.log) wall=$((en-st))s"; done
