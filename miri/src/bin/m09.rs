//! C09 under Miri: ledger / address decoders of pallas-traverse and pallas-addresses on a small sample
//! of real artefacts and byte-level mutations of them. Miri reports undefined behaviour anywhere in
//! the interpreted code (minicbor, cryptoxide, base58/bech32, std); panics are caught and reported
//! like in the native monitor. Run with -Zmiri-tree-borrows (cryptoxide 0.4.4 trips Stacked Borrows).
use pallas_addresses::Address;
use pallas_traverse::{MultiEraBlock, MultiEraTx};
use pvmiri::*;
use std::panic::{catch_unwind, AssertUnwindSafe};
use std::sync::Mutex;

static LAST: Mutex<String> = Mutex::new(String::new());

fn load(name: &str) -> Vec<u8> {
    let repo = std::env::var("PV_REPO").unwrap_or_else(|_| "/repo".into());
    let s = std::fs::read_to_string(format!("{repo}/test_data/{name}")).expect("test_data file");
    hex::decode(s.trim()).expect("hex")
}

fn mutate(rng: &mut Rng, src: &[u8]) -> Vec<u8> {
    let mut v = src.to_vec();
    match rng.below(6) {
        0 => {
            let i = rng.below(v.len() as u64) as usize;
            v[i] ^= 1 << rng.below(8);
        }
        1 => {
            let n = rng.below(v.len() as u64) as usize;
            v.truncate(n);
        }
        2 => {
            let i = rng.below(v.len() as u64) as usize;
            v[i] = [0x00u8, 0xff, 0x7f, 0x80, 0x9f, 0xbf, 0x5f, 0x1b, 0x3b, 0xd8][rng.below(10) as usize];
        }
        3 => {
            let i = rng.below(v.len() as u64 + 1) as usize;
            let k = 1 + rng.below(4) as usize; let ins = rng.bytes(k);
            v.splice(i..i, ins);
        }
        4 => {
            let i = rng.below(v.len() as u64) as usize;
            let j = (i + 1 + rng.below(8) as usize).min(v.len());
            v.drain(i..j);
        }
        _ => {
            for _ in 0..3 {
                let i = rng.below(v.len() as u64) as usize;
                v[i] = rng.next() as u8;
            }
        }
    }
    v
}

fn main() {
    let (seed, quick, i, n) = args();
    std::panic::set_hook(Box::new(|info| {
        let loc = info.location().map(|l| l.file().to_string()).unwrap_or_default();
        *LAST.lock().unwrap() = loc;
    }));
    let mut rng = Rng::new(seed ^ (i << 40) ^ 0x0909);
    // small artefacts only: the interpreter costs ~1 s per kilobyte of block
    let txs = ["byron1.tx", "shelley1.tx", "mary1.tx", "alonzo1.tx", "babbage1.tx", "conway1.tx", "scriptwit.tx", "datum-only.tx"];
    let blocks = ["byron1.block", "shelley1.block", "alonzo3.block"];
    let addrs = ["addr1qx2fxv2umyhttkxyxp8x0dlpdt3k6cwng5pxj3jhsydzer3n0d3vllmyqwsx5wktcd8cc3sq835lu7drv2xwl2wywfgse35a3x", "37btjrVyb4KDXBNC4haBVPCrro8AQPHwvCMp3RFhhSVWwfFmZ6wwzSK6JK1hY6wHNmtrpTf1kdbva8TCneM2YsiXT7mrzT21EacHnPpz5YyUdj64na", "stake1uyehkck0lajq8gr28t9uxnuvgcqrc6070x3k9r8048z8y5gh6ffgw"];
    let mut evals = 0u64;
    let mut fps = vec![];
    let mut viol: Vec<(String, String, String)> = vec![];
    let rounds = if quick { 6 } else { 24 };
    let mut run = |label: &str, bytes: &[u8], kind: u8, evals: &mut u64, viol: &mut Vec<(String, String, String)>| {
        let r = catch_unwind(AssertUnwindSafe(|| match kind {
            0 => MultiEraTx::decode(bytes).map(|t| { let _ = t.hash(); }).is_ok(),
            1 => MultiEraBlock::decode(bytes).map(|b| { let _ = b.hash(); let _ = b.tx_count(); }).is_ok(),
            _ => Address::from_bytes(bytes).is_ok(),
        }));
        *evals += 1;
        if r.is_err() {
            let loc = LAST.lock().unwrap().clone();
            let loc = loc.rsplit("/repo/").next().unwrap_or("").to_string();
            viol.push((format!("miri:panic:{label}:{loc}"), format!("decoder panicked on a mutation of {label}"), hex::encode(&bytes[..bytes.len().min(200)])));
        }
    };
    let mut k = 0u64;
    for t in txs {
        k += 1;
        if k % n.max(1) != i % n.max(1) { continue; }
        let b = load(t);
        run(t, &b, 0, &mut evals, &mut viol);
        for _ in 0..rounds {
            let m = mutate(&mut rng, &b);
            run(t, &m, 0, &mut evals, &mut viol);
            fps.push(fp(&m));
        }
    }
    for t in blocks {
        k += 1;
        if k % n.max(1) != i % n.max(1) { continue; }
        let b = load(t);
        if b.len() > 6000 { continue; }
        run(t, &b, 1, &mut evals, &mut viol);
        for _ in 0..(rounds / 3).max(1) {
            let m = mutate(&mut rng, &b);
            run(t, &m, 1, &mut evals, &mut viol);
            fps.push(fp(&m));
        }
    }
    for a in addrs {
        k += 1;
        if k % n.max(1) != i % n.max(1) { continue; }
        let _ = catch_unwind(|| Address::from_bech32(a).is_ok() || Address::from_str_lossy(a));
        evals += 1;
        if let Ok(addr) = Address::from_bech32(a) {
            let b = addr.to_vec();
            for _ in 0..rounds * 2 {
                let m = mutate(&mut rng, &b);
                run("address", &m, 2, &mut evals, &mut viol);
                fps.push(fp(&m));
            }
        }
    }
    result(evals, &[("miri_decodes", evals)], &fps, &viol);
}

trait Lossy { fn from_str_lossy(s: &str) -> bool; }
impl Lossy for Address { fn from_str_lossy(s: &str) -> bool { use std::str::FromStr; Address::from_str(s).is_ok() } }
