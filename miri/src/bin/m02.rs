//! C02 under Miri: the flat decoder on every byte string of length 0..1 and on a sample of
//! structured inputs, through the typed entry points and the raw Decoder calls. Miri reports
//! undefined behaviour (incl. in std / dependencies reached from the decoder); panics are
//! caught and reported as violations like in the native monitor.
use pallas_codec::flat;
use pallas_codec::flat::de::Decoder;
use pallas_codec::flat::filler::Filler;
use pvmiri::*;
use std::panic::{catch_unwind, AssertUnwindSafe};
use std::sync::Mutex;

static LAST: Mutex<String> = Mutex::new(String::new());

fn msg_class(m: &str) -> String {
    let mut out = String::new();
    let mut last_hash = false;
    for ch in m.chars().take(120) {
        if ch.is_ascii_digit() {
            if !last_hash {
                out.push('#');
                last_hash = true;
            }
        } else {
            last_hash = false;
            out.push(if ch == '"' || ch == '\\' || ch == '\n' { ' ' } else { ch });
        }
    }
    out
}

#[derive(Clone, Copy)]
enum Op {
    Bool,
    U8,
    Word,
    Integer,
    Char,
    Bytes,
    Utf8,
    Filler,
    Bits8(usize),
    BoolList,
    U8List,
    WordList,
    CharString,
}

/// the decoder method in which a panic of this call can only originate (for the signature)
fn leaf(op: Op) -> &'static str {
    match op {
        Op::Bool | Op::BoolList => "bool",
        Op::Bits8(0) => "bits8(0)",
        Op::U8 | Op::U8List | Op::Bits8(_) => "bits8(n>0)",
        Op::Word | Op::Integer | Op::Char | Op::WordList | Op::CharString => "word",
        Op::Bytes | Op::Utf8 => "bytes",
        Op::Filler => "filler",
    }
}

fn call(d: &mut Decoder, op: Op) -> bool {
    match op {
        Op::Bool => d.bool().is_ok(),
        Op::U8 => d.u8().is_ok(),
        Op::Word => d.word().is_ok(),
        Op::Integer => d.integer().is_ok(),
        Op::Char => d.char().is_ok(),
        Op::Bytes => d.bytes().is_ok(),
        Op::Utf8 => d.utf8().is_ok(),
        Op::Filler => d.filler().is_ok(),
        Op::Bits8(n) => d.bits8(n).is_ok(),
        Op::BoolList => d.decode_list_with(|d| d.bool()).is_ok(),
        Op::U8List => d.decode_list_with(|d| d.u8()).is_ok(),
        Op::WordList => d.decode_list_with(|d| d.word()).is_ok(),
        Op::CharString => d.string().is_ok(),
    }
}

struct Acc {
    evals: u64,
    oks: u64,
    errs: u64,
    panics: u64,
    viol: Vec<(String, String, String)>,
}

impl Acc {
    fn record(&mut self, r: Result<bool, ()>, leaf: &str, what: impl FnOnce() -> String) {
        self.evals += 1;
        match r {
            Ok(true) => self.oks += 1,
            Ok(false) => self.errs += 1,
            Err(()) => {
                self.panics += 1;
                let m = LAST.lock().map(|g| g.clone()).unwrap_or_default();
                let sig = format!("miri:panic:flat-decoder:{leaf}:{}", msg_class(&m));
                if !self.viol.iter().any(|(s, _, _)| *s == sig) {
                    self.viol.push((sig, format!("{} panicked under Miri: {}", what(), msg_class(&m)), String::new()));
                }
            }
        }
    }
}

fn hexs(b: &[u8]) -> String {
    b.iter().map(|x| format!("{x:02x}")).collect()
}

fn run_input(acc: &mut Acc, input: &[u8], ops: &[Op], bits8_zero: bool, offsets: &[usize]) {
    // typed entry points
    macro_rules! typed {
        ($t:ty, $leaf:expr) => {{
            let r = catch_unwind(AssertUnwindSafe(|| flat::decode::<$t>(input).is_ok())).map_err(|_| ());
            acc.record(r, $leaf, || format!("flat::decode::<{}>({})", stringify!($t), hexs(input)));
        }};
    }
    typed!(bool, "bool");
    typed!(u8, "bits8(n>0)");
    typed!(usize, "word");
    typed!(isize, "word");
    typed!(char, "word");
    typed!(Vec<u8>, "bytes");
    typed!(String, "bytes");
    typed!(Filler, "filler");
    // raw calls at offsets 0 and 3
    for op in ops {
        if let Op::Bits8(0) = op {
            if !bits8_zero {
                continue;
            }
        }
        for &pre in offsets {
            let r = catch_unwind(AssertUnwindSafe(|| {
                let mut d = Decoder::new(input);
                if pre > 0 {
                    let _ = d.bits8(pre);
                }
                let a = call(&mut d, *op);
                // one more call on the same decoder, whatever happened
                let _ = d.filler();
                a
            }))
            .map_err(|_| ());
            acc.record(r, leaf(*op), || format!("Decoder::{} after bits8({pre}) on {}", op.tag(), hexs(input)));
        }
    }
}

trait AsTag {
    fn tag(self) -> String;
}
impl AsTag for Op {
    fn tag(self) -> String {
        match self {
            Op::Bool => "bool".into(),
            Op::U8 => "u8".into(),
            Op::Word => "word".into(),
            Op::Integer => "integer".into(),
            Op::Char => "char".into(),
            Op::Bytes => "bytes".into(),
            Op::Utf8 => "utf8".into(),
            Op::Filler => "filler".into(),
            Op::Bits8(n) => format!("bits8({n})"),
            Op::BoolList => "boollist".into(),
            Op::U8List => "u8list".into(),
            Op::WordList => "wordlist".into(),
            Op::CharString => "charstring".into(),
        }
    }
}

fn structured(rng: &mut Rng) -> Vec<u8> {
    let mut v = match rng.below(6) {
        0 => {
            // continuation runs of every length
            let n = 1 + rng.below(40) as usize;
            let mut v = vec![0xffu8; n];
            if rng.below(4) != 0 {
                v.push(rng.below(128) as u8);
            }
            v.push(1);
            v
        }
        1 => {
            // byte blocks: filler, declared length, fewer bytes
            let declared = [1u8, 2, 5, 30, 63, 200, 255][rng.below(7) as usize];
            let present = rng.below(declared as u64 + 1).min(60) as usize;
            let mut v = vec![0x01, declared];
            v.extend(rng.bytes(present));
            if rng.below(2) == 0 {
                v.push(0);
            }
            v
        }
        2 => vec![[0x00u8, 0xff, 0x80][rng.below(3) as usize]; rng.below(65) as usize],
        3 => {
            // list bits
            let n = 1 + rng.below(30) as usize;
            (0..n).map(|_| 0x80 | rng.next() as u8).collect()
        }
        4 => {
            // 9..11 groups: around the usize limit
            let n = 8 + rng.below(4) as usize;
            let mut v = vec![0xffu8; n];
            v.push([0u8, 1, 2, 0x7f][rng.below(4) as usize]);
            v.push(1);
            v
        }
        _ => {
            let n = 2 + rng.below(63) as usize;
            rng.bytes(n)
        }
    };
    v.truncate(64);
    v
}

fn main() {
    let (seed, quick, i, n) = args();
    let n = n.max(1);
    std::panic::set_hook(Box::new(|info| {
        let msg = if let Some(s) = info.payload().downcast_ref::<&str>() {
            s.to_string()
        } else if let Some(s) = info.payload().downcast_ref::<String>() {
            s.clone()
        } else {
            "?".to_string()
        };
        if let Ok(mut g) = LAST.lock() {
            *g = msg;
        }
    }));
    let mut ops = vec![Op::Bool, Op::U8, Op::Word, Op::Integer, Op::Char, Op::Bytes, Op::Utf8, Op::Filler, Op::BoolList, Op::U8List, Op::WordList, Op::CharString];
    for k in 0..=9 {
        ops.push(Op::Bits8(k));
    }
    let mut acc = Acc { evals: 0, oks: 0, errs: 0, panics: 0, viol: vec![] };
    let mut fps = vec![];
    let mut inputs = 0u64;
    // every byte string of length 0 and 1, split over the processes
    let mut idx = 0u64;
    if idx % n == i {
        run_input(&mut acc, &[], &ops, true, &[0, 3]);
        inputs += 1;
        fps.push(fp(&[0xee]));
    }
    for a in 0..=255u8 {
        idx += 1;
        if idx % n == i {
            // bits8(0) panics on every call with overflow checks: a panic costs ~10 ms under Miri, sample it
            run_input(&mut acc, &[a], &ops, a % 16 == 0, &[0]);
            inputs += 1;
            fps.push(fp(&[1, a]));
        }
    }
    // structured inputs
    let mut rng = Rng::new(seed ^ (i << 32) ^ 0xC02);
    let total = if quick { 320 } else { 2400 };
    let mine = total / n + if i < total % n { 1 } else { 0 };
    for k in 0..mine {
        let v = structured(&mut rng);
        run_input(&mut acc, &v, &ops, k % 8 == 0, &[0, 3]);
        inputs += 1;
        fps.push(fp(&v));
    }
    result(
        acc.evals,
        &[("miri_decoder_calls", acc.evals), ("miri_inputs", inputs), ("miri_result_ok", acc.oks), ("miri_result_err", acc.errs), ("miri_panics_observed", acc.panics)],
        &fps,
        &acc.viol,
    );
}
