//! C14 under Miri: memeq / memcmp with buffers that end exactly at the end of their allocation.
use pallas_crypto::memsec::{memcmp, memeq};
use pvmiri::*;
fn main() {
    let (seed, quick, i, n) = args();
    let mut rng = Rng::new(seed ^ (i << 32));
    let mut evals = 0u64; let mut viol = vec![]; let mut fps = vec![];
    let mut check = |a: &[u8], b: &[u8], evals: &mut u64, viol: &mut Vec<(String,String,String)>| {
        let ba: Box<[u8]> = a.into(); let bb: Box<[u8]> = b.into();
        let (eq, ord) = unsafe { (memeq(ba.as_ptr(), bb.as_ptr(), a.len()), memcmp(ba.as_ptr(), bb.as_ptr(), a.len())) };
        *evals += 1;
        if eq != (a == b) { viol.push(("miri:memeq:mismatch".into(), format!("memeq {:?} {:?}", a, b), String::new())); }
        if ord != a.cmp(b) { viol.push(("miri:memcmp:mismatch".into(), format!("memcmp {:?} {:?}", a, b), String::new())); }
    };
    // length-1 pairs with a step, offset by the shard
    let step = if quick { 29 } else { 5 };
    let mut k = i;
    while k < 65536 {
        let (x, y) = ((k >> 8) as u8, k as u8);
        check(&[x], &[y], &mut evals, &mut viol);
        if x != y { fps.push(fp(&[x, y])); }
        k += step * n.max(1);
    }
    let cases = if quick { 300 } else { 3000 };
    for _ in 0..cases {
        let len = 1 + rng.below(48) as usize;
        let a = rng.bytes(len); let mut b = a.clone();
        match rng.below(4) { 0 => {}, 1 => { let j = rng.below(len as u64) as usize; b[j] ^= 1 << rng.below(8); }, 2 => { b[len-1] = b[len-1].wrapping_add(1); }, _ => { b = rng.bytes(len); } }
        check(&a, &b, &mut evals, &mut viol);
        if a != b { fps.push(fp(&a) ^ fp(&b).rotate_left(17)); }
    }
    result(evals, &[("miri_memsec_calls", evals * 2)], &fps, &viol);
}
