//! C13 under Miri: full evolution histories of Sum1..3Kes / Sum1..3CompactKes. The interpreter checks the
//! slice arithmetic of keygen_slice / update_slice (out-of-bounds, uninitialised reads, overlapping
//! copies); the program itself repeats the C13 window scan with node seeds from the reference Blake2b.
use pallas_crypto::kes::summed_kes::*;
use pallas_crypto::kes::traits::KesSk;
use pvmiri::*;

/// verbatim copy of the RFC 7693 Blake2b of harness/src/refhash.rs (that file needs the `hex` crate for its self-test)
mod refhash {
    const IV: [u64; 8] = [
        0x6a09e667f3bcc908,
        0xbb67ae8584caa73b,
        0x3c6ef372fe94f82b,
        0xa54ff53a5f1d36f1,
        0x510e527fade682d1,
        0x9b05688c2b3e6c1f,
        0x1f83d9abfb41bd6b,
        0x5be0cd19137e2179,
    ];

    const SIGMA: [[usize; 16]; 12] = [
        [0, 1, 2, 3, 4, 5, 6, 7, 8, 9, 10, 11, 12, 13, 14, 15],
        [14, 10, 4, 8, 9, 15, 13, 6, 1, 12, 0, 2, 11, 7, 5, 3],
        [11, 8, 12, 0, 5, 2, 15, 13, 10, 14, 3, 6, 7, 1, 9, 4],
        [7, 9, 3, 1, 13, 12, 11, 14, 2, 6, 5, 10, 4, 0, 15, 8],
        [9, 0, 5, 7, 2, 4, 10, 15, 14, 1, 11, 12, 6, 8, 3, 13],
        [2, 12, 6, 10, 0, 11, 8, 3, 4, 13, 7, 5, 15, 14, 1, 9],
        [12, 5, 1, 15, 14, 13, 4, 10, 0, 7, 6, 3, 9, 2, 8, 11],
        [13, 11, 7, 14, 12, 1, 3, 9, 5, 0, 15, 4, 8, 6, 2, 10],
        [6, 15, 14, 9, 11, 3, 0, 8, 12, 2, 13, 7, 1, 4, 10, 5],
        [10, 2, 8, 4, 7, 6, 1, 5, 15, 11, 9, 14, 3, 12, 13, 0],
        [0, 1, 2, 3, 4, 5, 6, 7, 8, 9, 10, 11, 12, 13, 14, 15],
        [14, 10, 4, 8, 9, 15, 13, 6, 1, 12, 0, 2, 11, 7, 5, 3],
    ];

    #[inline]
    fn g(v: &mut [u64; 16], a: usize, b: usize, c: usize, d: usize, x: u64, y: u64) {
        v[a] = v[a].wrapping_add(v[b]).wrapping_add(x);
        v[d] = (v[d] ^ v[a]).rotate_right(32);
        v[c] = v[c].wrapping_add(v[d]);
        v[b] = (v[b] ^ v[c]).rotate_right(24);
        v[a] = v[a].wrapping_add(v[b]).wrapping_add(y);
        v[d] = (v[d] ^ v[a]).rotate_right(16);
        v[c] = v[c].wrapping_add(v[d]);
        v[b] = (v[b] ^ v[c]).rotate_right(63);
    }

    fn compress(h: &mut [u64; 8], block: &[u8; 128], t: u128, last: bool) {
        let mut m = [0u64; 16];
        for i in 0..16 {
            m[i] = u64::from_le_bytes(block[i * 8..i * 8 + 8].try_into().unwrap());
        }
        let mut v = [0u64; 16];
        v[..8].copy_from_slice(h);
        v[8..].copy_from_slice(&IV);
        v[12] ^= t as u64;
        v[13] ^= (t >> 64) as u64;
        if last {
            v[14] = !v[14];
        }
        for r in 0..12 {
            let s = &SIGMA[r];
            g(&mut v, 0, 4, 8, 12, m[s[0]], m[s[1]]);
            g(&mut v, 1, 5, 9, 13, m[s[2]], m[s[3]]);
            g(&mut v, 2, 6, 10, 14, m[s[4]], m[s[5]]);
            g(&mut v, 3, 7, 11, 15, m[s[6]], m[s[7]]);
            g(&mut v, 0, 5, 10, 15, m[s[8]], m[s[9]]);
            g(&mut v, 1, 6, 11, 12, m[s[10]], m[s[11]]);
            g(&mut v, 2, 7, 8, 13, m[s[12]], m[s[13]]);
            g(&mut v, 3, 4, 9, 14, m[s[14]], m[s[15]]);
        }
        for i in 0..8 {
            h[i] ^= v[i] ^ v[i + 8];
        }
    }

    /// unkeyed Blake2b with `outlen` bytes of output (1..=64)
    pub fn blake2b(outlen: usize, data: &[u8]) -> Vec<u8> {
        assert!((1..=64).contains(&outlen));
        let mut h = IV;
        h[0] ^= 0x01010000 ^ outlen as u64;
        let mut t: u128 = 0;
        let mut off = 0usize;
        // all blocks but the last
        while data.len() - off > 128 {
            let blk: &[u8; 128] = data[off..off + 128].try_into().unwrap();
            t += 128;
            compress(&mut h, blk, t, false);
            off += 128;
        }
        let rest = &data[off..];
        let mut blk = [0u8; 128];
        blk[..rest.len()].copy_from_slice(rest);
        t += rest.len() as u128;
        compress(&mut h, &blk, t, true);
        let mut out = Vec::with_capacity(64);
        for w in h.iter() {
            out.extend_from_slice(&w.to_le_bytes());
        }
        out.truncate(outlen);
        out
    }

    pub fn blake2b_256(data: &[u8]) -> [u8; 32] {
        blake2b(32, data).try_into().unwrap()
    }
}

/// seeds[k][j]: node j of height k (own model: left = H(1|s), right = H(2|s); leaf seed = Ed25519 key)
fn tree_seeds(master: [u8; 32], depth: usize) -> Vec<Vec<[u8; 32]>> {
    let mut seeds = vec![vec![]; depth + 1];
    seeds[depth] = vec![master];
    for k in (1..=depth).rev() {
        let mut below = vec![];
        for s in &seeds[k] {
            let mut a = vec![1u8]; a.extend_from_slice(s);
            let mut b = vec![2u8]; b.extend_from_slice(s);
            below.push(refhash::blake2b_256(&a));
            below.push(refhash::blake2b_256(&b));
        }
        seeds[k - 1] = below;
    }
    seeds
}

struct Out { evals: u64, states: u64, windows: u64, fps: Vec<u64>, viol: Vec<(String, String, String)>, control_ok: u64 }

macro_rules! history {
    ($K:ident, $depth:expr, $kind:expr, $master:expr, $out:expr) => {{
        let master: [u8; 32] = $master;
        let seeds = tree_seeds(master, $depth);
        let mut buf = vec![0u8; <$K as KesSk>::SIZE + 4];
        let mut seed = master;
        let total = 1u32 << $depth;
        {
            let (mut key, pk) = $K::keygen(&mut buf, &mut seed);
            for t in 0..total {
                let bytes = key.as_bytes().to_vec();
                if key.get_period() != t { $out.viol.push((format!("miri:C13:{}:period-wrong", $kind), format!("{} period {} reported {}", stringify!($K), t, key.get_period()), String::new())); }
                if key.to_pk() != pk { $out.viol.push((format!("miri:C13:{}:to_pk-changed", $kind), format!("{} period {}", stringify!($K), t), String::new())); }
                for off in 0..bytes.len() - 31 {
                    let w = &bytes[off..off + 32];
                    for k in 0..=$depth {
                        for (j, s) in seeds[k].iter().enumerate() {
                            if ((j << k) as u32) < t && w == &s[..] {
                                $out.viol.push((format!("miri:C13:{}:past-seed-in-key-buffer", $kind), format!("{} period {}: seed of node height {} index {} at offset {}", stringify!($K), t, k, j, off), String::new()));
                            }
                        }
                    }
                    $out.windows += 1;
                }
                if bytes[..32] == seeds[0][t as usize] { $out.control_ok += 1; }
                $out.states += 1;
                $out.evals += 1;
                if t >= 1 { $out.fps.push(fp(&master) ^ ((($depth as u64) << 8 | t as u64) + if $kind == "compact" { 1 << 20 } else { 0 })); }
                let r = key.update();
                if r.is_ok() != (t + 1 < total) {
                    $out.viol.push((format!("miri:C13:{}:update-result-wrong", $kind), format!("{} update at period {} of {} returned ok={}", stringify!($K), t, total, r.is_ok()), String::new()));
                    break;
                }
            }
        }
        // key dropped: buffer must be readable (and is expected to be zero)
        let _z = buf.iter().all(|b| *b == 0);
    }};
}

fn main() {
    let (seed, quick, i, n) = args();
    let mut rng = Rng::new(seed ^ 0xC13);
    let mut out = Out { evals: 0, states: 0, windows: 0, fps: vec![], viol: vec![], control_ok: 0 };
    let rounds = if quick { 1 } else { 2 };
    let mut idx = 0u64;
    for _ in 0..rounds {
        let mut m = [0u8; 32];
        m.copy_from_slice(&rng.bytes(32));
        for which in 0..6u64 {
            // item k goes to process k % n: process 0 (which the driver runs first, alone, to build) gets a depth-1 history
            let k = idx;
            idx += 1;
            if k % n.max(1) != i % n.max(1) { continue; }
            // quick tier: a depth-3 history costs ~1 min under the interpreter, so only one of the two
            // constructions is run at depth 3 (which one depends on the seed); thorough runs both
            if quick && which % 3 == 2 && ((seed ^ (which / 3)) & 1) == 1 { continue; }
            match which {
                0 => history!(Sum1Kes, 1, "sum", m, out),
                1 => history!(Sum2Kes, 2, "sum", m, out),
                2 => history!(Sum3Kes, 3, "sum", m, out),
                3 => history!(Sum1CompactKes, 1, "compact", m, out),
                4 => history!(Sum2CompactKes, 2, "compact", m, out),
                _ => history!(Sum3CompactKes, 3, "compact", m, out),
            }
        }
    }
    result(out.evals, &[("miri_key_states", out.states), ("miri_windows_scanned", out.windows), ("miri_current_leaf_key_found", out.control_ok)], &out.fps, &out.viol);
}
