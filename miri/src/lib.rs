//! shared helpers for the Miri programs (no serde: keep the interpreted code small)
pub struct Rng(pub u64);
impl Rng {
    pub fn new(seed: u64) -> Self { Rng(seed.wrapping_mul(0x9E3779B97F4A7C15) ^ 0xD1B54A32D192ED03) }
    pub fn next(&mut self) -> u64 {
        self.0 = self.0.wrapping_add(0x9E3779B97F4A7C15);
        let mut z = self.0;
        z = (z ^ (z >> 30)).wrapping_mul(0xBF58476D1CE4E5B9);
        z = (z ^ (z >> 27)).wrapping_mul(0x94D049BB133111EB);
        z ^ (z >> 31)
    }
    pub fn below(&mut self, n: u64) -> u64 { if n == 0 { 0 } else { self.next() % n } }
    pub fn bytes(&mut self, n: usize) -> Vec<u8> { (0..n).map(|_| self.next() as u8).collect() }
}
pub fn args() -> (u64, bool, u64, u64) {
    let a: Vec<String> = std::env::args().collect();
    let seed: u64 = a.get(1).and_then(|s| s.parse().ok()).unwrap_or(1);
    let quick = a.get(2).map(|s| s != "thorough").unwrap_or(true);
    let (i, n) = a.get(3).and_then(|s| s.split_once('/')).map(|(x, y)| (x.parse().unwrap(), y.parse().unwrap())).unwrap_or((0, 1));
    (seed, quick, i, n)
}
pub fn fp(b: &[u8]) -> u64 {
    let mut h: u64 = 0xcbf29ce484222325;
    for x in b { h ^= *x as u64; h = h.wrapping_mul(0x100000001b3); }
    h
}
/// print the result line the driver merges
pub fn result(evals: u64, stats: &[(&str, u64)], fps: &[u64], violations: &[(String, String, String)]) {
    let st: Vec<String> = stats.iter().map(|(k, v)| format!("\"{k}\":{v}")).collect();
    let fp: Vec<String> = fps.iter().map(|f| f.to_string()).collect();
    let vi: Vec<String> = violations.iter().map(|(s, w, r)| format!("{{\"sig\":\"{s}\",\"what\":\"{w}\",\"replay\":\"{r}\",\"count\":1}}")).collect();
    println!("PVRESULT {{\"evaluations\":{evals},\"stats\":{{{}}},\"fps\":[{}],\"violations\":[{}]}}", st.join(","), fp.join(","), vi.join(","));
}
