"""Per-property configuration for ./check (bin name, profiles, shard counts, floors, evidence text)."""

PROPS = {
    "C14": {
        "bin": "c14",
        "profiles": ["checked", "release"],
        "rule": "length 1: all 65536 pairs; length 2: all 511x511 (byte0 diff, byte1 diff) classes x4 representatives (quick) or all 2^32 pairs (thorough); lengths 3..256 random with shared prefixes/suffixes. Non-trivial = pairs that differ (for length>=2: differ in a byte other than the first). Oracle: slice == and Ord::cmp; Miri interprets the unsafe reads with buffers at the end of their allocation.",
        "floor": {"quick": 500_000, "thorough": 1_000_000_000},
        "miri": {"bin": "m14", "procs": {"quick": 4, "thorough": 16}, "timeout_s": {"quick": 600, "thorough": 3000}},
        "trusted_base": ["core::slice PartialEq / Ord", "Miri (nightly) for pointer-validity of the volatile reads"],
        "assumptions": ["constant-*time* behaviour is not part of C14 and is not measured"],
        "exhaustive_key": "len1_exhaustive",
    },
}
