#!/usr/bin/env python3
"""Self-test of the python oracles (run by setup.sh)."""
import hashlib, sys
ok = True
# hashlib blake2b availability and RFC 7693 vector
h = hashlib.blake2b(b"abc").hexdigest()
if not h.startswith("ba80a53f981c4d0d"):
    print("hashlib.blake2b mismatch"); ok = False
try:
    import mpmath
    mpmath.mp.dps = 50
    assert abs(mpmath.e - mpmath.exp(1)) < mpmath.mpf(10) ** -45
except Exception as e:
    print("mpmath unavailable:", e); ok = False

# ---- nonintegral_ref.py (C15 / C16): fixed known answers -------------------------------------
def _t(name, cond):
    global ok
    if not cond:
        print("selftest FAILED:", name); ok = False
try:
    import os
    sys.path.insert(0, os.path.dirname(os.path.abspath(__file__)))
    import nonintegral_ref as R
    import math_exact as X
    P = R.P
    mpmath.mp.dps = 80
    def close(v, true, tol):
        return abs(mpmath.mpf(v) / mpmath.mpf(P) - true) <= mpmath.mpf(tol)
    # primitives: floor-scaling multiply, truncating division
    _t("scale floors", R.scale(-1) == -1 and R.scale(-P) == -1 and R.scale(-P - 1) == -2 and R.scale(2 * P - 1) == 1)
    _t("scale == python floor division", all(R.scale(v) == v // P for v in (-3 * P + 7, -7, 0, 7, 5 * P + 1)))
    _t("fdiv truncates", R.fdiv(-P, 3 * P) == -(P // 3) and R.fdiv(P, 3 * P) == P // 3 and R.fdiv(-P, -3 * P) == P // 3)
    _t("tdivmod", R.tdivmod(-7, 2) == (-3, -1) and R.tdivmod(7, -2) == (-3, 1))
    # e to 34 places as produced by the published algorithm (also the one value pinned by pallas' own unit test)
    _t("exp(1)", R.fmt(R.ref_exp(P)[0]) == "2.7182818284590452353602874043083282")
    _t("exp(0)", R.ref_exp(0) == (P, 0, 0))
    _t("exp(-1) = trunc(1/e)", R.ref_exp(-P)[0] == R.fdiv(P, R.ref_exp(P)[0]) and close(R.ref_exp(-P)[0], mpmath.exp(-1), "1e-24"))
    _t("exp(10) true value", close(R.ref_exp(10 * P)[0], mpmath.exp(10), "1e-18") and R.ref_exp(10 * P)[2] == 10)
    _t("exp scaling n = ceil(x)", R.ref_exp(10 * P + 1)[2] == 11 and R.ref_exp(P - 1)[2] == 1)
    _t("exp below 1e-24 is exactly 1", R.ref_exp(R.EPS - 1)[0] == P and R.ref_exp(R.EPS)[0] == P + R.EPS)
    # ln: brackets and values
    # (the initial bracket (-1, 1) is kept when x == e exactly: published behaviour)
    _t("find_e brackets", R.find_e(R.E() + 1) == 1 and R.find_e(R.E()) == 0 and R.find_e(R.E() - 1) == 0 and R.find_e(P) == 0 and R.find_e(P - 1) == -1 and R.find_e(10 * P) == 2 and R.find_e(P // 10) == -3)
    _t("ln(1) = 0", R.ref_ln(P)[0] == 0)
    _t("ln(2)", R.fmt(R.ref_ln(2 * P)[0]).startswith("0.693147180559945309417232") and close(R.ref_ln(2 * P)[0], mpmath.log(2), "1e-24"))
    _t("ln(e) ~ 1", close(R.ref_ln(R.E())[0], 1, "1e-24"))
    _t("ln(0.95)", close(R.ref_ln(95 * P // 100)[0], mpmath.log(mpmath.mpf("0.95")), "1e-24"))
    _t("ln domain", R.ref_ln(0) is None and R.ref_ln(-P) is None)
    # pow
    _t("pow identities", R.ref_pow(7 * P, 0)[0] == P and R.ref_pow(P, 5 * P)[0] == P and R.ref_pow(7 * P, P)[0] == 7 * P and R.ref_pow(0, 3 * P)[0] == 0 and R.ref_pow(0, -P)[0] is None)
    _t("sqrt(0.9)", close(R.ref_pow(9 * P // 10, P // 2)[0], mpmath.sqrt(mpmath.mpf("0.9")), "1e-24"))
    _t("2^10", close(R.ref_pow(2 * P, 10 * P)[0], 1024, "1e-18"))
    _t("(-2)^3 negative, (-2)^2 positive", close(R.ref_pow(-2 * P, 3 * P)[0], -8, "1e-20") and close(R.ref_pow(-2 * P, 2 * P)[0], 4, "1e-20"))
    # exp_cmp: triples worked out by hand from the published loop
    _t("exp_cmp GT by hand", R.ref_exp_cmp(P, 1000, 3, 10 * P) == (2 * P, "GT", 1))
    _t("exp_cmp LT by hand", R.ref_exp_cmp(P, 1000, 3, 0) == (2 * P, "LT", 1))
    _t("exp_cmp max_n 0", R.ref_exp_cmp(P, 0, 3, 3 * P) == (P, "UNKNOWN", 0))
    r = R.ref_exp_cmp(P // 2, 1000, 3, 2 * P)
    _t("exp_cmp e^0.5 < 2", r[1] == "GT" and r[2] <= 6)
    r = R.ref_exp_cmp(P, 1000, 3, R.E())
    _t("exp_cmp tie with e is UNKNOWN until the terms vanish", r[1] == "UNKNOWN" and abs(r[0] - R.E()) < 10 ** 12)
    _t("printing", R.fmt(-5) == "-0.0000000000000000000000000000000005" and R.parse_printed("-0.0000000000000000000000000000000005") == -5 and R.parse_printed("01.0000000000000000000000000000000000") is None)
    # the oracle as a whole on synthetic events: a wrong digit and a wrong conclusion must be flagged
    acc = R.Acc("C15")
    good = R.fmt(R.ref_exp(P)[0])
    R.check_c15({"op": "exp", "args": [str(P)], "result": good, "panic": None}, acc)
    _t("C15 oracle accepts the right digits", not acc.violations and acc.evaluations == 1)
    R.check_c15({"op": "exp", "args": [str(P)], "result": good[:-1] + "3", "panic": None}, acc)
    _t("C15 oracle flags one wrong last digit", list(acc.violations) == ["C15:exp:digits-differ:pos-1to100"])
    acc = R.Acc("C16")
    R.check_c16({"op": "exp_cmp", "args": [str(P), str(10 * P)], "result": R.fmt(2 * P), "panic": None, "extra": {"max_n": 1000, "bound": 3, "iterations": 1, "estimation": "GT"}}, acc)
    _t("C16 oracle accepts", not acc.violations)
    R.check_c16({"op": "exp_cmp", "args": [str(P), str(10 * P)], "result": R.fmt(2 * P), "panic": None, "extra": {"max_n": 1000, "bound": 3, "iterations": 1, "estimation": "LT"}}, acc)
    _t("C16 oracle flags a wrong LT", "C16:exp_cmp:wrong-LT:x-le-1.2" in acc.violations)

    # ---- math_exact.py (C17) ----------------------------------------------------------------
    _t("expected_print", X.expected_print(-5, 1) == "-0.5" and X.expected_print(5, 0) == "5.0" and X.expected_print(-1234, 3) == "-1.234" and X.expected_print(7, 3) == "0.007")
    _t("parse_print", X.parse_print("-0.5", 1) == (-5, None) and X.parse_print("-0.0", 1)[0] is None and X.parse_print("1.50", 1)[0] is None and X.parse_print("01.5", 1)[0] is None and X.parse_print("5.0", 0) == (5, None))
    _t("trunc_div", X.trunc_div(-7, 2) == -3 and X.trunc_div(7, -2) == -3 and X.trunc_div(-7, -2) == 3)
    def run(ev):
        a = X.Acc("C17"); X.check(ev, a); return sorted(a.violations)
    E = lambda op, p, a, r, v="-", x=None: {"op": op, "v": v, "p": p, "a": [str(i) for i in a], "r": r, "x": x if x is not None else {"rp": p}, "panic": None}
    _t("round tie either way", run(E("round", 1, [15], "2.0")) == [] and run(E("round", 1, [15], "1.0")) == [] and run(E("round", 1, [15], "3.0")) != [])
    _t("round p0 defect shape", run(E("round", 0, [5], "6.0")) == ["C17:round:farther-than-half:p0"] and run(E("round", 0, [5], "5.0")) == [])
    _t("floor of -0.5", run(E("floor", 1, [-5], "-1.0")) == [] and run(E("floor", 1, [-5], "0.0")) != [])
    _t("ceil of -0.5 is 0 without sign", run(E("ceil", 1, [-5], "0.0")) == [] and run(E("ceil", 1, [-5], "-0.0")) != [])
    _t("mul floors", run(E("mul", 34, [-1, 1], "-0.0000000000000000000000000000000001", "owned")) == [] and run(E("mul", 34, [-1, 1], "0.0000000000000000000000000000000000", "owned")) != [])
    _t("div truncates", run(E("div", 34, [-1, 3 * 10 ** 34], "0.0000000000000000000000000000000000", "owned")) == [] and run(E("div", 34, [-1, 3 * 10 ** 34], "-0.0000000000000000000000000000000001", "owned")) != [])
    _t("print sign with zero integer part", run(E("print", 3, [-862], "-0.862")) == [] and run(E("print", 3, [-862], "0.862")) != [])
    _t("cmp", run(E("cmp", 2, [-5, 3], "Less", x={"eq": False, "lt": True, "ge": False})) == [] and run(E("cmp", 2, [-5, 3], "Greater", x={"eq": False, "lt": False, "ge": True})) != [])
except Exception as e:
    import traceback; traceback.print_exc()
    print("math oracle selftest crashed:", e); ok = False
print("oracles selftest:", "ok" if ok else "FAILED")
sys.exit(0 if ok else 1)
