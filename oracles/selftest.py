#!/usr/bin/env python3
"""Self-test of the python oracles (run by setup.sh)."""
import hashlib, sys
ok = True
# hashlib blake2b availability and RFC 7693 vector
h = hashlib.blake2b(b"abc").hexdigest()
if not h.startswith("ba80a53f981c4d0d"):
    print("hashlib.blake2b mismatch"); ok = False
try:
    import mpmath
    mpmath.mp.dps = 50
    assert abs(mpmath.e - mpmath.exp(1)) < mpmath.mpf(10) ** -45
except Exception as e:
    print("mpmath unavailable:", e); ok = False
print("oracles selftest:", "ok" if ok else "FAILED")
sys.exit(0 if ok else 1)
