#!/usr/bin/env python3
"""Offline oracle for C17: exact fixed-point arithmetic, rounding and printing.

Usage (driver): math_exact.py --in events-i.jsonl --out oracle-i.json --prop C17

Event (written by harness/src/bin/c17.rs):
  {"op": add|sub|mul|div|neg|floor|ceil|round|trunc|cmp|print, "v": variant, "p": precision,
   "a": [raw integers as strings: value * 10^p], "r": printed result | ordering name | null,
   "x": {"rp": precision of the result} | {"eq":..,"lt":..,"ge":..}, "panic": site | null}

A stored value is the rational a / 10^p (fractions.Fraction). What the property demands:
  add/sub exact; mul = floor(exact product) and div = trunc(exact quotient) on the 34-digit grid;
  floor/ceil/trunc = the integers of those names; round = an integer within 1/2 of x
  (at an exact half-way point either neighbour satisfies the stated property; the direction is
  only counted); comparisons = comparisons of the rationals; the printed form = the exact
  decimal expansion: optional '-', integer part without leading zeros, '.', the fraction
  zero-padded to p digits (at p = 0 pallas prints the fraction field as a single '0': "5.0" —
  still the exact value; counted, accepted).
"""
import sys, json, argparse, hashlib, re
from fractions import Fraction
from math import floor, ceil

if hasattr(sys, "set_int_max_str_digits"):
    sys.set_int_max_str_digits(0)

PRINT_RE = re.compile(r"^(-?)(0|[1-9][0-9]*)\.([0-9]+)$")


def expected_print(v, p):
    """exact decimal expansion of v / 10^p in pallas' layout"""
    s = "-" if v < 0 else ""
    a = abs(v)
    if p == 0:
        return "%s%d.0" % (s, a)
    m = 10 ** p
    return "%s%d.%s" % (s, a // m, str(a % m).rjust(p, "0"))


def parse_print(s, p):
    """printed form -> (raw integer at precision p, None) or (None, reason)"""
    if not isinstance(s, str):
        return None, "not-a-string"
    m = PRINT_RE.match(s)
    if not m:
        return None, "malformed"
    sign, ip, fr = m.groups()
    if p == 0:
        if fr != "0":
            return None, "fraction-digits"
        v = int(ip)
    else:
        if len(fr) != p:
            return None, "fraction-digits"
        v = int(ip) * 10 ** p + int(fr)
    if sign and v == 0:
        return None, "negative-zero"
    return (-v if sign else v), None


def trunc_div(n, d):
    q = abs(n) // abs(d)
    return -q if (n < 0) != (d < 0) else q


def val_class(v, p):
    """class of an argument: precision class, sign, position of the fraction"""
    if p == 0:
        return "p0"
    m = 10 ** p
    sign = "zero" if v == 0 else ("neg" if v < 0 else "pos")
    r = abs(v) % m
    if r == 0:
        fc = "integral"
    elif 2 * r == m:
        fc = "half"
    elif 2 * r < m:
        fc = "below-half"
    else:
        fc = "above-half"
    ip = "int0" if abs(v) < m else "intN"
    return "pN:%s:%s:%s" % (sign, ip, fc)


def fp64(*parts):
    h = hashlib.blake2b(("|".join(str(x) for x in parts)).encode(), digest_size=8).digest()
    return int.from_bytes(h, "big") & ((1 << 63) - 1)


class Acc:
    def __init__(self, prop):
        self.prop = prop
        self.evaluations = 0
        self.stats = {}
        self.maxes = {}
        self.fps = set()
        self.samples = []
        self.violations = {}
        self.inconclusive = []

    def count(self, k, n=1):
        self.stats[k] = self.stats.get(k, 0) + n

    def max(self, k, n):
        if n > self.maxes.get(k, 0):
            self.maxes[k] = n

    def violation(self, sig, what, replay):
        sig = self.prop + ":" + sig
        v = self.violations.get(sig)
        if v:
            v["count"] += 1
        else:
            self.violations[sig] = {"sig": sig, "what": what[:900], "replay": replay, "count": 1}

    def dump(self, path):
        fps = sorted(self.fps)
        out = {
            "property": self.prop,
            "evaluations": self.evaluations,
            "stats": self.stats,
            "max": self.maxes,
            "fps": fps[:60000],
            "fp_overflow": max(0, len(fps) - 60000),
            "samples": self.samples,
            "violations": list(self.violations.values()),
            "inconclusive": self.inconclusive,
            "notes": {},
        }
        with open(path, "w") as f:
            json.dump(out, f)


def show(v, p):
    return expected_print(v, p)


def check(ev, acc):
    op, var, p = ev["op"], ev.get("v", "-"), int(ev["p"])
    a = [int(x) for x in ev["a"]]
    r = ev.get("r")
    m = 10 ** p
    acc.evaluations += 1
    acc.count("checked_" + op)
    acc.count("precision_%d" % p)
    opv = op if var in ("-", "owned") else "%s/%s" % (op, var)
    if ev.get("panic") is not None:
        acc.violation("%s:panic:%s:%s" % (opv, val_class(a[0], p), ev["panic"]),
                      "%s on %s (precision %d) panicked: %s" % (opv, [show(x, p) for x in a], p, ev["panic"]), ev)
        return
    x = Fraction(a[0], m)
    nontrivial = False

    # ---- comparisons -----------------------------------------------------------------
    if op == "cmp":
        y = Fraction(a[1], m)
        want = "Less" if x < y else ("Greater" if x > y else "Equal")
        ex = ev.get("x", {})
        ok = r == want and ex.get("eq") == (x == y) and ex.get("lt") == (x < y) and ex.get("ge") == (x >= y)
        if not ok:
            rel = "equal" if x == y else ("differ-in-sign" if (a[0] < 0) != (a[1] < 0) else "same-sign")
            acc.violation("cmp:disagrees-with-rationals:%s:%s" % ("p0" if p == 0 else "pN", rel),
                          "partial_cmp(%s, %s) = %s, eq=%s lt=%s ge=%s; the rationals compare %s" % (show(a[0], p), show(a[1], p), r, ex.get("eq"), ex.get("lt"), ex.get("ge"), want), ev)
        else:
            acc.count("cmp_ok_" + want)
        if a[0] != a[1] and (a[0] < 0 or a[1] < 0):
            nontrivial = True
            acc.fps.add(fp64(op, p, *ev["a"]))
        return

    # ---- everything else prints a decimal ------------------------------------------------
    got, why = parse_print(r, p)
    if got is None:
        acc.violation("%s:print-%s:%s" % (opv, why, val_class(a[0], p)),
                      "%s on %s (precision %d) printed %r, which is not a decimal with %d fraction digits" % (opv, [show(v, p) for v in a], p, r, p), ev)
        return
    if "rp" in ev.get("x", {}) and ev["x"]["rp"] != p:
        acc.violation("%s:precision-changed" % opv, "%s on precision %d returned a value of precision %s" % (opv, p, ev["x"]["rp"]), ev)
        return
    if p == 0:
        acc.count("print_p0_fraction_field_is_single_zero")
    gotv = Fraction(got, m)

    if op == "print":
        # parse_print already validated the layout; the value must be the stored one
        if got != a[0] or r != expected_print(a[0], p):
            acc.violation("print:not-exact-expansion:%s" % val_class(a[0], p),
                          "to_string of raw %s at precision %d printed %r, exact expansion is %s" % (ev["a"][0], p, r, expected_print(a[0], p)), ev)
        else:
            acc.count("print_exact")
        if a[0] < 0 and abs(a[0]) % m != 0:
            nontrivial = True
        if a[0] < 0 and abs(a[0]) < m:
            acc.count("print_negative_with_zero_integer_part")
    elif op == "neg":
        if got != -a[0]:
            acc.violation("%s:inexact:%s" % (opv, val_class(a[0], p)), "-(%s) = %s" % (show(a[0], p), r), ev)
        else:
            acc.count("neg_exact")
        nontrivial = a[0] != 0
    elif op in ("add", "sub", "mul", "div"):
        y = Fraction(a[1], m)
        if op == "add":
            exact = x + y
            want = a[0] + a[1]
        elif op == "sub":
            exact = x - y
            want = a[0] - a[1]
        elif op == "mul":
            exact = x * y
            want = floor(exact * m)  # floor on the 34-digit grid
        else:
            exact = x / y
            num = exact * m
            want = trunc_div(num.numerator, num.denominator)  # truncation on the 34-digit grid
        representable = Fraction(want, m) == exact
        if got != want:
            sign = "neg-result" if exact < 0 else "nonneg-result"
            kind = "representable" if representable else "unrepresentable"
            acc.violation("%s:inexact:%s:%s" % (opv, sign, kind),
                          "%s %s %s = %s, exact %s (exact value %s on the grid)" % (show(a[0], p), {"add": "+", "sub": "-", "mul": "*", "div": "/"}[op], show(a[1], p), r, show(want, p), "is" if representable else "is not"), ev)
        else:
            acc.count(op + "_exact")
        if not representable:
            nontrivial = True
            acc.count(op + "_result_not_representable")
            if exact < 0:
                acc.count(op + "_negative_unrepresentable")
    elif op in ("floor", "ceil", "trunc", "round"):
        cl = val_class(a[0], p)
        fl, ce = floor(x), ceil(x)
        if op == "floor":
            allowed = [fl]
        elif op == "ceil":
            allowed = [ce]
        elif op == "trunc":
            allowed = [fl if x >= 0 else ce]
        else:
            d_lo, d_hi = x - fl, ce - x
            if fl == ce:
                allowed = [fl]
            elif d_lo < d_hi:
                allowed = [fl]
            elif d_hi < d_lo:
                allowed = [ce]
            else:
                allowed = [fl, ce]
        if gotv.denominator != 1:
            acc.violation("%s:not-integral:%s" % (op, cl), "%s(%s) = %s is not an integer" % (op, show(a[0], p), r), ev)
        elif int(gotv) not in allowed:
            if op == "round":
                kind = "farther-than-half"
            elif op == "floor":
                kind = "above-argument" if gotv > x else "more-than-one-below"
            elif op == "ceil":
                kind = "below-argument" if gotv < x else "more-than-one-above"
            else:
                kind = "wrong-integer"
            acc.violation("%s:%s:%s" % (op, kind, cl),
                          "%s(%s) at precision %d = %s, expected %s" % (op, show(a[0], p), p, r, " or ".join(show(v * m, p) for v in allowed)), ev)
        else:
            acc.count(op + "_ok")
            if op == "round" and len(allowed) == 2:
                acc.count("round_tie_away_from_zero" if abs(gotv) > abs(x) else "round_tie_toward_zero")
        if (a[0] < 0 and abs(a[0]) % m != 0) or (p > 0 and 2 * (abs(a[0]) % m) == m):
            nontrivial = True
    else:
        acc.inconclusive.append("unknown op in event log: %r" % op)
        return
    if nontrivial:
        acc.fps.add(fp64(op, p, *ev["a"]))
        acc.count("nontrivial")
        if len(acc.samples) < 4 and len(str(r)) < 120:
            acc.samples.append({"op": opv, "precision": p, "raw_args": ev["a"], "pallas": r})


def main():
    ap = argparse.ArgumentParser()
    ap.add_argument("--in", dest="inp", required=True)
    ap.add_argument("--out", required=True)
    ap.add_argument("--prop", required=True)
    a = ap.parse_args()
    acc = Acc(a.prop)
    with open(a.inp) as f:
        for line in f:
            line = line.strip()
            if not line:
                continue
            try:
                ev = json.loads(line)
            except ValueError:
                acc.inconclusive.append("unparsable line in event log (shard died while writing?)")
                continue
            check(ev, acc)
    acc.dump(a.out)


if __name__ == "__main__":
    main()
