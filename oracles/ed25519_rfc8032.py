#!/usr/bin/env python3
"""Offline oracle for C11: pure-python Ed25519 after RFC 8032 section 6 (sample code), replaying a sample
of the tuples the shards logged.

usage: ed25519_rfc8032.py --in events-i.jsonl --out oracle-i.json --prop C11

Each line: {"kind": "standard"|"extended", "secret": hex, "msg": hex, "pk": hex, "sig": hex,
            "tampers": [{"field": "public-key"|"signature-R"|"signature-S"|"message", "bit": n, "pallas": bool, "reference": bool}]}
Checked: pk / sig equal the RFC computation; sig verifies; each listed single-bit tampering gets the same
verdict from the RFC verification equation (cofactor-less, S < L required) as pallas reported.
"""
import sys, json, hashlib, argparse

p = 2**255 - 19
L = 2**252 + 27742317777372353535851937790883648493
d = -121665 * pow(121666, p - 2, p) % p
modp_sqrt_m1 = pow(2, (p - 1) // 4, p)


def sha512(s):
    return hashlib.sha512(s).digest()


def point_add(P, Q):
    A, B = (P[1] - P[0]) * (Q[1] - Q[0]) % p, (P[1] + P[0]) * (Q[1] + Q[0]) % p
    C, D = 2 * P[3] * Q[3] * d % p, 2 * P[2] * Q[2] % p
    E, F, G, H = B - A, D - C, D + C, B + A
    return (E * F % p, G * H % p, F * G % p, E * H % p)


def point_mul(s, P):
    Q = (0, 1, 1, 0)
    while s > 0:
        if s & 1:
            Q = point_add(Q, P)
        P = point_add(P, P)
        s >>= 1
    return Q


def point_equal(P, Q):
    if (P[0] * Q[2] - Q[0] * P[2]) % p != 0:
        return False
    if (P[1] * Q[2] - Q[1] * P[2]) % p != 0:
        return False
    return True


def recover_x(y, sign):
    if y >= p:
        return None
    x2 = (y * y - 1) * pow(d * y * y + 1, p - 2, p)
    if x2 == 0:
        if sign:
            return None
        return 0
    x = pow(x2, (p + 3) // 8, p)
    if (x * x - x2) % p != 0:
        x = x * modp_sqrt_m1 % p
    if (x * x - x2) % p != 0:
        return None
    if (x & 1) != sign:
        x = p - x
    return x


g_y = 4 * pow(5, p - 2, p) % p
g_x = recover_x(g_y, 0)
G = (g_x, g_y, 1, g_x * g_y % p)


def point_compress(P):
    zinv = pow(P[2], p - 2, p)
    x = P[0] * zinv % p
    y = P[1] * zinv % p
    return int.to_bytes(y | ((x & 1) << 255), 32, "little")


def point_decompress(s):
    if len(s) != 32:
        return None
    y = int.from_bytes(s, "little")
    sign = y >> 255
    y &= (1 << 255) - 1
    x = recover_x(y, sign)
    if x is None:
        return None
    return (x, y, 1, x * y % p)


def secret_expand(secret):
    h = sha512(secret)
    a = int.from_bytes(h[:32], "little")
    a &= (1 << 254) - 8
    a |= 1 << 254
    return (a, h[32:])


def sign_expanded(a, prefix, msg):
    A = point_compress(point_mul(a, G))
    r = int.from_bytes(sha512(prefix + msg), "little") % L
    Rs = point_compress(point_mul(r, G))
    h = int.from_bytes(sha512(Rs + A + msg), "little") % L
    s = (r + h * a) % L
    return A, Rs + int.to_bytes(s, 32, "little")


def verify(public, msg, signature):
    if len(public) != 32 or len(signature) != 64:
        return False
    A = point_decompress(public)
    if not A:
        return False
    Rs = signature[:32]
    R = point_decompress(Rs)
    if not R:
        return False
    s = int.from_bytes(signature[32:], "little")
    if s >= L:
        return False
    h = int.from_bytes(sha512(Rs + public + msg), "little") % L
    sB = point_mul(s, G)
    hA = point_mul(h, A)
    return point_equal(sB, point_add(R, hA))


def selfcheck():
    sk = bytes.fromhex("c5aa8df43f9f837bedb7442f31dcb7b166d38535076f094b85ce3a2e0b4458f7")
    a, pre = secret_expand(sk)
    A, sig = sign_expanded(a, pre, bytes.fromhex("af82"))
    return (A.hex() == "fc51cd8e6218a1a38da47ed00230f0580816ed13ba3303ac5deb911548908025"
            and sig.hex() == "6291d657deec24024827e69c3abe01a30ce548a284743a445e3680d7db5ac3ac18ff9b538d16f290ae67f760984dc6594a7c15e9716ed28dc027beceea1ec40a"
            and verify(A, bytes.fromhex("af82"), sig) and not verify(A, bytes.fromhex("af83"), sig))


def flip(b, bit):
    b = bytearray(b)
    b[bit // 8] ^= 1 << (bit % 8)
    return bytes(b)


def main():
    ap = argparse.ArgumentParser()
    ap.add_argument("--in", dest="inp", required=True)
    ap.add_argument("--out", required=True)
    ap.add_argument("--prop", default="C11")
    a = ap.parse_args()
    res = {"property": a.prop, "evaluations": 0, "stats": {}, "fps": [], "samples": [], "violations": [], "inconclusive": [], "notes": {}}
    if not selfcheck():
        res["inconclusive"].append("python RFC 8032 reference does not reproduce the RFC test vector")
        json.dump(res, open(a.out, "w"))
        return 0
    viol = {}

    def violation(sig, what, replay):
        v = viol.get(sig)
        if v:
            v["count"] += 1
        else:
            viol[sig] = {"sig": sig, "what": what, "replay": replay, "count": 1}

    n = 0
    st = res["stats"]
    for line in open(a.inp):
        line = line.strip()
        if not line:
            continue
        try:
            ev = json.loads(line)
            kind = ev["kind"]
            secret = bytes.fromhex(ev["secret"])
            msg = bytes.fromhex(ev["msg"])
            pk = bytes.fromhex(ev["pk"])
            sig = bytes.fromhex(ev["sig"])
        except Exception:
            res["inconclusive"].append("offline oracle: unreadable line in %s" % a.inp)
            continue
        replay = {"kind": kind, "secret": ev["secret"], "msg": ev["msg"]}
        if kind == "standard":
            sc, prefix = secret_expand(secret)
        else:
            sc, prefix = int.from_bytes(secret[:32], "little"), secret[32:]
        A, S = sign_expanded(sc, prefix, msg)
        n += 1
        st["offline_tuples_replayed"] = st.get("offline_tuples_replayed", 0) + 1
        if A != pk:
            violation("offline:%s:public-key-differs-from-rfc8032-python" % kind, "secret %s: pallas pk %s, python RFC 8032 %s" % (ev["secret"], ev["pk"], A.hex()), replay)
        if S != sig:
            violation("offline:%s:signature-differs-from-rfc8032-python" % kind, "secret %s msg %s: pallas sig %s, python RFC 8032 %s" % (ev["secret"], ev["msg"][:128], ev["sig"], S.hex()), replay)
        if not verify(pk, msg, sig):
            violation("offline:%s:signature-rejected-by-rfc8032-python" % kind, "pk %s msg %s sig %s" % (ev["pk"], ev["msg"][:128], ev["sig"]), replay)
        for t in ev.get("tampers", []):
            f, bit = t["field"], t["bit"]
            tpk, tmsg, tsig = pk, msg, sig
            if f == "public-key":
                tpk = flip(pk, bit)
            elif f.startswith("signature"):
                tsig = flip(sig, bit)
            else:
                tmsg = flip(msg, bit)
            want = verify(tpk, tmsg, tsig)
            n += 1
            st["offline_tampered_verifications"] = st.get("offline_tampered_verifications", 0) + 1
            if want != t["pallas"]:
                violation("offline:verify:tampered-%s:pallas=%s:rfc8032-python=%s" % (f, "accept" if t["pallas"] else "reject", "accept" if want else "reject"),
                          "bit %d of %s flipped: pk %s msg %s sig %s" % (bit, f, tpk.hex(), tmsg.hex()[:128], tsig.hex()), {"kind": "verify", "pk": tpk.hex(), "msg": tmsg.hex(), "sig": tsig.hex()})
    res["evaluations"] = n
    res["violations"] = list(viol.values())
    if n == 0:
        res["inconclusive"].append("offline oracle: empty event log %s" % a.inp)
    json.dump(res, open(a.out, "w"))
    return 0


if __name__ == "__main__":
    sys.exit(main())
