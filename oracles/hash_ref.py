#!/usr/bin/env python3
"""Offline oracle for C10: replays the event log of a shard with hashlib.blake2b.

usage: hash_ref.py --in events-i.jsonl --out oracle-i.json --prop C10

Each line: {"op": ..., "params": {...}, "in": <hex>, "out": <hex or text>}
  hash              params.bits, params.splits   out = Blake2b-bits(in)
  hash_tagged       params.bits, params.tag      out = Blake2b-bits(tag || in)
  hash_cbor         params.bits                  out = Blake2b-bits(in)          (in = CBOR encoding)
  hash_tagged_cbor  params.bits, params.tag      out = Blake2b-bits(tag || in)
  epoch_nonce       params.extra (hex|null)      in = nc || nh ; out = H(nc||nh) or H(H(nc||nh) || extra)
  rolling_nonce                                  in = prev(32) || vrf(32|64) ; out = H(prev || H(vrf))
  hash_display      params.n                     out = lower-case hex of in
  hash_cbor_enc     params.n                     out = hex of the definite byte string encoding of in
The result has the shard-result format the driver merges.
"""
import sys, json, hashlib, argparse


def b2(bits, data):
    return hashlib.blake2b(data, digest_size=bits // 8).digest()


def bstr(data):
    n = len(data)
    if n < 24:
        return bytes([0x40 + n]) + data
    if n < 256:
        return bytes([0x58, n]) + data
    return bytes([0x59, n >> 8, n & 255]) + data


def expected(ev):
    op = ev["op"]
    p = ev.get("params") or {}
    data = bytes.fromhex(ev["in"])
    if op in ("hash", "hash_cbor"):
        return b2(p["bits"], data).hex()
    if op == "hash_tagged" or (op == "hash_tagged_cbor" and p.get("tag") is not None):
        return b2(p["bits"], bytes([p["tag"]]) + data).hex()
    if op == "hash_tagged_cbor":
        return b2(p["bits"], data).hex()
    if op == "epoch_nonce":
        if len(data) != 64:
            return None
        h = b2(256, data)
        if p.get("extra") is not None:
            h = b2(256, h + bytes.fromhex(p["extra"]))
        return h.hex()
    if op == "rolling_nonce":
        if len(data) not in (64, 96):
            return None
        return b2(256, data[:32] + b2(256, data[32:])).hex()
    if op == "hash_display":
        return data.hex()
    if op == "hash_cbor_enc":
        return bstr(data).hex()
    return None


def main():
    ap = argparse.ArgumentParser()
    ap.add_argument("--in", dest="inp", required=True)
    ap.add_argument("--out", required=True)
    ap.add_argument("--prop", default="C10")
    a = ap.parse_args()
    # self-check of the oracle itself (RFC 7693 appendix A: BLAKE2b-512("abc"))
    res = {"property": a.prop, "evaluations": 0, "stats": {}, "fps": [], "samples": [], "violations": [], "inconclusive": [], "notes": {}}
    if not hashlib.blake2b(b"abc").hexdigest().startswith("ba80a53f981c4d0d6a2797b69f12f6e9"):
        res["inconclusive"].append("hashlib.blake2b does not reproduce the RFC 7693 test vector")
        json.dump(res, open(a.out, "w"))
        return 0
    viol = {}
    n = 0
    bad_lines = 0
    for line in open(a.inp):
        line = line.strip()
        if not line:
            continue
        try:
            ev = json.loads(line)
            want = expected(ev)
        except Exception:
            bad_lines += 1
            continue
        if want is None:
            bad_lines += 1
            continue
        n += 1
        op = ev["op"]
        res["stats"]["offline_replayed_" + op] = res["stats"].get("offline_replayed_" + op, 0) + 1
        if want != ev["out"]:
            p = ev.get("params") or {}
            sig = "offline:%s:%s:output-differs-from-hashlib" % (op, p.get("bits", p.get("n", "")))
            v = viol.get(sig)
            if v:
                v["count"] += 1
            else:
                viol[sig] = {"sig": sig, "what": "%s params %s input %s: pallas gave %s, hashlib.blake2b replay gives %s" % (op, json.dumps(p)[:200], ev["in"][:200], ev["out"], want), "replay": {"kind": "offline", "event": ev if len(line) < 4000 else {"op": op, "params": p}}, "count": 1}
    res["evaluations"] = n
    res["stats"]["offline_replayed_events"] = n
    res["violations"] = list(viol.values())
    if bad_lines:
        res["inconclusive"].append("offline oracle: %d unreadable / unknown event lines in %s" % (bad_lines, a.inp))
    if n == 0:
        res["inconclusive"].append("offline oracle: empty event log %s" % a.inp)
    json.dump(res, open(a.out, "w"))
    return 0


if __name__ == "__main__":
    sys.exit(main())
