#!/usr/bin/env python3
"""Offline oracle for C15 / C16: the Cardano non-integral reference algorithm on python ints
(DESIGN.md appendix A) + mpmath true-value check.

Usage (driver): nonintegral_ref.py --in events-i.jsonl --out oracle-i.json --prop C15|C16

Event format (one JSON object per line, written by harness/src/bin/c15.rs / c16.rs):
  {"op": "exp"|"ln"|"pow"|"exp_cmp", "args": [<integer strings: value * 10^34>...],
   "result": "<printed decimal>" | null, "panic": "<panic site>" | null,
   "extra": {...}}            # exp_cmp: args = [x, compare], extra = {max_n, bound, iterations, estimation, kind}

Fixed point: value v is the integer v * 10^34.  All divisions are *truncating* (GMP mpz_tdiv_qr),
the fixed-point multiply *floors* (scale), exactly as in the published C++ reference.
"""
import sys, json, argparse, hashlib

if hasattr(sys, "set_int_max_str_digits"):
    sys.set_int_max_str_digits(0)

DIGITS = 34
P = 10 ** DIGITS
ONE = P
EPS = 10 ** (DIGITS - 24)


# ---------------------------------------------------------------------------------------
# reference algorithm
# ---------------------------------------------------------------------------------------
def tdivmod(x, y):
    """truncating division and its remainder (sign of remainder = sign of x)"""
    q = abs(x) // abs(y)
    if (x < 0) != (y < 0):
        q = -q
    return q, x - q * y


def scale(x):
    """floor(x / P): truncating division, minus one when x is negative with a non-zero remainder"""
    q, r = tdivmod(x, P)
    if x < 0 and r != 0:
        q -= 1
    return q


def fdiv(x, y):
    """fixed-point division, truncating in both steps"""
    q, r = tdivmod(x, y)
    q2, _ = tdivmod(r * P, y)
    return q * P + q2


def ipow_(x, n):
    if n == 0:
        return ONE
    if n % 2 == 0:
        r = ipow_(x, n // 2)
        return scale(r * r)
    return scale(ipow_(x, n - 1) * x)


def ipow(x, n):
    if n < 0:
        return fdiv(ONE, ipow_(x, -n))
    return ipow_(x, n)


def taylor(x, max_n=1000, eps=EPS):
    rop = ONE
    last = ONE
    d = ONE
    n = 0
    while n < max_n:
        nx = fdiv(scale(x * last), d)
        if abs(nx) < abs(eps):
            break
        d += ONE
        rop += nx
        last = nx
        n += 1
    return rop, n


def ref_exp(x):
    """returns (value, taylor iterations, scaling exponent n)"""
    if x == 0:
        return ONE, 0, 0
    if x < 0:
        v, it, n = ref_exp(-x)
        return fdiv(ONE, v), it, n
    q, r = tdivmod(x, P)
    n = q + 1 if r != 0 else q  # ceil(x)
    x_ = tdivmod(x, n)[0]
    t, it = taylor(x_)
    return ipow(t, n), it, n


_E = None


def E():
    global _E
    if _E is None:
        _E = ref_exp(ONE)[0]
    return _E


def ln1p_cf(x, max_n=1000, eps=EPS):
    """continued fraction for ln(1+x); returns (value, steps)"""
    convergent = 0
    last = 0
    first = True
    n = 1
    b = ONE
    an_m2, bn_m2, an_m1, bn_m1 = ONE, 0, 0, ONE
    curr_a = 1
    while n <= max_n + 2:
        a = x * (curr_a * curr_a)
        if n > 1 and n % 2 == 1:
            curr_a += 1
        a_ = scale(b * an_m1) + scale(a * an_m2)
        b_ = scale(b * bn_m1) + scale(a * bn_m2)
        convergent = fdiv(a_, b_)
        if first:
            first = False
        else:
            if abs(convergent - last) < abs(eps):
                break
        last = convergent
        n += 1
        an_m2, bn_m2, an_m1, bn_m1 = an_m1, bn_m1, a_, b_
        b += ONE
    return convergent, n


def find_e(x):
    e = E()
    x_ = fdiv(ONE, e)
    x__ = e
    l, u = -1, 1
    while x_ > x or x__ < x:
        x_ = scale(x_ * x_)
        x__ = scale(x__ * x__)
        l *= 2
        u *= 2
    while l + 1 != u:
        mid = l + ((u - l) // 2)
        v = ipow(e, mid)
        if x < v:
            u = mid
        else:
            l = mid
    return l


def ref_ln(x):
    """returns (value, e-bracket n, cf steps) or None outside the domain"""
    if x <= 0:
        return None
    n = find_e(x)
    rop = n * P
    factor = ref_exp(rop)[0]
    x_ = fdiv(x, factor) - ONE
    v, steps = ln1p_cf(x_)
    return rop + v, n, steps


def ref_pow(b, y):
    """returns (value, info) ; value None = undefined (0 ** negative)"""
    if y == 0 or b == ONE:
        return ONE, ("identity", 0, 0)
    if y == ONE:
        return b, ("identity", 0, 0)
    if b == 0:
        if y > 0:
            return 0, ("identity", 0, 0)
        return None, ("undefined", 0, 0)
    if b < 0:
        l = ref_ln(-b)[0]
        t = scale(l * y)
        v, it, n = ref_exp(t)
        ty = tdivmod(y, P)[0]
        odd = tdivmod(ty, 2)[1] != 0
        return (-v if odd else v), ("neg-base", it, n)
    l = ref_ln(b)[0]
    t = scale(l * y)
    v, it, n = ref_exp(t)
    return v, ("general", it, n)


def ref_exp_cmp(x, max_n, bound, c, abs_error_term=False):
    """C++ reference (signed error term).  abs_error_term=True: |error*bound| as in the Haskell
    taylorExpCmp; identical for x >= 0."""
    rop = ONE
    err = x
    d = ONE
    n = 0
    est = "UNKNOWN"
    while n < max_n:
        nx = err
        if abs(nx) < abs(EPS):
            break
        d += ONE
        err = fdiv(scale(err * x), d)
        et = err * bound
        if abs_error_term:
            et = abs(et)
        rop += nx
        if c > rop + et:
            est = "GT"
            n += 1
            break
        if c < rop - et:
            est = "LT"
            n += 1
            break
        n += 1
    return rop, est, n


def fmt(v, digits=DIGITS):
    p = 10 ** digits
    s = "-" if v < 0 else ""
    a = abs(v)
    return "%s%d.%s" % (s, a // p, str(a % p).rjust(digits, "0"))


def parse_printed(s):
    """printed decimal with exactly 34 fraction digits -> integer; None if malformed"""
    neg = s.startswith("-")
    body = s[1:] if neg else s
    if "." not in body:
        return None
    ip, fp_ = body.split(".", 1)
    if not ip.isdigit() or not fp_.isdigit() or len(fp_) != DIGITS:
        return None
    if len(ip) > 1 and ip[0] == "0":
        return None  # not canonical
    v = int(ip) * P + int(fp_)
    if neg and v == 0:
        return None  # "-0.000"
    return -v if neg else v


# ---------------------------------------------------------------------------------------
# second oracle: true values with mpmath (80 digits). Tolerances (stated up front):
#   exp : |r - e^x| <= rel(x) * e^x + 2 ulp,  rel(x) = 1e-20 for |x| <= 100, 1e-22 * |x| beyond
#         (the integer power multiplies the series' 1e-24 truncation error by ceil(x));
#         the 2 ulp term covers the truncating 1/e^|x| for negative x (34 digits absolute).
#   ln  : |r - ln x| <= 1e-20 + 1e-32 / min(x, 1)
#         (for x < 1 the argument is divided by e^n ~ x, itself a 34-digit fixed-point number,
#          so the quotient carries a relative error of about 1 ulp / x: inherent to the reference)
#   pow : t = y ln|b| ;  |r - |b|^y| <= (rel(t) + |y| tol_ln(|b|) + 1e-33 + 1e-18 (1+|t|)) * |b|^y + 2 ulp
# ---------------------------------------------------------------------------------------
_mp = None


def mp():
    global _mp
    if _mp is None:
        import mpmath
        mpmath.mp.dps = 80
        _mp = mpmath
    return _mp


def to_mpf(v):
    m = mp()
    return m.mpf(v) / m.mpf(P)


def exp_rel_tol(xf):
    m = mp()
    ax = abs(xf)
    return m.mpf("1e-20") if ax <= 100 else m.mpf("1e-22") * ax


def ln_abs_tol(xf):
    m = mp()
    return m.mpf("1e-20") + m.mpf("1e-32") / min(xf, m.mpf(1))


ULP = None


def ulp():
    global ULP
    if ULP is None:
        ULP = mp().mpf(1) / mp().mpf(P)
    return ULP


def check_true_exp(x, r):
    m = mp()
    xf = to_mpf(x)
    t = m.exp(xf)
    tol = exp_rel_tol(xf) * t + 2 * ulp()
    return abs(to_mpf(r) - t) <= tol


def check_true_ln(x, r):
    m = mp()
    xf = to_mpf(x)
    return abs(to_mpf(r) - m.log(xf)) <= ln_abs_tol(xf)


def check_true_pow(b, y, r):
    """magnitude check (sign of a negative base is decided by the reference port / parity)"""
    m = mp()
    bf = abs(to_mpf(b))
    yf = to_mpf(y)
    t = yf * m.log(bf)
    tv = m.exp(t)
    rel = exp_rel_tol(t) + abs(yf) * ln_abs_tol(bf) + m.mpf("1e-33") + m.mpf("1e-18") * (1 + abs(t))
    return abs(abs(to_mpf(r)) - tv) <= rel * tv + 2 * ulp()


# ---------------------------------------------------------------------------------------
# argument classes (used in signatures: never the digits themselves)
# ---------------------------------------------------------------------------------------
def cls_exp(x):
    if x == 0:
        return "zero"
    if x < 0:
        return "neg-arg"
    if x < ONE:
        return "pos-lt1"
    if x <= 100 * ONE:
        return "pos-1to100"
    return "pos-gt100"


def cls_ln(x):
    if x <= 0:
        return "nonpositive"
    if x < ONE:
        return "lt1"
    if x == ONE:
        return "one"
    if x < E():
        return "1-to-e"
    return "ge-e"


def cls_pow(b, y):
    if b < 0:
        cb = "neg-base"
    elif b == 0:
        cb = "zero-base"
    elif b < ONE:
        cb = "base-lt1"
    elif b == ONE:
        cb = "base-one"
    else:
        cb = "base-gt1"
    if y == 0:
        cy = "exp-zero"
    elif y == ONE:
        cy = "exp-one"
    elif y < 0:
        cy = "exp-neg"
    else:
        cy = "exp-pos"
    return cb + ":" + cy


def fp64(*parts):
    h = hashlib.blake2b(("|".join(str(p) for p in parts)).encode(), digest_size=8).digest()
    return int.from_bytes(h, "big") & ((1 << 63) - 1)


# ---------------------------------------------------------------------------------------
# result accumulator (shard-result format understood by ./check)
# ---------------------------------------------------------------------------------------
class Acc:
    def __init__(self, prop):
        self.prop = prop
        self.evaluations = 0
        self.stats = {}
        self.maxes = {}
        self.fps = set()
        self.samples = []
        self.violations = {}
        self.inconclusive = []

    def count(self, k, n=1):
        self.stats[k] = self.stats.get(k, 0) + n

    def max(self, k, n):
        if n > self.maxes.get(k, 0):
            self.maxes[k] = n

    def sample(self, s):
        if len(self.samples) < 4:
            self.samples.append(s)

    def violation(self, sig, what, replay):
        sig = self.prop + ":" + sig
        v = self.violations.get(sig)
        if v:
            v["count"] += 1
        else:
            self.violations[sig] = {"sig": sig, "what": what[:900], "replay": replay, "count": 1}

    def dump(self, path):
        out = {
            "property": self.prop,
            "evaluations": self.evaluations,
            "stats": self.stats,
            "max": self.maxes,
            "fps": sorted(self.fps)[:60000],
            "fp_overflow": max(0, len(self.fps) - 60000),
            "samples": self.samples,
            "violations": list(self.violations.values()),
            "inconclusive": self.inconclusive,
            "notes": {},
        }
        with open(path, "w") as f:
            json.dump(out, f)


def short(s, n=80):
    s = str(s)
    return s if len(s) <= n else s[:40] + "...(%d chars)..." % len(s) + s[-20:]


def slim(ev):
    """replay payload: the event itself, with very long results shortened"""
    e = dict(ev)
    if isinstance(e.get("result"), str) and len(e["result"]) > 400:
        e["result"] = short(e["result"], 400)
    return e


# ---------------------------------------------------------------------------------------
# C15
# ---------------------------------------------------------------------------------------
def check_c15(ev, acc):
    op = ev["op"]
    args = [int(a) for a in ev["args"]]
    res = ev.get("result")
    pan = ev.get("panic")
    acc.evaluations += 1
    acc.count("checked_" + op)
    if op == "exp":
        x = args[0]
        cl = cls_exp(x)
        exp_v, it, n = ref_exp(x)
        undefined = False
        nontrivial = it >= 3 or n >= 2
        info = {"taylor_iterations": it, "scaling_n": n}
        acc.max("exp_max_taylor_iterations", it)
        acc.max("exp_max_scaling_n", n)
    elif op == "ln":
        x = args[0]
        cl = cls_ln(x)
        r = ref_ln(x)
        undefined = r is None
        if r is None:
            exp_v, info, nontrivial = None, {}, False
        else:
            exp_v, n, steps = r
            nontrivial = steps >= 3 or abs(n) >= 2
            info = {"e_bracket": n, "cf_steps": steps}
            acc.max("ln_max_cf_steps", steps)
            acc.max("ln_max_abs_bracket", abs(n))
            if n < 0:
                acc.count("ln_negative_bracket")
    elif op == "pow":
        b, y = args
        cl = cls_pow(b, y)
        exp_v, (kind, it, n) = ref_pow(b, y)
        undefined = exp_v is None
        nontrivial = kind in ("general", "neg-base") and (it >= 3 or n >= 2)
        info = {"kind": kind, "taylor_iterations": it, "scaling_n": n}
        acc.count("pow_" + kind)
    else:
        acc.inconclusive.append("unknown op in event log: %r" % op)
        return

    if undefined:
        # outside the domain the reference has no value; pallas documents a panic
        if pan is not None:
            acc.count("domain_panic_as_documented")
        else:
            acc.violation("%s:value-outside-domain:%s" % (op, cl),
                          "%s(%s) is undefined in the reference (argument outside the domain) but pallas returned %s" % (op, ev["args"], short(res)), slim(ev))
        return
    if pan is not None:
        acc.violation("%s:panic:%s:%s" % (op, cl, pan),
                      "%s(%s) panicked (%s); the reference returns %s" % (op, ev["args"], pan, short(fmt(exp_v))), slim(ev))
        return
    # the canonical printed form is a bijection of the stored integer, so digit-for-digit equality
    # of the printed values == equality of the integers (avoids formatting 400 000-digit numbers)
    got = parse_printed(res) if isinstance(res, str) else None
    if got is None:
        acc.violation("%s:malformed-print:%s" % (op, cl), "%s(%s) printed %r" % (op, ev["args"], short(res)), slim(ev))
        return
    if got != exp_v:
        want = fmt(exp_v)
        acc.violation("%s:digits-differ:%s" % (op, cl),
                      "%s(%s): pallas printed %s, reference algorithm gives %s (%s)" % (op, [short(a) for a in ev["args"]], short(res), short(want), info), slim(ev))
    else:
        acc.count("digit_exact_" + op)
    # second oracle on the value pallas returned
    if op == "exp":
        ok = check_true_exp(args[0], got)
    elif op == "ln":
        ok = check_true_ln(args[0], got)
    else:
        b, y = args
        if kind == "identity":
            # b^0 = 1, 1^y = 1, b^1 = b, 0^y = 0 : exact
            ok = got == exp_v
        else:
            ok = check_true_pow(b, y, got)
            if ok and b < 0 and tdivmod(y, P)[1] == 0:
                # integral exponent: the sign is mathematically defined
                odd = tdivmod(tdivmod(y, P)[0], 2)[1] != 0
                if got != 0 and (got < 0) != odd:
                    ok = False
                acc.count("pow_neg_base_integral_exponent")
    if ok:
        acc.count("true_value_ok_" + op)
    else:
        acc.violation("%s:off-true-value:%s" % (op, cl),
                      "%s(%s) = %s deviates from the true value by more than the stated tolerance" % (op, [short(a) for a in ev["args"]], short(res)), slim(ev))
    if nontrivial:
        acc.fps.add(fp64(op, *ev["args"]))
        acc.count("nontrivial_" + op)
    else:
        acc.count("trivial_" + op)
    acc.count("class_%s_%s" % (op, cl.replace(":", "_")))
    if len(acc.samples) < 4 and nontrivial and len(str(res)) < 200:
        acc.sample({"op": op, "args": ev["args"], "pallas": res, "reference": fmt(exp_v), **info})


# ---------------------------------------------------------------------------------------
# C16
# ---------------------------------------------------------------------------------------
def check_c16(ev, acc):
    if ev["op"] != "exp_cmp":
        acc.inconclusive.append("unknown op in event log: %r" % ev["op"])
        return
    m = mp()
    x, c = int(ev["args"][0]), int(ev["args"][1])
    ex = ev["extra"]
    max_n, bound = int(ex["max_n"]), int(ex["bound"])
    acc.evaluations += 1
    xc = "neg-x" if x < 0 else ("zero-x" if x == 0 else ("x-le-1.2" if x <= 12 * P // 10 else "x-gt-1.2"))
    acc.count("class_" + xc)
    if ev.get("panic") is not None:
        acc.violation("exp_cmp:panic:%s:%s" % (xc, ev["panic"]), "exp_cmp(x=%s, max_n=%d, bound=%d, compare=%s) panicked: %s" % (ev["args"][0], max_n, bound, ev["args"][1], ev["panic"]), ev)
        return
    got = (ev["result"], ex["estimation"], int(ex["iterations"]))
    r_rop, r_est, r_n = ref_exp_cmp(x, max_n, bound, c)
    want = (fmt(r_rop), r_est, r_n)
    match = got == want
    if not match and x < 0:
        # for x < 0 the published variants differ in the sign handling of the error term
        # (C++: signed, Haskell: absolute value); either is accepted as "the reference"
        a_rop, a_est, a_n = ref_exp_cmp(x, max_n, bound, c, abs_error_term=True)
        if got == (fmt(a_rop), a_est, a_n):
            match = True
            acc.count("triple_matches_abs_error_variant")
    if match:
        acc.count("triple_exact")
    else:
        which = "approx" if got[0] != want[0] else ("iterations" if got[2] != want[2] else "estimation")
        acc.violation("exp_cmp:triple-differs:%s:%s" % (which, xc),
                      "exp_cmp(x=%s, max_n=%d, bound=%d, compare=%s): pallas (approx, estimation, iterations) = %s, reference algorithm = %s" % (ev["args"][0], max_n, bound, ev["args"][1], got, want), ev)
    acc.count("estimation_" + str(got[1]))
    acc.max("max_iterations", got[2])
    # truth of the conclusion
    xf = to_mpf(x)
    t = m.exp(xf)
    dominated = m.mpf(bound) >= m.exp(abs(xf))
    if not dominated:
        acc.count("bound_below_exp_abs_x_not_judged")
    else:
        band = (got[2] + 2) * 3 * ulp() * max(m.mpf(1), t)
        cf = to_mpf(c)
        diff = cf - t
        if got[1] in ("GT", "LT"):
            if abs(diff) <= band:
                acc.count("undecidable-by-quantisation")
            elif got[1] == "GT" and diff < 0:
                acc.violation("exp_cmp:wrong-GT:%s" % xc,
                              "exp_cmp(x=%s, max_n=%d, bound=%d, compare=%s) answered GT after %d iterations but compare < e^x (compare - e^x = %s)" % (fmt(x), max_n, bound, fmt(c), got[2], m.nstr(diff, 8)), ev)
            elif got[1] == "LT" and diff > 0:
                acc.violation("exp_cmp:wrong-LT:%s" % xc,
                              "exp_cmp(x=%s, max_n=%d, bound=%d, compare=%s) answered LT after %d iterations but compare > e^x (compare - e^x = %s)" % (fmt(x), max_n, bound, fmt(c), got[2], m.nstr(diff, 8)), ev)
            else:
                acc.count("conclusion_true_" + got[1])
        else:
            acc.count("unknown_answers_judged_vacuously")
    # non-trivial: close comparisons (relative distance <= 1e-6) or UNKNOWN
    rel = abs(to_mpf(c) - t) / t
    if rel <= m.mpf("1e-6") or got[1] == "UNKNOWN":
        acc.fps.add(fp64("exp_cmp", ev["args"][0], ev["args"][1], max_n, bound))
        acc.count("nontrivial")
        if len(acc.samples) < 4:
            acc.sample({"x": fmt(x), "compare": fmt(c), "max_n": max_n, "bound": bound, "pallas": got, "reference": want, "rel_distance": m.nstr(rel, 5)})


def main():
    ap = argparse.ArgumentParser()
    ap.add_argument("--in", dest="inp", required=True)
    ap.add_argument("--out", required=True)
    ap.add_argument("--prop", required=True)
    a = ap.parse_args()
    acc = Acc(a.prop)
    chk = check_c15 if a.prop == "C15" else check_c16
    with open(a.inp) as f:
        for line in f:
            line = line.strip()
            if not line:
                continue
            try:
                ev = json.loads(line)
            except ValueError:
                acc.inconclusive.append("unparsable line in event log (shard died while writing?)")
                continue
            chk(ev, acc)
    acc.dump(a.out)


if __name__ == "__main__":
    main()
