"""Per-property configuration: one JSON file per property in this directory."""
import json, os, glob
PROPS = {}
for f in sorted(glob.glob(os.path.join(os.path.dirname(os.path.abspath(__file__)), "C*.json"))):
    PROPS[os.path.basename(f)[:-5]] = json.load(open(f))
