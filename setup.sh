#!/bin/bash
# MANIFEST.setup_cmd: builds the harness from files on disk (offline) and self-tests the oracles.
set -u
cd "$(dirname "$0")"
export CARGO_NET_OFFLINE=true
cp -f /repo/Cargo.lock harness/Cargo.lock.repo 2>/dev/null || true
( cd harness && cargo build --offline --profile checked --bins 2>&1 | tail -3 ) || exit 1
( cd harness && cargo build --offline --profile release --bins 2>&1 | tail -3 ) || exit 1
harness/target/checked/selftest || exit 1
python3-vt oracles/selftest.py || exit 1
# warm the Miri sysroot + crate (failures here only make the Miri steps inconclusive)
( cd miri && MIRIFLAGS="-Zmiri-disable-isolation" timeout 900 cargo +nightly miri run --offline --bin m14 -- 1 quick 0/64 2>&1 | tail -1 | cut -c1-120 ) || true
( cd miri && MIRIFLAGS="-Zmiri-disable-isolation -Zmiri-tree-borrows" timeout 1500 cargo +nightly miri run --offline --bin m09 -- 1 quick 0/64 2>&1 | tail -1 | cut -c1-120 ) || true
echo "setup done"
