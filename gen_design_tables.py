#!/usr/bin/env python3
"""Regenerates the generated sections of DESIGN.md (between <!-- BEGIN x --> / <!-- END x --> markers):
 findings  : known / fixed findings per property, from findings/Cnn.json
 seeded    : seeded changes (seeded/Cnn-k/meta.json) and which check caught them (mutants/RESULTS.md)"""
import json, os, glob, re
V = os.path.dirname(os.path.abspath(__file__))

def findings_md():
    out = ["| Property | Status | Signature | What |", "|---|---|---|---|"]
    for f in sorted(glob.glob(os.path.join(V, "findings", "C*.json"))):
        for e in json.load(open(f)):
            st = e["status"] + (" " + e.get("commit", "") if e["status"] == "fixed" else "")
            what = e.get("what", "").replace("|", "\\|").replace("\n", " ")
            if len(what) > 260: what = what[:257] + "..."
            sig = e["signature"].replace("|", "\\|")
            if len(sig) > 110: sig = sig[:107] + "..."
            out.append(f"| {e['property']} | {st} | `{sig}` | {what} |")
    return "\n".join(out)

def seeded_md():
    res = {}
    p = os.path.join(V, "mutants", "RESULTS.md")
    if os.path.exists(p):
        for l in open(p):
            parts = [x.strip() for x in l.split("|")]
            if len(parts) >= 5 and parts[1].endswith("patch.diff"):
                res[(parts[1].split("/")[0], parts[2])] = (parts[3], parts[4])
    out = ["| Seeded change | Breaks | Needs to manifest | Check | Result | First signatures |", "|---|---|---|---|---|---|"]
    for d in sorted(glob.glob(os.path.join(V, "seeded", "C*-*"))):
        name = os.path.basename(d)
        try:
            m = json.load(open(os.path.join(d, "meta.json")))
        except Exception:
            continue
        prop = m.get("property", name.split("-")[0])
        r = res.get((name, prop), ("not run", ""))
        others = [f"{k[1]}: {v[0]}" for k, v in res.items() if k[0] == name and k[1] != prop]
        if others:
            r = (r[0] + " (" + ", ".join(others) + ")", r[1])
        w = str(m.get("what_it_breaks", "")).replace("|", "\\|").replace("\n", " ")
        n = str(m.get("needs_to_manifest", "")).replace("|", "\\|").replace("\n", " ")
        if len(w) > 220: w = w[:217] + "..."
        if len(n) > 200: n = n[:197] + "..."
        sig = r[1].replace("|", "\\|")
        if len(sig) > 140: sig = sig[:137] + "..."
        out.append(f"| seeded/{name} | {w} | {n} | {prop} | {r[0]} | `{sig}` |")
    return "\n".join(out)

def main():
    p = os.path.join(V, "DESIGN.md")
    s = open(p).read()
    for key, fn in (("findings", findings_md), ("seeded", seeded_md)):
        b, e = f"<!-- BEGIN {key} -->", f"<!-- END {key} -->"
        if b in s and e in s:
            s = s[: s.index(b) + len(b)] + "\n" + fn() + "\n" + s[s.index(e):]
    open(p, "w").write(s)

if __name__ == "__main__":
    main()
