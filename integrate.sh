#!/bin/bash
# ./integrate.sh aNN : copy the files an author created in scratch/aNN into /verif; list shared files that differ
cd "$(dirname "$0")"; S=scratch/$1
for d in harness/src harness/src/bin props findings oracles miri/src/bin miri/src mutants; do
  [ -d $S/$d ] || continue
  for f in $S/$d/*; do
    [ -f "$f" ] || continue
    rel=${f#$S/}
    if [ ! -e "$rel" ]; then mkdir -p "$(dirname $rel)"; cp "$f" "$rel"; echo "NEW   $rel";
    elif ! cmp -s "$f" "$rel"; then echo "DIFF  $rel"; fi
  done
done
for f in harness/Cargo.toml miri/Cargo.toml check gen_manifest.py setup.sh HARNESS_API.md; do cmp -s $S/$f $f || echo "DIFF  $f"; done
