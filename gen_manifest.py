#!/usr/bin/env python3
"""Regenerates MANIFEST.json from props.py (single source of truth) and properties.jsonl."""
import json, os, sys
V = os.path.dirname(os.path.abspath(__file__))
sys.path.insert(0, V)
from props import PROPS
ids = [json.loads(l)["id"] for l in open(os.path.join(V, "properties.jsonl"))]
hook_commits = []
hp = os.path.join(V, "hook_commits.txt")
if os.path.exists(hp):
    hook_commits = [l.strip() for l in open(hp) if l.strip()]
checks = []
na = []
for i in ids:
    c = PROPS.get(i)
    if not c or c.get("disabled"):
        na.append({"property_id": i, "reason": (c or {}).get("disabled", "check not built yet in this round; see DESIGN.md section 5 for the planned monitor")})
        continue
    engines = ["pv harness (Rust, real pallas code)"]
    if c.get("oracle"): engines.append("python offline oracle " + c["oracle"])
    if c.get("miri"): engines.append("Miri")
    checks.append({
        "property_id": i,
        "quick_cmd": f"./check {i} quick",
        "thorough_cmd": f"./check {i} thorough",
        "evidence_file": f"evidence/{i}.json",
        "replay_cmd_template": f"./check {i} --replay {{path}}",
        "engine": " + ".join(engines),
        "level_claimed": {
            "category": "exploration",
            "text": c.get("level_text", "Runtime monitoring: the real code is executed on generated / hostile workloads and an independent oracle observes every execution. The verdict covers exactly the executions produced (counts in the evidence file), not all inputs."),
            "design_ref": f"DESIGN.md section 5, {i}",
        },
        "level_note": "; ".join(c.get("trusted_base", []) + c.get("assumptions", [])) or "oracle code in /verif/harness/src is trusted",
        "technique": c.get("technique", "runtime monitoring with reference-model oracle"),
    })
m = {
    "version": 1,
    "setup_cmd": "./setup.sh",
    "hooks": {
        "guard": "pallas_verif",
        "enable": "RUSTFLAGS='--cfg pallas_verif' (reserved; no hooks are needed: all observation points are public API)" if not hook_commits else "harness builds pallas with --cfg pallas_verif",
        "baseline_off_cmd": "cd /repo && cargo test --workspace --no-fail-fast --offline",
        "source_commits": hook_commits,
        "add_only": True,
    },
    "engines": [
        {"name": "pv", "path": "harness", "serves_properties": [c["property_id"] for c in checks], "kind_free_text": "Rust harness crate, one binary per property, path-depends on /repo crates; driver ./check shards workloads over sub-processes, merges observations, matches known findings, writes evidence"},
        {"name": "miri", "path": "miri", "serves_properties": [i for i in ids if PROPS.get(i, {}).get("miri")], "kind_free_text": "cargo +nightly miri run on small programs exercising the unsafe / slice-arithmetic code"},
        {"name": "py-oracles", "path": "oracles", "serves_properties": [i for i in ids if PROPS.get(i, {}).get("oracle")], "kind_free_text": "python offline checkers replaying event logs against reference implementations (python ints / Fraction / mpmath / hashlib)"},
    ],
    "checks": checks,
    "not_applicable": na,
    "notes": "Family: runtime monitoring and sanitizers. Known findings are listed in known_findings.json; see DESIGN.md.",
}
json.dump(m, open(os.path.join(V, "MANIFEST.json"), "w"), indent=1)
print(f"MANIFEST.json: {len(checks)} checks, {len(na)} not_applicable")
