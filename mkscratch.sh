#!/bin/bash
# ./mkscratch.sh NAME : private working copy of /verif (with the prebuilt target dir) under /verif/scratch/NAME
set -e
cd "$(dirname "$0")"
mkdir -p scratch/$1
rsync -a --exclude .git --exclude scratch --exclude run --exclude evidence --exclude replay ./ scratch/$1/
mkdir -p scratch/$1/evidence scratch/$1/findings
echo scratch/$1
