#!/bin/bash
# ./run_all.sh [tier] [seeds...] : run every registered check sequentially at the given seeds, summarise
cd "$(dirname "$0")"
tier=${1:-quick}; shift; seeds=${@:-1}
mkdir -p run/all
for s in $seeds; do
  for c in $(python3 -c "import json;print(' '.join(c['property_id'] for c in json.load(open('MANIFEST.json'))['checks']))"); do
    st=$(date +%s)
    VERIF_SEED=$s ./check $c $tier > run/all/$c-$tier-$s.log 2>&1; rc=$?
    en=$(date +%s)
    v=$(grep -c '^VIOLATION' run/all/$c-$tier-$s.log); k=$(grep -c '^KNOWN-FINDING' run/all/$c-$tier-$s.log); i=$(grep -c '^INCONCLUSIVE' run/all/$c-$tier-$s.log)
    echo "$c $tier seed=$s rc=$rc violations=$v known=$k inconclusive=$i wall=$((en-st))s"
  done
done
